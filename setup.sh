#!/bin/sh
# MANIFEST.setup_cmd: build the framework offline from files on disk only.
set -e
here=$(cd "$(dirname "$0")" && pwd)
cd "$here"
# jsonschema (absent from /venv) into a private directory; /venv itself is left untouched
if [ ! -d .pydeps/jsonschema ]; then
  /venv/bin/pip install --quiet --no-index --find-links /opt/veriftools/wheels --target .pydeps \
      jsonschema referencing rpds_py attrs jsonschema_specifications >/dev/null 2>&1 || \
  echo "setup: jsonschema could not be installed (C08 will say so)"
fi
# regenerate lean/Gen from the working tree, then build every theorem module and every driver
/venv/bin/python harness/translate.py || true
cd lean
lake build
drivers=$(ls Drivers/*.lean 2>/dev/null | sed 's#Drivers/\(.*\)\.lean#drv_\1#')
[ -n "$drivers" ] && lake build $drivers
echo "setup: done"
