#!/bin/sh
# MANIFEST.setup_cmd: build the framework offline from files on disk only.
here=$(cd "$(dirname "$0")" && pwd)
cd "$here"
# jsonschema (absent from /venv) into a private directory; /venv itself is left untouched
if [ ! -d .pydeps/jsonschema ]; then
  /venv/bin/pip install --quiet --no-index --find-links /opt/veriftools/wheels --target .pydeps \
      jsonschema referencing rpds_py attrs jsonschema_specifications >/dev/null 2>&1 || \
  echo "setup: jsonschema could not be installed (C08 will say so)"
fi
# regenerate lean/Gen from the working tree, then build every theorem module and every driver.
# Each target is built on its own so that one broken module cannot take the others down; a module
# that does not build is reported by its own check.
/venv/bin/python harness/translate.py || echo "setup: translator reported a failing item"
cd lean
for f in GeffProps/C*.lean; do
  m=$(echo "$f" | sed 's#/#.#; s#\.lean$##')
  lake build "$m" >/dev/null 2>&1 || echo "setup: $m does not build"
done
for f in Drivers/*.lean; do
  d=$(echo "$f" | sed 's#Drivers/\(.*\)\.lean#drv_\1#')
  lake build "$d" >/dev/null 2>&1 || echo "setup: $d does not build"
done
echo "setup: done"
