"""Shared machinery of the /verif checks.

A check (`./check Cxx --tier quick|thorough`) does, in order:
  1. environment guard: geff / geff_spec must import from $GEFF_REPO (default /repo) — never from
     site-packages (which holds a different, newer build);
  2. translate: regenerate lean/Gen/*.lean from the working tree (harness/translate.py);
  3. prove: `lake build` the property's theorem module and audit the axioms of every theorem in it;
  4. correspond: run the implementation and the Lean model/spec (through a JSON-lines driver) on
     the same generated cases and compare;
  5. decide, write evidence/Cxx.json, print VIOLATION / KNOWN-FINDING lines, exit 0/1 (2 = the
     check itself could not run).
Steps 1-3 and 5 live here; step 4 is harness/corr/Cxx.py.
"""
from __future__ import annotations

import contextlib
import fcntl
import hashlib
import json
import os
import random
import re
import subprocess
import sys
import time
from pathlib import Path

VERIF = Path(__file__).resolve().parent.parent
LEAN = VERIF / "lean"
REPO = Path(os.environ.get("GEFF_REPO", "/repo")).resolve()
ALLOWED_AXIOMS = {"propext", "Classical.choice", "Quot.sound"}
FORBIDDEN = re.compile(
    r"\b(sorry|admit|native_decide|bv_decide|implemented_by|unsafe)\b|^\s*axiom\s|maxHeartbeats\s+0\b",
    re.M,
)
TRUSTED_BASE = [
    "Lean 4.33.0 kernel (lake build; leanchecker re-check in the thorough tier)",
    "axioms allowed in property theorems: propext, Classical.choice, Quot.sound (audited per run)",
    "harness/translate.py (source -> lean/Gen) and the correspondence harness harness/corr/*.py",
    "numpy / zarr / pydantic / networkx / pandas behaviour is modelled, exercised by the "
    "correspondence on every run, not verified",
]


def die(msg: str, code: int = 2):
    print(f"CHECK-ERROR: {msg}", flush=True)
    sys.exit(code)


# --------------------------------------------------------------------------- environment guard
def setup_impl():
    """Make the working tree's geff importable; refuse to run against anything else."""
    srcs = [REPO / "packages/geff/src", REPO / "packages/geff-spec/src"]
    for s in srcs:
        if not s.is_dir():
            die(f"{s} missing")
    pydeps = VERIF / ".pydeps"
    sys.path[:0] = [str(s) for s in srcs]
    if pydeps.is_dir():
        sys.path.append(str(pydeps))
    os.environ["PYTHONPATH"] = os.pathsep.join(
        [str(s) for s in srcs] + ([str(pydeps)] if pydeps.is_dir() else [])
        + [p for p in os.environ.get("PYTHONPATH", "").split(os.pathsep) if p]
    )
    os.environ["PYTHONDONTWRITEBYTECODE"] = "1"
    sys.dont_write_bytecode = True
    import warnings

    warnings.simplefilter("ignore")
    import geff  # noqa
    import geff_spec  # noqa

    for m in (geff, geff_spec):
        if not str(Path(m.__file__).resolve()).startswith(str(REPO)):
            die(f"{m.__name__} imported from {m.__file__}, not from {REPO}")
    return geff, geff_spec


# --------------------------------------------------------------------------- locking / lake
@contextlib.contextmanager
def lake_lock():
    d = VERIF / ".locks"
    d.mkdir(exist_ok=True)
    with open(d / "lake.lock", "w") as fh:
        fcntl.flock(fh, fcntl.LOCK_EX)
        try:
            yield
        finally:
            fcntl.flock(fh, fcntl.LOCK_UN)


def run_cmd(cmd, cwd=None, timeout=1800, input=None):
    p = subprocess.run(cmd, cwd=cwd, capture_output=True, text=True, timeout=timeout, input=input)
    return p.returncode, p.stdout + p.stderr


def build_private_driver(name: str):
    """(call with the lake lock held) build drv_<name> and copy it to a private file, so that a
    concurrent check of another tree, which may regenerate lean/Gen and rebuild the same target,
    cannot swap the executable under this run"""
    import atexit
    import shutil

    rc, log = run_cmd(["lake", "build", f"drv_{name}"], cwd=LEAN, timeout=3000)
    exe = LEAN / ".lake" / "build" / "bin" / f"drv_{name}"
    if rc != 0 or not exe.exists():
        return None, log[-3000:]
    d = VERIF / ".locks"
    d.mkdir(exist_ok=True)
    priv = d / f"drv_{name}_{os.getpid()}"
    shutil.copy2(exe, priv)
    atexit.register(lambda: priv.exists() and priv.unlink())
    return priv, ""


class LeanDriver:
    """Runs lean/Drivers/<name>.lean over a batch of JSON requests (one per line).

    The driver is compiled (`lake build drv_<name>`, a lean_exe; the models import no Mathlib so it
    links) and the batch is split over several processes; if the executable cannot be built the
    same file is run by the interpreter (`lake env lean --run`), ~25x slower."""

    def __init__(self, name: str, private_exe: Path | None = None):
        self.name = name
        self.path = LEAN / "Drivers" / f"{name}.lean"
        self.broken: str | None = None
        self.exe: Path | None = None
        if private_exe is not None and private_exe.exists():
            self.exe = private_exe
            return
        with lake_lock():
            self.exe, self.build_log = build_private_driver(name)

    def _run(self, data: str, timeout: int):
        cmd = [str(self.exe)] if self.exe else ["lake", "env", "lean", "--run", str(self.path)]
        return subprocess.run(cmd, cwd=LEAN, input=data, capture_output=True, text=True, timeout=timeout)

    def ask(self, reqs: list[dict], timeout: int = 3000, procs: int = 8) -> list[dict] | None:
        if not reqs:
            return []
        from concurrent.futures import ThreadPoolExecutor

        n = len(reqs)
        k = max(1, min(procs, n // 200))
        bounds = [(i * n // k, (i + 1) * n // k) for i in range(k)]

        def work(b):
            part = reqs[b[0]: b[1]]
            data = "\n".join(json.dumps(r, separators=(",", ":")) for r in part) + "\n"
            try:
                p = self._run(data, timeout)
            except subprocess.TimeoutExpired:
                return "driver timeout"
            lines = [ln for ln in p.stdout.splitlines() if ln.strip()]
            if p.returncode != 0 or len(lines) != len(part):
                return (p.stdout[-1500:] + p.stderr[-1500:]) or f"exit {p.returncode}"
            try:
                return [json.loads(ln) for ln in lines]
            except json.JSONDecodeError as e:
                return f"bad driver output: {e}"

        with ThreadPoolExecutor(k) as ex:
            parts = list(ex.map(work, bounds))
        out: list[dict] = []
        for r in parts:
            if isinstance(r, str):
                self.broken = r
                return None
            out.extend(r)
        return out


# --------------------------------------------------------------------------- the check object
class Check:
    def __init__(self, prop: str, tier: str, seed: int):
        self.prop, self.tier, self.seed = prop, tier, seed
        self.t0 = time.time()
        self.rng = random.Random(f"{prop}:{seed}")
        self.quick = tier == "quick"
        # proof side
        self.obligations: list[dict] = []      # {"name":…, "axioms":[…], "ok":bool}
        self.broken: list[dict] = []           # {"what": "theorem …"/"corr …", "detail": …}
        self.build_log = ""
        # correspondence side
        self.evaluations = 0
        self.distinct: set[str] = set()
        self.histogram: dict[str, int] = {}
        self.samples: list = []
        self.failures: list[dict] = []         # concrete failing inputs on the implementation
        self.extra: dict = {}
        self.assumptions: list[str] = []
        self.known = [k for k in load_known() if k["property"] == prop and k["kind"] == "known"]
        self.known_seen: dict[str, int] = {}
        self.rule = ""
        self.checker_cmds: list[str] = []

    # ---- step 2+3
    def prove(self, targets: list[str], modules: list[str] | None = None):
        """translate, build `targets`, audit every theorem of `modules` (default = targets)."""
        modules = modules or targets
        with lake_lock():
            from harness import translate

            # every item is regenerated on every check (1 s): a theorem module may import another
            # property's module (the CxxLinks integration layer), so all of lean/Gen must describe
            # the tree under test.  VERIF_TRANSLATE_ONLY_OWN=1 restricts this to the property's own
            # items (used only while several builders tested different trees concurrently).
            only = self.prop if os.environ.get("VERIF_TRANSLATE_ONLY_OWN") == "1" else None
            tr = translate.run(REPO, LEAN / "Gen", only)
            self.extra["translator"] = tr
            for item, st in tr.items():
                # an item of another property that fails shows up through the build of the theorems
                # that consume it; only the property's own items break its check directly
                own = st.get("props") is None or self.prop in (st.get("props") or [])
                if not st.get("ok") and own:
                    self.broken.append({"what": f"translator {item}", "detail": st.get("error", "")})
            cmd = ["lake", "build", *targets]
            self.checker_cmds.append("cd lean && " + " ".join(cmd))
            rc, log = run_cmd(cmd, cwd=LEAN, timeout=3000)
            self.build_log = log
            if rc != 0:
                errs = re.findall(r"^error: (\S+?\.lean:\d+:\d+: .*)$", log, re.M)
                self.broken.append({"what": "lake build " + " ".join(targets), "detail": "\n".join(errs[:20]) or log[-3000:]})
            # the property's driver is built under the same lock (same lean/Gen as the theorems)
            if (LEAN / "Drivers" / f"{self.prop}.lean").exists():
                self._private_exe, _ = build_private_driver(self.prop)
            # audit (only meaningful when the build succeeded)
            if rc == 0:
                self._audit(modules)
            self._grep_forbidden(modules)
            if self.tier == "thorough" and rc == 0 and os.environ.get("VERIF_NO_LEANCHECKER") != "1":
                cmd = ["lake", "env", "leanchecker", *modules]
                self.checker_cmds.append("cd lean && " + " ".join(cmd))
                rc2, log2 = run_cmd(cmd, cwd=LEAN, timeout=3000)
                self.extra["leanchecker"] = "ok" if rc2 == 0 else log2[-1500:]
                if rc2 != 0:
                    self.broken.append({"what": "leanchecker", "detail": log2[-1500:]})

    def _audit(self, modules):
        ad = LEAN / ".audit"
        ad.mkdir(exist_ok=True)
        src = ["import Lean"] + [f"import {m}" for m in modules] + [
            "open Lean Elab Command in",
            "run_cmd do",
            "  let env ← getEnv",
            "  for m in [" + ", ".join(f"`{m}" for m in modules) + "] do",
            "    let some idx := env.getModuleIdx? m | throwError \"no module\"",
            "    for (n, ci) in env.constants.map₁.toList do",
            "      if env.getModuleIdxFor? n == some idx then",
            "        if (ci matches .thmInfo _) && !n.isInternalDetail then",
            "          let axs ← Lean.collectAxioms n",
            "          logInfo m!\"THEOREM {n} AXIOMS {axs.toList}\"",
        ]
        f = ad / f"Audit_{self.prop}.lean"
        f.write_text("\n".join(src) + "\n")
        cmd = ["lake", "env", "lean", str(f.relative_to(LEAN))]
        self.checker_cmds.append("cd lean && " + " ".join(cmd))
        rc, log = run_cmd(cmd, cwd=LEAN, timeout=1200)
        found = re.findall(r"THEOREM (\S+) AXIOMS \[(.*?)\]", log, re.S)
        if rc != 0 or not found:
            self.broken.append({"what": "axiom audit", "detail": log[-2000:]})
            return
        for name, axs in found:
            if not name.startswith("GeffProps."):
                continue
            axl = [a.strip() for a in axs.replace("\n", " ").split(",") if a.strip()]
            ok = set(axl) <= ALLOWED_AXIOMS
            self.obligations.append({"name": name, "axioms": axl, "ok": ok})
            if not ok:
                self.broken.append({"what": f"theorem {name}", "detail": f"axioms {axl}"})

    def _closure(self, roots):
        """local Lean files reachable from `roots` through `import` lines"""
        seen, todo = set(), list(roots)
        while todo:
            m = todo.pop()
            if m in seen:
                continue
            f = LEAN / (m.replace(".", "/") + ".lean")
            if not f.exists():
                continue
            seen.add(m)
            for im in re.findall(r"^import\s+(\S+)", f.read_text(), re.M):
                if im.split(".")[0] in ("GeffModel", "GeffProofs", "GeffProps", "Gen", "Drivers"):
                    todo.append(im)
        return sorted(seen)

    def _grep_forbidden(self, modules=None):
        hits = []
        mods = self._closure(list(modules or []) + [f"GeffProps.{self.prop}", f"Drivers.{self.prop}"])
        self.extra["lean_modules"] = mods
        for m in mods:
            f = LEAN / (m.replace(".", "/") + ".lean")
            txt = f.read_text()
            txt2 = re.sub(r"/-.*?-/", lambda mm: "\n" * mm.group(0).count("\n"), txt, flags=re.S)
            txt2 = re.sub(r"--.*", "", txt2)
            for mm in FORBIDDEN.finditer(txt2):
                hits.append(f"{f.relative_to(LEAN)}: {mm.group(0).strip()}")
        self.extra["forbidden_token_hits"] = hits
        if hits:
            self.broken.append({"what": "forbidden token", "detail": "; ".join(hits[:10])})

    # ---- step 4 helpers
    def driver(self, name: str | None = None) -> LeanDriver:
        name = name or self.prop
        priv = getattr(self, "_private_exe", None) if name == self.prop else None
        return LeanDriver(name, priv)

    def case(self, case, tag: str = "", nontrivial: bool = True):
        """Record one explored case (for the evidence)."""
        self.evaluations += 1
        self.histogram[tag] = self.histogram.get(tag, 0) + 1
        if nontrivial:
            h = hashlib.sha1(json.dumps(case, sort_keys=True, default=str).encode()).hexdigest()
            self.distinct.add(h)
        if len(self.samples) < 5 or (self.evaluations % 997 == 0 and len(self.samples) < 12):
            self.samples.append(case)

    def fail(self, key: str, what: str, case, observed=None, expected=None):
        """A concrete input on which the implementation falsifies the specification."""
        for k in self.known:
            if k["key"] == key:
                self.known_seen[key] = self.known_seen.get(key, 0) + 1
                return
        self.n_failures = getattr(self, "n_failures", 0) + 1
        if sum(1 for f in self.failures if f["key"] == key) < 3:   # keep a few examples per class
            self.failures.append({"key": key, "what": what, "case": case, "observed": observed, "expected": expected})

    def corr_broken(self, name: str, case, impl, model):
        """Model and implementation disagree (not by itself a violation)."""
        self.n_corr_broken = getattr(self, "n_corr_broken", 0) + 1
        if sum(1 for b in self.broken if b["what"] == f"corr {name}") >= 3:
            return
        self.broken.append({"what": f"corr {name}", "detail": {"case": case, "impl": impl, "model": model}})

    # ---- step 5
    def finish(self):
        wall = time.time() - self.t0
        lines, code = [], 0
        for k in self.known:
            if k["key"] in self.known_seen:
                lines.append(f"KNOWN-FINDING: property={self.prop} {k['key']}: {k['what']} (seen {self.known_seen[k['key']]}x)")
        rdir = VERIF / "replays"
        if self.failures:
            code = 1
            rdir.mkdir(exist_ok=True)
            seen = set()
            for f in self.failures:
                if f["key"] in seen:
                    continue
                seen.add(f["key"])
                h = hashlib.sha1(json.dumps(f, sort_keys=True, default=str).encode()).hexdigest()[:10]
                rp = rdir / f"{self.prop}-{h}.json"
                rp.write_text(json.dumps({"property": self.prop, "seed": self.seed, "tier": self.tier, **f,
                                          "broken": sorted({b["what"] for b in self.broken})[:20]}, indent=1, default=str))
                lines.append(f"VIOLATION property={self.prop} replay={rp}")
                print(f"  failing input [{f['key']}]: {f['what']}", flush=True)
        elif self.broken:
            code = 1
            rdir.mkdir(exist_ok=True)
            h = hashlib.sha1(json.dumps(self.broken, sort_keys=True, default=str).encode()).hexdigest()[:10]
            rp = rdir / f"{self.prop}-broken-{h}.json"
            rp.write_text(json.dumps({"property": self.prop, "seed": self.seed, "tier": self.tier,
                                      "no_longer_checks": self.broken}, indent=1, default=str))
            for b in self.broken[:5]:
                print(f"  no longer checks: {b['what']}", flush=True)
            lines.append(f"VIOLATION property={self.prop} replay={rp} no-failing-input-found")
        n_obl = len(self.obligations)
        n_ok = sum(1 for o in self.obligations if o["ok"])
        if any(b["what"].startswith(("lake build", "axiom audit", "translator", "leanchecker", "forbidden")) for b in self.broken):
            n_ok = 0 if n_obl == 0 else min(n_ok, n_obl - 1)
        ev = {
            "property_id": self.prop,
            "tier": self.tier,
            "seed": self.seed,
            "level": "proof",
            "coverage": {
                "obligations": max(n_obl, 1),
                "discharged": n_ok,
                "checker_cmd": " && ".join(self.checker_cmds) or "none",
                "trusted_base": TRUSTED_BASE,
                "theorems": self.obligations,
                "evaluations": self.evaluations,
                "distinct_nontrivial": len(self.distinct),
                "rule": self.rule,
                "samples": self.samples[:12],
                "histogram": self.histogram,
                "disagreements": getattr(self, "n_corr_broken", 0),
                "failing_inputs": getattr(self, "n_failures", 0),
                "known_findings_seen": self.known_seen,
                "repo": str(REPO),
                **self.extra,
            },
            "assumptions": self.assumptions,
            "wall_s": round(wall, 2),
            "violations": len({f["key"] for f in self.failures}) + (1 if (self.broken and not self.failures) else 0),
        }
        # keys the evidence schema types: an extra of the wrong type is kept under <key>_note
        typed = {"exhaustive": bool, "states": int, "transitions": int, "traces_validated_against_impl": int,
                 "programs": int, "disagreements_checked": int, "explanation": str}
        cov = ev["coverage"]
        for k, t in typed.items():
            if k in cov and (not isinstance(cov[k], t) or (t is int and isinstance(cov[k], bool))):
                cov[k + "_note"] = cov.pop(k)
        # evidence describes runs against /repo itself; runs against another tree ($GEFF_REPO:
        # seeded changes, builders' worktrees) are kept apart
        evdir = VERIF / ("evidence" if str(REPO) == "/repo" else ".scratch_evidence")
        evdir.mkdir(exist_ok=True)
        (evdir / f"{self.prop}.json").write_text(json.dumps(ev, indent=1, default=str))
        for ln in lines:
            print(ln, flush=True)
        print(f"{self.prop} {self.tier}: obligations {n_ok}/{n_obl}, cases {self.evaluations} "
              f"({len(self.distinct)} distinct non-trivial), failures {getattr(self, 'n_failures', 0)}, "
              f"broken {len(self.broken)}, {wall:.1f}s", flush=True)
        sys.exit(code)


def load_known():
    """known_findings.json (+ known_findings.d/*.json while properties are being built)."""
    out = []
    p = VERIF / "known_findings.json"
    if p.exists():
        out += json.loads(p.read_text())["findings"]
    for q in sorted((VERIF / "known_findings.d").glob("*.json")):
        out += json.loads(q.read_text())["findings"]
    seen, uniq = set(), []
    for f in out:
        k = (f["property"], f["kind"], f["key"])
        if k not in seen:
            seen.add(k)
            uniq.append(f)
    return uniq


def pmap(func, items, procs: int | None = None, chunksize: int = 16):
    """Parallel map over a forked pool (implementation side is CPU/zarr bound)."""
    import multiprocessing as mp

    items = list(items)
    procs = procs or min(16, os.cpu_count() or 4)
    if len(items) < 64 or procs <= 1:
        return [func(x) for x in items]
    ctx = mp.get_context("fork")
    with ctx.Pool(procs) as pool:
        return pool.map(func, items, chunksize=chunksize)
