"""T17: the pydantic validator BODIES of geff_spec -> lean/Gen/Validators.lean  (Python -> Lean `do`-notation).

Translated statement by statement from the AST of the working tree (parsed, never imported):

    _valid_values.py   validate_axis_type, validate_space_unit, validate_time_unit
    _axis.py           Axis._check_units, Axis._validate_model            (@model_validator(mode="after"))
    _prop_metadata.py  PropMetadata._convert_dtype                        (@field_validator("dtype", mode="before"))
    _schema.py         RelatedObject._validate_model                      (@model_validator(mode="after"))
                       _validate_key_identifier_equality                  (@validate_call)
                       GeffMetadata._validate_model_after                 (@model_validator(mode="after"))
                       GeffMetadata.__setattr__                           (the roll-back of a rejected assignment)

A validator is a function from the (partially constructed) object / the raw field value to an outcome in
`Geff.PyDoVal.VRes = Except PyExc` (the accepted value | ValueError | TypeError | AttributeError), over the
structures of `GeffModel/Meta.lean` and the primitives of `GeffModel/PyDoValidators.lean`;
`__setattr__` lives in the state-and-exception monad `SRes` over the one object `self`.  The engine is
T12's / T14's (`t14_pydo_meta_utils.MFn`, subclassed here, not edited).  What this plug-in adds:

* `self.x` reads over the model classes (typing table `FIELDS`, the declared annotations of the class
  bodies — cross-checked against T3's `Gen.Schema` by the `gen_*_fields` obligations of `GeffProps.C07`);
  `self.display_hints.display_time` on an optional nested model -> `deref` (AttributeError on None);
* truthiness of `str | None`, `list | None`, `Model | None` in conditions (`if self.unit:`);
* `x in VALID_…` / `x not in […]` against the tables T2 generates (`Gen.ValidValues`) — the name must be
  imported from `._valid_values` in the module at hand — or against a literal list of strings / a local list;
* `X is None` on a field whose declared type is not optional -> the constant `false`;
* ordering of `float | None` values -> `pyGt` … (TypeError on None), evaluated with Python's short circuit;
* list comprehensions `[e for v in xs]` with a non-raising element expression; `set(xs)` under `len`;
* `for k, v in d.items():`;
* `try: … except TypeError as err: raise ValueError(…) from err` / `except Exception: …; raise` ->
  Lean `try … catch err => …`; locals first assigned in the `try` body are pre-declared with the placeholder
  `default`, which is never observable because every handler is checked to end in a `raise`;
* `np.dtype(v)`, `np.issubdtype(d, np.str_ | np.bytes_)`, `d.name` over the numpy environment `NpEnv`;
* calls of other translated functions, also as methods (`self._check_units(…)`) and across the four
  modules (the callee must be imported from the module that defines it);
* `warnings.warn(…)` is dropped: a warning does not raise under the default filters and a validator's
  OUTCOME is what is modelled; f-string messages are dropped after checking that their parts cannot raise;
* decorators: exactly the expected pydantic decorator per function (anything else is refused); every
  method of the three model files carrying a pydantic validator decorator must be in the table, and the
  list of validators in source order is emitted as `validatorOrder` for a `decide`d obligation.

Anything outside the subset makes the translation of that function fail: the Gen file then carries a stub
with the same signature and `translationOk := false`, which `GeffProps.C07Gen.translated` requires to be
`true`.  A translation that succeeds but does not type-check, or that no longer equals the hand-written
model, breaks `lake build GeffProps.C07Gen`.

Consumer: C07 (`GeffProps/C07Gen.lean`)."""
from __future__ import annotations

import ast
from pathlib import Path

from harness.translate import HEADER, lean_str, write_if_changed
from harness.translators.t12_pydo_serialization import Unsupported, camel
from harness.translators.t14_pydo_meta_utils import MFn, _elt, _is_mod

NAME = "T17_pydo_validators"
PROPS = ["C07"]
PKG = "packages/geff-spec/src/geff_spec/"
VV, AXF, PMF, SCF = PKG + "_valid_values.py", PKG + "_axis.py", PKG + "_prop_metadata.py", PKG + "_schema.py"

AX, PM, RO, DH, META = "Axis", "PropMeta", "RelatedObject", "DisplayHint", "Meta"
OSTR, OF = "Option String", "Option F"
PDICT = "List (String × PropMeta)"
# python attribute -> Lean type (the Lean structures of GeffModel/Meta.lean use the Python field names)
FIELDS = {
    AX: {"name": "String", "type": OSTR, "unit": OSTR, "min": OF, "max": OF, "scale": OF, "scaled_unit": OSTR,
         "offset": OF},
    PM: {"identifier": "String", "dtype": "String", "varlength": "Bool", "unit": OSTR, "name": OSTR,
         "description": OSTR},
    RO: {"type": "String", "path": "String", "label_prop": OSTR},
    DH: {"display_horizontal": "String", "display_vertical": "String", "display_depth": OSTR, "display_time": OSTR},
    META: {"geff_version": "String", "directed": "Bool", "axes": "Option (List Axis)", "node_props_metadata": PDICT,
           "edge_props_metadata": PDICT, "sphere": OSTR, "ellipsoid": OSTR,
           "track_node_props": "Option (List (String × String))", "related_objects": "Option (List RelatedObject)",
           "display_hints": "Option DisplayHint"},
    "NpDtype": {"name": "String"},
}
TABLES = {"VALID_AXIS_TYPES": "Gen.ValidValues.axisTypes", "VALID_SPACE_UNITS": "Gen.ValidValues.spaceUnits",
          "VALID_TIME_UNITS": "Gen.ValidValues.timeUnits", "VALID_DTYPES": "Gen.ValidValues.dtypes"}
NP_KINDS = {"str_": "NpKind.str_", "bytes_": "NpKind.bytes_"}
# identifiers the generated code must not shadow with a local
RESERVED = {"npDtype", "deref", "iterOpt", "pyGt", "pyGe", "pyLt", "pyLe", "strIn", "optIn", "pySet", "np", "env",
            "truthyStr", "truthyList", "truthyObj", "npIssubdtype", "dictCopy", "fieldsSetCopy", "superSetattr"}

AFTER = "model_validator(mode='after')"
FUNCS = {
    "validate_axis_type": {"src": VV, "cls": None, "lean": "validateAxisType", "params": [("axis_type", OSTR)],
                           "ret": "Bool", "locals": {}, "deco": []},
    "validate_space_unit": {"src": VV, "cls": None, "lean": "validateSpaceUnit", "params": [("unit_name", OSTR)],
                            "ret": "Bool", "locals": {}, "deco": []},
    "validate_time_unit": {"src": VV, "cls": None, "lean": "validateTimeUnit", "params": [("unit_name", OSTR)],
                           "ret": "Bool", "locals": {}, "deco": []},
    "Axis._check_units": {"src": AXF, "cls": "Axis", "lean": "axisCheckUnits",
                          "params": [("self", AX), ("unit", OSTR), ("field", "String")], "ret": "Unit", "locals": {},
                          "deco": []},
    "Axis._validate_model": {"src": AXF, "cls": "Axis", "lean": "axisValidateModel", "params": [("self", AX)],
                             "ret": AX, "locals": {}, "deco": [AFTER]},
    "PropMetadata._convert_dtype": {"src": PMF, "cls": "PropMetadata", "lean": "propMetadataConvertDtype",
                                    "params": [("cls", None), ("value", OSTR)], "ret": "String", "np": True,
                                    "locals": {"np_dtype": "NpDtype", "name": "String"},
                                    "deco": ["field_validator('dtype', mode='before')", "classmethod"]},
    "RelatedObject._validate_model": {"src": SCF, "cls": "RelatedObject", "lean": "relatedObjectValidateModel",
                                      "params": [("self", RO)], "ret": RO, "locals": {}, "deco": [AFTER]},
    "_validate_key_identifier_equality": {"src": SCF, "cls": None, "lean": "validateKeyIdentifierEquality",
                                          "params": [("props_metadata", PDICT), ("c_type", "String")], "ret": "Unit",
                                          "locals": {"key": "String", "prop_md": PM}, "deco": ["validate_call"]},
    "GeffMetadata._validate_model_after": {"src": SCF, "cls": "GeffMetadata", "lean": "geffMetadataValidateModelAfter",
                                           "params": [("self", META)], "ret": META,
                                           "locals": {"names": "List String", "ax_names": "List String"},
                                           "deco": [AFTER]},
    "GeffMetadata.__setattr__": {"src": SCF, "cls": "GeffMetadata", "lean": "geffMetadataSetattr", "state": True,
                                 "params": [("self", None), ("name", "String"), ("value", "J")], "ret": "Unit",
                                 "locals": {"old_dict": "Meta", "old_fields_set": "List String"}, "deco": []},
}
ORDER = ["validate_axis_type", "validate_space_unit", "validate_time_unit", "Axis._check_units",
         "Axis._validate_model", "PropMetadata._convert_dtype", "RelatedObject._validate_model",
         "_validate_key_identifier_equality", "GeffMetadata._validate_model_after", "GeffMetadata.__setattr__"]
# the module each free function lives in (a caller elsewhere must import it from there)
HOME = {"validate_axis_type": "_valid_values", "validate_space_unit": "_valid_values",
        "validate_time_unit": "_valid_values", "_validate_key_identifier_equality": "_schema"}
PYD_DECOS = ("model_validator", "field_validator", "validator", "root_validator")


def lname(n: str) -> str:
    c = camel(n)
    return c + "_" if c in RESERVED else c


class Module:
    """one parsed source file: top-level functions, classes, and what it imports from where"""

    def __init__(self, repo: Path, rel: str):
        self.rel = rel
        self.stem = Path(rel).stem
        self.tree = ast.parse((repo / rel).read_text())
        self.funcs = {n.name: n for n in self.tree.body if isinstance(n, ast.FunctionDef)}
        self.classes = {n.name: n for n in self.tree.body if isinstance(n, ast.ClassDef)}
        self.imported: dict[str, str] = {}       # local name -> module it is imported from
        self.modules: dict[str, str] = {}        # alias -> module (import numpy as np)
        self.toplevel: set[str] = set()
        for n in self.tree.body:
            if isinstance(n, ast.ImportFrom):
                for a in n.names:
                    self.imported[a.asname or a.name] = ("." * n.level) + (n.module or "")
            elif isinstance(n, ast.Import):
                for a in n.names:
                    self.modules[a.asname or a.name] = a.name
            elif isinstance(n, (ast.Assign, ast.AnnAssign)):
                for t in (n.targets if isinstance(n, ast.Assign) else [n.target]):
                    if isinstance(t, ast.Name):
                        self.toplevel.add(t.id)

    def resolves_to(self, name: str, home: str) -> bool:
        """`name` used in this module denotes the top-level object `name` of geff_spec/<home>.py"""
        if self.stem == home:
            return (name in self.funcs or name in self.toplevel) and name not in self.imported
        return self.imported.get(name) == "." + home


class VFn(MFn):
    def __init__(self, key, spec, mod: Module):
        super().__init__({**spec, "params": [(p, t) for p, t in spec["params"] if t is not None]}, {}, {})
        self.key = key
        self.mod = mod
        self.cls = spec["cls"]
        self.state = bool(spec.get("state"))
        self.handler_err: list[str] = []          # names bound by enclosing `except … as err`
        self.fn_node = None

    # ------------------------------------------------------------ helpers
    def bind(self, binds, action, ty):
        t = self.fresh()
        binds.append(f"let {t} : {ty} ← {action}")
        return t, ty

    def as_bool(self, e, t):
        if t == "Bool":
            return e
        if t == "Prop":
            return f"decide ({e})"
        if t == OSTR:
            return f"truthyStr {e}"
        if t.startswith("Option (List "):
            return f"truthyList {e}"
        if t.startswith("Option ") and t[7:] in FIELDS:
            return f"truthyObj {e}"
        if t == "String":
            return f"({e} != \"\")"
        if t.startswith("List "):
            return f"!({e}).isEmpty"
        raise Unsupported(f"truth value of {t}")

    def bexpr(self, n, binds):
        """a condition as a Lean Bool, with Python's short circuit where a later operand can raise"""
        if isinstance(n, ast.BoolOp):
            is_or = isinstance(n.op, ast.Or)
            parts = []
            for v in n.values:
                b: list[str] = []
                parts.append((self.bexpr(v, b), b))
            if not any(b for _, b in parts[1:]):
                binds.extend(parts[0][1])
                return "(" + (" || " if is_or else " && ").join(e for e, _ in parts) + ")"

            def build(k):
                e, b = parts[k]
                if k == len(parts) - 1:
                    body = f"pure ({e})"
                else:
                    rest = build(k + 1)
                    body = f"if {e} then (pure true) else {rest}" if is_or else f"if {e} then {rest} else (pure false)"
                return "(do " + "; ".join(b + [body]) + ")" if b else f"({body})"
            t = f"c{self.fresh()}"
            binds.append(f"let {t} : Bool ← {build(0)}")
            return t
        if isinstance(n, ast.UnaryOp) and isinstance(n.op, ast.Not):
            return f"!({self.bexpr(n.operand, binds)})"
        e, t = self.expr(n, binds)
        return self.as_bool(e, t)

    def table(self, node):
        """the right operand of `in`: a T2 table, a literal list/tuple of strings, or a local list of strings"""
        if isinstance(node, ast.Name) and node.id in TABLES:
            if not self.mod.resolves_to(node.id, "_valid_values"):
                raise Unsupported(f"{node.id} is not the table of _valid_values.py here")
            return TABLES[node.id]
        if isinstance(node, (ast.List, ast.Tuple)) and node.elts and all(
                isinstance(x, ast.Constant) and isinstance(x.value, str) for x in node.elts):
            return "[" + ", ".join(lean_str(x.value) for x in node.elts) + "]"
        if isinstance(node, ast.Name) and self.env.get(node.id) == "List String":
            return lname(node.id)
        raise Unsupported(f"membership in {ast.unparse(node)}")

    def check_message(self, node):
        """an exception / warning message: constants and f-strings whose parts cannot raise"""
        for x in ast.walk(node):
            if isinstance(x, (ast.JoinedStr, ast.FormattedValue, ast.Constant, ast.Name, ast.Load, ast.Attribute)):
                continue
            if isinstance(x, ast.Call) and isinstance(x.func, ast.Attribute) and x.func.attr == "capitalize" \
                    and not x.args and not x.keywords:
                continue
            if isinstance(x, (ast.BinOp, ast.Add)):
                continue
            raise Unsupported(f"message part {type(x).__name__} in {ast.unparse(node)[:50]}")

    # ------------------------------------------------------------ expressions
    def expr(self, n, binds, want=None):
        if isinstance(n, ast.Name):
            if n.id not in self.env:
                raise Unsupported(f"unknown variable {n.id}")
            return lname(n.id), self.env[n.id]
        if isinstance(n, ast.Compare) and len(n.ops) == 1:
            op, l, r = n.ops[0], n.left, n.comparators[0]
            if isinstance(op, (ast.Is, ast.IsNot)) and isinstance(r, ast.Constant) and r.value is None:
                e, t = self.expr(l, binds)
                if t.startswith("Option "):
                    return (f"{e}.isNone" if isinstance(op, ast.Is) else f"{e}.isSome"), "Bool"
                # the declared type of the field is not optional: never None
                return ("false" if isinstance(op, ast.Is) else "true"), "Bool"
            if isinstance(op, (ast.In, ast.NotIn)):
                e, t = self.expr(l, binds)
                tab = self.table(r)
                if t == "String":
                    txt = f"strIn {e} {tab}"
                elif t == OSTR:
                    txt = f"optIn {e} {tab}"
                else:
                    raise Unsupported(f"`in` with a left operand of type {t}")
                return (txt if isinstance(op, ast.In) else f"!({txt})"), "Bool"
            prim = {ast.Gt: "pyGt", ast.GtE: "pyGe", ast.Lt: "pyLt", ast.LtE: "pyLe"}.get(type(op))
            if prim:
                a, ta = self.expr(l, binds)
                b, tb = self.expr(r, binds)
                if ta == tb == OF:
                    return self.bind(binds, f"{prim} {a} {b}", "Bool")
                if ta == tb == "Nat":
                    return f"decide ({a} {({'pyGt': '>', 'pyGe': '≥', 'pyLt': '<', 'pyLe': '≤'})[prim]} {b})", "Bool"
                raise Unsupported(f"ordering of {ta} and {tb}")
            if isinstance(op, (ast.Eq, ast.NotEq)):
                a, ta = self.expr(l, binds)
                b, tb = self.expr(r, binds)
                if tb == f"Option {ta}":
                    a, ta = f"some {a}", tb
                elif ta == f"Option {tb}":
                    b, tb = f"some {b}", ta
                if ta != tb or ta not in ("Bool", "Nat", "String", OSTR):
                    raise Unsupported(f"comparison of {ta} with {tb}")
                return f"({a} {'==' if isinstance(op, ast.Eq) else '!='} {b})", "Bool"
            raise Unsupported(f"comparison {ast.unparse(n)}")
        if isinstance(n, (ast.BoolOp, ast.UnaryOp)):
            return self.bexpr(n, binds), "Bool"
        if isinstance(n, ast.ListComp):
            if len(n.generators) != 1 or n.generators[0].ifs or n.generators[0].is_async \
                    or not isinstance(n.generators[0].target, ast.Name):
                raise Unsupported(f"comprehension {ast.unparse(n)}")
            g = n.generators[0]
            c, tc = self.expr(g.iter, binds)
            if tc.startswith("Option (List "):
                c, tc = self.bind(binds, f"iterOpt {c}", tc[len("Option ("):-1])
            if not tc.startswith("List "):
                raise Unsupported(f"comprehension over {tc}")
            v = g.target.id
            if v in self.env:
                raise Unsupported(f"comprehension variable {v} shadows a live variable")
            self.env[v] = _elt(tc)
            sub: list[str] = []
            e, te = self.expr(n.elt, sub)
            del self.env[v]
            if sub:
                raise Unsupported("raising operation inside a comprehension")
            return f"({c}.map (fun {lname(v)} => {e}))", f"List {te}" if " " not in te else f"List ({te})"
        if isinstance(n, ast.Attribute):
            if isinstance(n.value, ast.Name) and n.value.id not in self.env:
                raise Unsupported(f"attribute of unknown name {ast.unparse(n)}")
            e, t = self.expr(n.value, binds)
            if t in FIELDS and n.attr in FIELDS[t]:
                return f"{e}.{n.attr}", FIELDS[t][n.attr]
            if t.startswith("Option ") and t[7:] in FIELDS and n.attr in FIELDS[t[7:]]:
                o, _ = self.bind(binds, f"deref {e}", t[7:])
                return f"{o}.{n.attr}", FIELDS[t[7:]][n.attr]
            raise Unsupported(f"attribute .{n.attr} of {t}")
        if isinstance(n, ast.Call):
            return self.call(n, binds)
        if isinstance(n, ast.Constant) and n.value is None:
            return "()", "Unit"
        if isinstance(n, ast.Constant) and isinstance(n.value, (str, bool)):
            return super().expr(n, binds, want)
        raise Unsupported(f"expression {ast.unparse(n)[:60]}")

    def callee(self, f):
        """-> (key in FUNCS, leading Lean arguments) for a call of another translated function"""
        if isinstance(f, ast.Name) and f.id in HOME and f.id in FUNCS:
            if not self.mod.resolves_to(f.id, HOME[f.id]):
                raise Unsupported(f"{f.id} is not the function of {HOME[f.id]}.py here")
            return f.id, []
        if (isinstance(f, ast.Attribute) and isinstance(f.value, ast.Name) and f.value.id == "self"
                and self.cls and f"{self.cls}.{f.attr}" in FUNCS and "self" in self.env):
            return f"{self.cls}.{f.attr}", ["self"]
        return None, None

    def call(self, n, binds):
        f = n.func
        src = ast.unparse(n)
        key, lead = self.callee(f)
        if key is not None:
            spec = FUNCS[key]
            if n.keywords or spec.get("state") or spec.get("np"):
                raise Unsupported(f"call {src}")
            params = [(p, t) for p, t in spec["params"] if t is not None][len(lead):]
            if len(n.args) != len(params):
                raise Unsupported(f"call {src}: {len(n.args)} arguments")
            args = list(lead)
            for a, (p, pt) in zip(n.args, params):
                e, t = self.expr(a, binds)
                if t != pt:
                    if pt == f"Option {t}":
                        e = f"(some {e})"
                    else:
                        raise Unsupported(f"call {src}: argument {p} of type {t}, expected {pt}")
                args.append(e)
            return self.bind(binds, f"{spec['lean']} " + " ".join(args), spec["ret"])
        if isinstance(f, ast.Name) and f.id == "len" and len(n.args) == 1 and not n.keywords:
            e, t = self.expr(n.args[0], binds)
            if t.startswith("List "):
                return f"{e}.length", "Nat"
            raise Unsupported(f"len of {t}")
        if isinstance(f, ast.Name) and f.id == "set" and len(n.args) == 1 and not n.keywords:
            e, t = self.expr(n.args[0], binds)
            if t != "List String":
                raise Unsupported(f"set of {t}")
            return f"(pySet {e})", "List String"
        if self.mod.modules.get("np") == "numpy":
            if _is_mod(f, "np", "dtype") and len(n.args) == 1 and not n.keywords and self.spec.get("np"):
                e, t = self.expr(n.args[0], binds)
                if t != OSTR:
                    raise Unsupported(f"np.dtype of {t}")
                return self.bind(binds, f"npDtype np {e}", "NpDtype")
            if _is_mod(f, "np", "issubdtype") and len(n.args) == 2 and not n.keywords:
                e, t = self.expr(n.args[0], binds)
                k = n.args[1]
                if t != "NpDtype" or not (isinstance(k, ast.Attribute) and _is_mod(k, "np", k.attr) and k.attr in NP_KINDS):
                    raise Unsupported(f"issubdtype {src}")
                return f"npIssubdtype {e} {NP_KINDS[k.attr]}", "Bool"
        raise Unsupported(f"call {src}")

    # ------------------------------------------------------------ statements
    def assign(self, name, value, out, ind):
        want = self.locals.get(name)
        if name in dict(self.spec["params"]) or (name not in self.locals and name in self.env):
            raise Unsupported(f"assignment to {name}")
        binds: list[str] = []
        if self.state and isinstance(value, ast.Call) and not value.args and not value.keywords \
                and isinstance(value.func, ast.Attribute) and value.func.attr == "copy" \
                and isinstance(value.func.value, ast.Attribute) and isinstance(value.func.value.value, ast.Name) \
                and value.func.value.value.id == "self" \
                and value.func.value.attr in ("__dict__", "__pydantic_fields_set__"):
            prim, t = {"__dict__": ("dictCopy", "Meta"),
                       "__pydantic_fields_set__": ("fieldsSetCopy", "List String")}[value.func.value.attr]
            e, t = self.bind(binds, prim, t)
        else:
            e, t = self.expr(value, binds, want=want)
        if want is None:
            # a local that is not in the typing table (e.g. a renamed one) gets the type of the expression
            # first assigned to it, provided that type is fully known
            if "?" in t or t in ("", "Unit"):
                raise Unsupported(f"variable {name} is not in the typing table and its type cannot be inferred")
            want = self.locals[name] = t
        if t != want:
            raise Unsupported(f"variable {name}: expected {want}, got {t}")
        for b in binds:
            out.append(ind + b)
        first = name not in self.env
        self.env[name] = want
        out.append(ind + (f"let mut {lname(name)} : {want} := {e}" if first else f"{lname(name)} := {e}"))

    def names_in(self, node, v):
        return sum(1 for x in ast.walk(node) if isinstance(x, ast.Name) and x.id == v)

    def predeclare(self, s, out, ind):
        """variables first assigned inside the compound statement `s`"""
        arms = [s.body, s.orelse] if isinstance(s, ast.If) else [s.body]
        new = [v for v in self.assigned_names([st for a in arms for st in a]) if v not in self.env]
        for v in new:
            ty = self.locals.get(v)
            local_to = [a for a in arms if self.names_in(ast.Module(body=a, type_ignores=[]), v)]
            if isinstance(s, ast.If) and len(local_to) == 1 and self.definitely(local_to[0], v) \
                    and self.names_in(self.fn_node, v) == self.names_in(ast.Module(body=local_to[0], type_ignores=[]), v):
                continue          # lives and dies inside one arm: declared there (Lean scoping)
            if ty is None:
                raise Unsupported(f"variable {v} is not in the typing table")
            if isinstance(s, ast.If) and not (s.orelse and all(self.definitely(a, v) for a in arms)):
                raise Unsupported(f"variable {v} is first assigned on only some paths of a conditional")
            if isinstance(s, ast.Try) and not self.definitely(s.body, v):
                raise Unsupported(f"variable {v} is not assigned on every path of the try body")
            if ty not in ("Bool", "Nat", "String", "NpDtype") and not ty.startswith(("Option ", "List ")):
                raise Unsupported(f"no placeholder for a variable of type {ty}")
            self.env[v] = ty
            out.append(ind + f"let mut {lname(v)} : {ty} := default")

    def raise_(self, s, out, ind):
        if s.exc is None:
            if not self.handler_err:
                raise Unsupported("bare raise outside a handler")
            out.append(ind + f"throw {self.handler_err[-1]}")
            return
        if not (isinstance(s.exc, ast.Call) and isinstance(s.exc.func, ast.Name) and not s.exc.keywords):
            raise Unsupported(f"raise {ast.unparse(s.exc)}")
        prim = {"ValueError": "raiseValueError", "TypeError": "raiseTypeError"}.get(s.exc.func.id)
        if prim is None:
            raise Unsupported(f"raise {s.exc.func.id}")
        for a in s.exc.args:
            self.check_message(a)
        if s.cause is not None and not (isinstance(s.cause, ast.Name) and s.cause.id in self.handler_names):
            raise Unsupported(f"raise … from {ast.unparse(s.cause)}")
        out.append(ind + prim)

    handler_names: tuple = ()

    def try_(self, s, out, ind):
        if s.orelse or s.finalbody or len(s.handlers) != 1:
            raise Unsupported("try statement with else / finally / several handlers")
        h = s.handlers[0]
        if not isinstance(h.type, ast.Name) or h.type.id not in ("TypeError", "ValueError", "Exception"):
            raise Unsupported(f"except {ast.unparse(h.type) if h.type else ''}")
        if not h.body or not isinstance(h.body[-1], ast.Raise):
            raise Unsupported("an exception handler that does not end in a raise")
        self.predeclare(s, out, ind)
        out.append(ind + "try")
        self.scoped(s.body, out, ind + "  ")
        err = f"err{self.fresh()}"
        out.append(ind + f"catch {err} =>")
        self.handler_err.append(err)
        saved = self.handler_names
        self.handler_names = (*saved, h.name) if h.name else saved
        if h.type.id == "Exception":
            self.scoped(h.body, out, ind + "  ")
        else:
            exc = {"TypeError": "PyExc.typeError", "ValueError": "PyExc.valueError"}[h.type.id]
            out.append(ind + f"  if {err} == {exc} then")
            self.scoped(h.body, out, ind + "    ")
            out.append(ind + "  else")
            out.append(ind + f"    throw {err}")
        self.handler_names = saved
        self.handler_err.pop()

    def stmt(self, s, out, ind):
        if isinstance(s, ast.Expr) and isinstance(s.value, ast.Constant) and isinstance(s.value.value, str):
            return
        if isinstance(s, ast.Assign) and len(s.targets) == 1 and isinstance(s.targets[0], ast.Name):
            return self.assign(s.targets[0].id, s.value, out, ind)
        if isinstance(s, ast.Expr) and isinstance(s.value, ast.Call):
            c = s.value
            if _is_mod(c.func, "warnings", "warn") and self.mod.modules.get("warnings") == "warnings":
                for a in c.args:
                    self.check_message(a)
                return                                            # a warning does not raise
            if self.state:
                return self.state_call(c, out, ind)
            key, _ = self.callee(c.func)
            if key is not None:
                binds: list[str] = []
                self.expr(c, binds)
                for b in binds[:-1]:
                    out.append(ind + b)
                out.append(ind + binds[-1].split(" ← ", 1)[1])   # the call itself, as a statement
                return
        if isinstance(s, ast.Raise):
            return self.raise_(s, out, ind)
        if isinstance(s, ast.Pass):
            out.append(ind + "pure ()")
            return
        if isinstance(s, ast.Return):
            if s.value is None:
                raise Unsupported("bare return")
            binds = []
            e, t = self.expr(s.value, binds, want=self.spec["ret"])
            if t != self.spec["ret"]:
                raise Unsupported(f"return of {t}, expected {self.spec['ret']}")
            for b in binds:
                out.append(ind + b)
            out.append(ind + f"return {e}")
            return
        if isinstance(s, ast.If):
            self.predeclare(s, out, ind)
            binds = []
            c = self.bexpr(s.test, binds)
            for b in binds:
                out.append(ind + b)
            out.append(ind + f"if {c} then")
            self.scoped(s.body, out, ind + "  ")
            if s.orelse:
                out.append(ind + "else")
                self.scoped(s.orelse, out, ind + "  ")
            return
        if isinstance(s, ast.Try):
            return self.try_(s, out, ind)
        if isinstance(s, ast.For) and not s.orelse:
            binds = []
            it = s.iter
            tgt = s.target
            if (isinstance(tgt, ast.Tuple) and len(tgt.elts) == 2 and all(isinstance(x, ast.Name) for x in tgt.elts)
                    and isinstance(it, ast.Call) and isinstance(it.func, ast.Attribute) and it.func.attr == "items"
                    and not it.args and not it.keywords):
                e, t = self.expr(it.func.value, binds)
                if not t.startswith("List (String × "):
                    raise Unsupported(f".items() of {t}")
                kn, vn = tgt.elts[0].id, tgt.elts[1].id
                vt = t[len("List (String × "):-1]
                if self.locals.get(kn) != "String" or self.locals.get(vn) != vt or kn in self.env or vn in self.env:
                    raise Unsupported(f"loop variables {kn}, {vn}")
                for b in binds:
                    out.append(ind + b)
                item = f"item{self.fresh()}"
                out.append(ind + f"for {item} in {e} do")
                out.append(ind + f"  let {lname(kn)} : String := {item}.1")
                out.append(ind + f"  let {lname(vn)} : {vt} := {item}.2")
                self.env[kn], self.env[vn] = "String", vt
                self.loop_depth += 1
                self.scoped(s.body, out, ind + "  ")
                self.loop_depth -= 1
                del self.env[kn], self.env[vn]
                return
        raise Unsupported(f"statement {type(s).__name__}: {ast.unparse(s)[:60]}")

    def state_call(self, c, out, ind):
        """the three calls `GeffMetadata.__setattr__` makes on the object"""
        f = c.func
        if (isinstance(f, ast.Attribute) and f.attr == "__setattr__" and isinstance(f.value, ast.Call)
                and isinstance(f.value.func, ast.Name) and f.value.func.id == "super" and not f.value.args
                and [ast.unparse(a) for a in c.args] == ["name", "value"] and not c.keywords):
            out.append(ind + f"superSetattr {self.spec['after']} env name value")
            return
        if (isinstance(f, ast.Attribute) and f.attr == "__setattr__" and isinstance(f.value, ast.Name)
                and f.value.id == "object" and len(c.args) == 3 and not c.keywords
                and isinstance(c.args[0], ast.Name) and c.args[0].id == "self"
                and isinstance(c.args[1], ast.Constant) and isinstance(c.args[2], ast.Name)):
            prim, ty = {"__dict__": ("objectSetDict", "Meta"),
                        "__pydantic_fields_set__": ("objectSetFieldsSet", "List String")}.get(c.args[1].value, (None, None))
            if prim and self.env.get(c.args[2].id) == ty:
                out.append(ind + f"{prim} {lname(c.args[2].id)}")
                return
        raise Unsupported(f"call {ast.unparse(c)[:60]}")


def deco_text(d) -> str:
    return ast.unparse(d)


def find(mods, key):
    spec = FUNCS[key]
    mod = mods[spec["src"]]
    if spec["cls"] is None:
        fn = mod.funcs.get(key)
    else:
        cdef = mod.classes.get(spec["cls"])
        fn = None
        if cdef is not None:
            fn = next((n for n in cdef.body if isinstance(n, ast.FunctionDef) and n.name == key.split(".")[1]), None)
    if fn is None:
        raise Unsupported(f"function {key} not found in {spec['src']}")
    return mod, fn


def after_validators(mod: Module, cls: str):
    cdef = mod.classes.get(cls)
    res = []
    for n in (cdef.body if cdef else []):
        if isinstance(n, ast.FunctionDef) and any(deco_text(d) == AFTER for d in n.decorator_list):
            res.append(n.name)
    return res


def translate_function(key, mods) -> str:
    spec = dict(FUNCS[key])
    mod, fn = find(mods, key)
    a = fn.args
    if [x.arg for x in a.args] != [p for p, _ in spec["params"]] or a.vararg or a.kwarg or a.kwonlyargs \
            or a.posonlyargs or a.defaults:
        raise Unsupported(f"signature of {key} changed: {[x.arg for x in a.args]}")
    if [deco_text(d) for d in fn.decorator_list] != spec["deco"]:
        raise Unsupported(f"decorators of {key}: {[deco_text(d) for d in fn.decorator_list]}")
    if spec.get("state"):
        afters = after_validators(mod, spec["cls"])
        if afters != ["_validate_model_after"]:
            raise Unsupported(f"mode='after' validators of {spec['cls']}: {afters}")
        spec["after"] = FUNCS[f"{spec['cls']}._validate_model_after"]["lean"]
    tr = VFn(key, spec, mod)
    tr.spec["after"] = spec.get("after")
    tr.fn_node = fn
    body: list[str] = []
    if "validate_call" in spec["deco"]:
        # pydantic checks the Literal[...] parameters at entry (a ValidationError is a ValueError)
        for x in a.args:
            ann = x.annotation
            if isinstance(ann, ast.Subscript) and isinstance(ann.value, ast.Name) and ann.value.id == "Literal":
                elts = ann.slice.elts if isinstance(ann.slice, ast.Tuple) else [ann.slice]
                if not all(isinstance(e, ast.Constant) and isinstance(e.value, str) for e in elts) \
                        or dict(tr.spec["params"]).get(x.arg) != "String":
                    raise Unsupported(f"Literal annotation of {x.arg}")
                lst = "[" + ", ".join(lean_str(e.value) for e in elts) + "]"
                body.append(f"  if !(strIn {lname(x.arg)} {lst}) then")
                body.append("    raiseValueError")
    for s in fn.body:
        tr.stmt(s, body, "  ")
    if not isinstance(fn.body[-1], (ast.Return, ast.Raise)):
        if spec["ret"] != "Unit":
            raise Unsupported("the function does not end with a return")
        body.append("  return ()")
    params = " ".join(f"({lname(p)} : {t})" for p, t in tr.spec["params"])
    lead = ("(np : NpEnv) " if spec.get("np") else "") + ("(env : Env) " if spec.get("state") else "")
    monad = "SRes" if spec.get("state") else "VRes"
    return "\n".join([f"def {spec['lean']} {lead}{params} : {monad} {spec['ret']} := do", *body])


def stub(key) -> str:
    spec = FUNCS[key]
    params = " ".join(f"(_{lname(p)} : {t})" for p, t in spec["params"] if t is not None)
    lead = ("(_np : NpEnv) " if spec.get("np") else "") + ("(_env : Env) " if spec.get("state") else "")
    if spec.get("state"):
        return f"def {spec['lean']} {lead}{params} : SRes {spec['ret']} := fun s => (.error .attributeError, s)"
    return f"def {spec['lean']} {lead}{params} : VRes {spec['ret']} := .error .attributeError"


def validator_order(mods):
    """every pydantic validator the three model files declare, in pydantic's order for one
    `GeffMetadata(...)`: field validators of the nested models first (a nested value is validated
    completely before the enclosing model's own validators run), then `mode="after"` model validators
    innermost first; within one class in source order.  -> [(class, function, decorator)]"""
    found = []
    for rel in (PMF, AXF, SCF):
        for cname, cdef in mods[rel].classes.items():
            for n in cdef.body:
                if isinstance(n, ast.FunctionDef):
                    for d in n.decorator_list:
                        head = d.func if isinstance(d, ast.Call) else d
                        if isinstance(head, ast.Name) and head.id in PYD_DECOS:
                            found.append((cname, n.name, deco_text(d)))
    field = [x for x in found if x[2].startswith("field_validator")]
    model = [x for x in found if not x[2].startswith("field_validator")]
    rank = {"PropMetadata": 0, "Axis": 1, "RelatedObject": 2, "DisplayHint": 3, "GeffMetadata": 4}
    model.sort(key=lambda x: rank.get(x[0], 9))
    return field + model, found


def run(repo: Path, out: Path):
    errors = {}
    mods = {}
    for rel in (VV, AXF, PMF, SCF):
        try:
            mods[rel] = Module(repo, rel)
        except Exception as e:  # noqa: BLE001
            errors[f"parse {rel}"] = f"{type(e).__name__}: {e}"
    defs = []
    order: list = []
    if not errors:
        try:
            order, found = validator_order(mods)
            for cname, fname, _ in found:
                if f"{cname}.{fname}" not in FUNCS:
                    errors[f"{cname}.{fname}"] = "a pydantic validator that is not in the translation table"
        except Exception as e:  # noqa: BLE001
            errors["validators"] = f"{type(e).__name__}: {e}"
    for key in ORDER:
        try:
            if errors.keys() & {f"parse {FUNCS[key]['src']}"}:
                raise Unsupported("source file does not parse")
            text = translate_function(key, mods)
            _, fn = find(mods, key)
            defs.append(f"/-- `{key}` ({FUNCS[key]['src']}:{fn.lineno}) -/\n" + text)
        except Unsupported as e:
            errors[key] = str(e)
            defs.append(f"/-- `{key}`: NOT TRANSLATED ({e}) -/\n" + stub(key))
        except Exception as e:  # noqa: BLE001
            errors[key] = f"{type(e).__name__}: {e}"
            defs.append(f"/-- `{key}`: NOT TRANSLATED -/\n" + stub(key))
    ok = not errors
    body = "import GeffModel.PyDoValidators\n" + HEADER
    body += "/-! The validator bodies of `geff_spec`, statement by statement (translator T17). -/\n"
    body += "set_option linter.unusedVariables false\nnamespace Gen.Validators\nopen Geff.Meta Geff.PyDoVal\n\n"
    body += f"def translationOk : Bool := {'true' if ok else 'false'}\n\n"
    body += "/-- the pydantic validators the model classes declare, in the order pydantic runs them for one\n"
    body += "`GeffMetadata(…)`: (class, function, decorator) -/\n"
    body += "def validatorOrder : List (String × String × String) :=\n  [" + ",\n   ".join(
        f"({lean_str(c)}, {lean_str(f)}, {lean_str(d)})" for c, f, d in order) + "]\n\n"
    body += "\n\n".join(defs) + "\n\nend Gen.Validators\n"
    write_if_changed(out / "Validators.lean", body)
    return {"ok": ok, **({"error": "; ".join(f"{k}: {v}" for k, v in errors.items())} if errors else {})}
