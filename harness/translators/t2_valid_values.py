"""T2: geff_spec/_valid_values.py -> lean/Gen/ValidValues.lean.

The four `Literal[...]` aliases (SpaceUnits, TimeUnits, AxisType, DTypes) become `List String`
constants; the translator also checks that the run-time tuples the validators actually use
(`VALID_SPACE_UNITS`, ... `VALID_DTYPES`) are still `get_args(<alias>)`, and that the three
`validate_*` helpers are still plain membership tests in those tuples.  The file is parsed with
`ast`, never imported.  Consumers: C07 (allowed dtype names, axis types), C08 (the enums of the
hand-written schema specification are these lists)."""
from __future__ import annotations

import ast
from pathlib import Path

from harness.translate import HEADER, lean_str, write_if_changed

NAME = "T2_valid_values"
PROPS = ["C07", "C08", "C10"]  # C10: GeffModel/MetaWrite.lean imports Gen.ValidValues

ALIASES = {"SpaceUnits": "spaceUnits", "TimeUnits": "timeUnits", "AxisType": "axisTypes", "DTypes": "dtypes"}
TUPLES = {"VALID_SPACE_UNITS": "SpaceUnits", "VALID_TIME_UNITS": "TimeUnits",
          "VALID_AXIS_TYPES": "AxisType", "VALID_DTYPES": "DTypes"}
MEMBERSHIP = {"validate_axis_type": "VALID_AXIS_TYPES", "validate_space_unit": "VALID_SPACE_UNITS",
              "validate_time_unit": "VALID_TIME_UNITS"}


def _literal_strings(node: ast.AST) -> list[str]:
    if not (isinstance(node, ast.Subscript) and isinstance(node.value, ast.Name) and node.value.id == "Literal"):
        raise ValueError("alias is not a Literal[...]")
    elts = node.slice.elts if isinstance(node.slice, ast.Tuple) else [node.slice]
    out = []
    for e in elts:
        if not (isinstance(e, ast.Constant) and isinstance(e.value, str)):
            raise ValueError("Literal member is not a string constant")
        out.append(e.value)
    return out


def extract(repo: Path) -> dict[str, list[str]]:
    tree = ast.parse((repo / "packages/geff-spec/src/geff_spec/_valid_values.py").read_text())
    vals: dict[str, list[str]] = {}
    tuples: dict[str, str] = {}
    members: dict[str, str] = {}
    for node in tree.body:
        if isinstance(node, ast.AnnAssign) and isinstance(node.target, ast.Name) and node.value is not None:
            t = node.target.id
            if t in ALIASES:
                vals[t] = _literal_strings(node.value)
            elif t in TUPLES:
                v = node.value
                if (isinstance(v, ast.Call) and isinstance(v.func, ast.Name) and v.func.id == "get_args"
                        and len(v.args) == 1 and isinstance(v.args[0], ast.Name)):
                    tuples[t] = v.args[0].id
                else:
                    raise ValueError(f"{t} is not get_args(<alias>)")
        elif isinstance(node, ast.FunctionDef) and node.name in MEMBERSHIP:
            body = [s for s in node.body if not (isinstance(s, ast.Expr) and isinstance(s.value, ast.Constant))]
            ok = False
            if len(body) == 1 and isinstance(body[0], ast.Return) and isinstance(body[0].value, ast.Compare):
                c = body[0].value
                if (len(c.ops) == 1 and isinstance(c.ops[0], ast.In) and isinstance(c.left, ast.Name)
                        and c.left.id == node.args.args[0].arg and isinstance(c.comparators[0], ast.Name)):
                    members[node.name] = c.comparators[0].id
                    ok = True
            if not ok:
                raise ValueError(f"{node.name} is not `return <arg> in <TUPLE>`")
    for a in ALIASES:
        if a not in vals:
            raise ValueError(f"alias {a} not found")
    for t, a in TUPLES.items():
        if tuples.get(t) != a:
            raise ValueError(f"{t} is bound to {tuples.get(t)}, expected get_args({a})")
    for f, t in MEMBERSHIP.items():
        if members.get(f) != t:
            raise ValueError(f"{f} tests membership in {members.get(f)}, expected {t}")
    return vals


def run(repo: Path, out: Path) -> dict:
    err = None
    vals: dict[str, list[str]] = {}
    try:
        vals = extract(repo)
    except Exception as e:  # noqa: BLE001
        err = f"{type(e).__name__}: {e}"
    body = HEADER + "namespace Gen.ValidValues\n"
    body += f"def translationOk : Bool := {'true' if err is None else 'false'}\n"
    for a, lean_name in ALIASES.items():
        xs = vals.get(a, [])
        body += f"def {lean_name} : List String :=\n  [" + ", ".join(lean_str(x) for x in xs) + "]\n"
    body += "end Gen.ValidValues\n"
    write_if_changed(out / "ValidValues.lean", body)
    return {"ok": err is None, **({"error": err} if err else {}), "counts": {k: len(v) for k, v in vals.items()}}
