"""T10: the command line layer geff/_cli.py -> lean/Gen/CliForwarding.lean.

For every `@app.command()` function the translator records, with `ast` (nothing is imported):

* its parameters: name, kind (`argument` | `option`, from the `typer.Argument` / `typer.Option` call in
  the annotation or the default) and default (`none` | `false` | `true` | `int n` | `required`);
* every call it makes to a library function, NORMALISED AGAINST THE CALLEE'S SIGNATURE (parsed from
  the callee's source file): a list of pairs (callee parameter, command parameter it receives), so a
  positional call and a keyword call give the same table and a swapped positional order shows up as a
  different pairing; an argument that is not a plain command parameter (possibly inside `cast(…)`)
  makes the translation fail;
* the callee's whole signature (every parameter with its own default).

`GeffProofs/CliForwarding.lean` states by `decide` that the regenerated table is the expected one:
every command forwards every one of its parameters to the callee parameter of the same meaning, the
option defaults agree with the library defaults, and `convert-to-csv` never passes `overwrite` (an
existing CSV is only replaced on request, and the command line has no way to request it).
Consumers: C15 (convert-ctc), C16 (convert-trackmate-xml), C17 (convert-to-csv), C04/C18 (validate,
info)."""
from __future__ import annotations

import ast
from pathlib import Path

from harness.translate import HEADER, lean_str, write_if_changed

NAME = "T10_cli_forwarding"
PROPS = ["C04", "C15", "C16", "C17", "C18"]

CLI = "packages/geff/src/geff/_cli.py"
# callee name as used in _cli.py -> (source file, qualified function name)
CALLEES = {
    "validate_structure": ("packages/geff/src/geff/validate/structure.py", "validate_structure"),
    "from_ctc_to_geff": ("packages/geff/src/geff/convert/_ctc.py", "from_ctc_to_geff"),
    "ctc_tiffs_to_zarr": ("packages/geff/src/geff/convert/_ctc.py", "ctc_tiffs_to_zarr"),
    "from_trackmate_xml_to_geff": ("packages/geff/src/geff/convert/_trackmate_xml.py", "from_trackmate_xml_to_geff"),
    "geff_to_csv": ("packages/geff/src/geff/convert/_dataframe.py", "geff_to_csv"),
    "GeffMetadata.read": ("packages/geff-spec/src/geff_spec/_schema.py", "read"),
}


class Unsupported(ValueError):
    pass


def _default(node):
    if node is None:
        return "required"
    if isinstance(node, ast.Constant):
        v = node.value
        if v is None:
            return "none"
        if v is True:
            return "true"
        if v is False:
            return "false"
        if isinstance(v, int):
            return f"int {v}"
        if v is Ellipsis:
            return "required"
        raise Unsupported(f"default {v!r}")
    raise Unsupported(f"default expression {ast.unparse(node)}")


def _typer_kind(node):
    """find typer.Argument / typer.Option inside an annotation or default expression"""
    for n in ast.walk(node):
        if isinstance(n, ast.Call) and isinstance(n.func, ast.Attribute) and isinstance(n.func.value, ast.Name) \
                and n.func.value.id == "typer" and n.func.attr in ("Argument", "Option"):
            first = n.args[0] if n.args else None
            return n.func.attr.lower(), first
    return None, None


def _params(fn: ast.FunctionDef):
    a = fn.args
    if a.vararg or a.kwarg or a.posonlyargs or a.kwonlyargs:
        raise Unsupported(f"{fn.name}: unsupported parameter kinds")
    defaults = [None] * (len(a.args) - len(a.defaults)) + list(a.defaults)
    out = []
    for arg, d in zip(a.args, defaults):
        kind, first = (None, None)
        if arg.annotation is not None:
            kind, first = _typer_kind(arg.annotation)
        if kind is None and d is not None:
            kind, first = _typer_kind(d)
            if kind is not None:      # `x: T = typer.Argument(default, …)` style
                d = first
        if kind is None:
            raise Unsupported(f"{fn.name}.{arg.arg}: neither typer.Argument nor typer.Option")
        out.append((arg.arg, kind, _default(d)))
    return out


def _callee_sig(repo: Path, key: str):
    path, name = CALLEES[key]
    tree = ast.parse((repo / path).read_text())
    for n in ast.walk(tree):
        if isinstance(n, ast.FunctionDef) and n.name == name:
            a = n.args
            names = [x.arg for x in a.args if x.arg not in ("self", "cls")]
            defaults = [None] * (len(a.args) - len(a.defaults)) + list(a.defaults)
            defs = {x.arg: _default(d) if d is not None else "required" for x, d in zip(a.args, defaults)}
            return names, defs
    raise Unsupported(f"callee {key} not found in {path}")


def _callee_name(func):
    if isinstance(func, ast.Name):
        return func.id
    if isinstance(func, ast.Attribute) and isinstance(func.value, ast.Name):
        return f"{func.value.id}.{func.attr}"
    return None


def _source_param(node, params):
    """the command parameter an argument expression denotes: a Name, possibly inside cast(_, Name)"""
    if isinstance(node, ast.Call) and isinstance(node.func, ast.Name) and node.func.id == "cast" and len(node.args) == 2:
        node = node.args[1]
    if isinstance(node, ast.Name) and node.id in params:
        return node.id
    raise Unsupported(f"argument is not a plain command parameter: {ast.unparse(node)}")


def run(repo: Path, out: Path):
    err = None
    cmds = []
    try:
        tree = ast.parse((repo / CLI).read_text())
        for fn in tree.body:
            if not isinstance(fn, ast.FunctionDef):
                continue
            if not any(isinstance(d, ast.Call) and isinstance(d.func, ast.Attribute) and d.func.attr == "command"
                       for d in fn.decorator_list):
                continue
            params = _params(fn)
            pnames = [p[0] for p in params]
            calls = []
            for n in ast.walk(fn):
                if isinstance(n, ast.Call):
                    cn = _callee_name(n.func)
                    if cn in CALLEES:
                        names, defs = _callee_sig(repo, cn)
                        pairs = []
                        if len(n.args) > len(names):
                            raise Unsupported(f"{fn.name}: too many positional arguments for {cn}")
                        for i, a in enumerate(n.args):
                            if isinstance(a, ast.Starred):
                                raise Unsupported("starred argument")
                            pairs.append((names[i], _source_param(a, pnames)))
                        for kw in n.keywords:
                            if kw.arg is None:
                                raise Unsupported("**kwargs")
                            if kw.arg not in names:
                                raise Unsupported(f"{cn} has no parameter {kw.arg}")
                            pairs.append((kw.arg, _source_param(kw.value, pnames)))
                        cdefs = [(cp, defs[cp]) for cp in names]   # the callee's whole signature
                        calls.append((cn, pairs, cdefs))
            cmds.append((fn.name, params, calls))
        if not cmds:
            raise Unsupported("no @app.command() function found")
    except Exception as e:  # noqa: BLE001
        err = f"{type(e).__name__}: {e}"
        cmds = []

    def dflt(d):
        if d.startswith("int "):
            return f"(.int {d[4:]})"
        return f".{d if d != 'none' else 'none'}"

    body = HEADER + "namespace Gen.CliForwarding\n"
    body += "inductive Dflt where | required | none | false | true | int (n : Int)\n  deriving DecidableEq, Repr\n"
    body += "inductive Kind where | argument | option\n  deriving DecidableEq, Repr\n"
    body += "structure Param where\n  name : String\n  kind : Kind\n  dflt : Dflt\n  deriving DecidableEq, Repr\n"
    body += ("structure Call where\n  callee : String\n  /-- (callee parameter, command parameter) -/\n"
             "  pairs : List (String × String)\n  /-- the callee's signature: every parameter with its own default -/\n"
             "  calleeSig : List (String × Dflt)\n  deriving DecidableEq, Repr\n")
    body += "structure Command where\n  name : String\n  params : List Param\n  calls : List Call\n  deriving DecidableEq, Repr\n"
    body += f"def translationOk : Bool := {'true' if err is None else 'false'}\n"
    body += "def commands : List Command := [\n"
    items = []
    for name, params, calls in cmds:
        ps = ", ".join(f"⟨{lean_str(n)}, .{k}, {dflt(d)}⟩" for n, k, d in params)
        cs = ", ".join(
            "⟨" + lean_str(cn) + ", [" + ", ".join(f"({lean_str(a)}, {lean_str(b)})" for a, b in pairs) + "], ["
            + ", ".join(f"({lean_str(a)}, {dflt(d)})" for a, d in cdefs) + "]⟩" for cn, pairs, cdefs in calls)
        items.append(f"  ⟨{lean_str(name)}, [{ps}], [{cs}]⟩")
    body += ",\n".join(items) + "]\n"
    body += "end Gen.CliForwarding\n"
    write_if_changed(out / "CliForwarding.lean", body)
    return {"ok": err is None, **({"error": err} if err else {}), "commands": [c[0] for c in cmds]}
