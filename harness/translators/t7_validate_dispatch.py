"""T7: geff/validate/data.py -> lean/Gen/ValidateDispatch.lean.

Extracted with `ast` (the file is parsed, never imported):

* `ValidationConfig`: field names with their (bool) defaults, in source order;
* `validate_data`: every call of a `validate_*` function with the conjunction of `if` tests that
  dominates it (in source order), the number of positional arguments of each call, the statements
  that are under no guard at all, and two facts about the data handed to the validators:
  whether the edge rows are put in canonical order when `meta.directed` is false before the
  repeated-edge check (`canonicalisesUndirected`), and whether the tracklet / lineage ids come
  from the helper that drops nodes flagged missing (`idsThroughNodesWithId`).

Supported guard atoms: `config.<flag>`, `meta.<field> is not None`, `"<key>" in meta.track_node_props`,
conjunctions of those.  `if not valid: raise ValueError(...)` directly after a validator call is the
call's own error branch.  `if not meta.directed: edge_ids = np.sort(edge_ids, axis=1)` is recognised
as the canonicalisation.  Anything else (an `else`, another test, a loop, a `try`) makes the
translation fail: the Gen file then carries `translationOk := false` and GeffProps.C12 no longer
builds.  Works on the unrepaired tree too (the two facts are then simply `false`).
Consumer: C12 (`C12_dispatch_table_current`, `C12_source_passes_directedness_and_masks`)."""
from __future__ import annotations

import ast
from pathlib import Path

from harness.translate import HEADER, lean_str, write_if_changed

NAME = "T7_validate_dispatch"
PROPS = ["C12"]

SRC = "packages/geff/src/geff/validate/data.py"


class Unsupported(ValueError):
    pass


def _atoms(test: ast.AST) -> list[tuple[str, str]]:
    """guard expression -> list of (kind, name)"""
    if isinstance(test, ast.BoolOp) and isinstance(test.op, ast.And):
        out = []
        for v in test.values:
            out += _atoms(v)
        return out
    if isinstance(test, ast.Attribute) and isinstance(test.value, ast.Name) and test.value.id == "config":
        return [("cfg", test.attr)]
    if (isinstance(test, ast.Compare) and len(test.ops) == 1 and isinstance(test.ops[0], ast.IsNot)
            and isinstance(test.comparators[0], ast.Constant) and test.comparators[0].value is None
            and isinstance(test.left, ast.Attribute) and isinstance(test.left.value, ast.Name)
            and test.left.value.id == "meta"):
        return [("metaSet", test.left.attr)]
    if (isinstance(test, ast.Compare) and len(test.ops) == 1 and isinstance(test.ops[0], ast.In)
            and isinstance(test.left, ast.Constant) and isinstance(test.left.value, str)
            and isinstance(test.comparators[0], ast.Attribute) and isinstance(test.comparators[0].value, ast.Name)
            and test.comparators[0].value.id == "meta" and test.comparators[0].attr == "track_node_props"):
        return [("trackHas", test.left.value)]
    raise Unsupported(f"unsupported guard: {ast.unparse(test)}")


def _is_not_valid_raise(node: ast.If) -> bool:
    t = node.test
    return (isinstance(t, ast.UnaryOp) and isinstance(t.op, ast.Not) and isinstance(t.operand, ast.Name)
            and t.operand.id == "valid" and len(node.body) == 1 and isinstance(node.body[0], ast.Raise)
            and not node.orelse)


def _is_canonicalisation(node: ast.If) -> bool:
    t = node.test
    if not (isinstance(t, ast.UnaryOp) and isinstance(t.op, ast.Not) and isinstance(t.operand, ast.Attribute)
            and isinstance(t.operand.value, ast.Name) and t.operand.value.id == "meta" and t.operand.attr == "directed"):
        return False
    if node.orelse or len(node.body) != 1:
        return False
    return ast.unparse(node.body[0]).replace(" ", "") == "edge_ids=np.sort(edge_ids,axis=1)"


def _validator_calls(stmt: ast.stmt):
    for n in ast.walk(stmt):
        if isinstance(n, ast.Call) and isinstance(n.func, ast.Name) and n.func.id.startswith("validate_"):
            yield n


def extract(repo: Path) -> dict:
    tree = ast.parse((repo / SRC).read_text())
    fields: list[tuple[str, bool]] = []
    calls: list[tuple[str, list[tuple[str, str]], int]] = []
    unguarded: list[str] = []
    facts = {"canonicalisesUndirected": False, "idsThroughNodesWithId": False}
    fn = None
    helper_ok = False
    for node in tree.body:
        if isinstance(node, ast.ClassDef) and node.name == "ValidationConfig":
            for s in node.body:
                if isinstance(s, ast.Expr) and isinstance(s.value, ast.Constant):
                    continue
                if not (isinstance(s, ast.AnnAssign) and isinstance(s.target, ast.Name)
                        and isinstance(s.annotation, ast.Name) and s.annotation.id == "bool"
                        and isinstance(s.value, ast.Constant) and isinstance(s.value.value, bool)):
                    raise Unsupported(f"ValidationConfig member not `name: bool = <const>`: {ast.unparse(s)}")
                fields.append((s.target.id, s.value.value))
        elif isinstance(node, ast.FunctionDef) and node.name == "validate_data":
            fn = node
        elif isinstance(node, ast.FunctionDef) and node.name == "_nodes_with_id":
            # the helper must select by the complement of the missing mask
            src = ast.unparse(node).replace(" ", "")
            helper_ok = ("~np.asarray(missing,dtype=bool)" in src and "node_ids[present]" in src
                         and "values[present]" in src)
    if fn is None or not fields:
        raise Unsupported("ValidationConfig / validate_data not found")

    def walk(stmts, guards, after_canon):
        last_call = None
        for s in stmts:
            if isinstance(s, ast.Expr) and isinstance(s.value, ast.Constant):
                continue  # docstring
            if isinstance(s, ast.If):
                if _is_not_valid_raise(s):
                    if last_call is None:
                        raise Unsupported("`if not valid: raise` without a preceding validator call")
                    continue
                if _is_canonicalisation(s):
                    after_canon[0] = True
                    continue
                if s.orelse:
                    raise Unsupported("else branch in validate_data")
                walk(s.body, guards + _atoms(s.test), after_canon)
                continue
            if isinstance(s, (ast.Assign, ast.Expr)):
                found = list(_validator_calls(s))
                if len(found) > 1:
                    raise Unsupported("several validator calls in one statement")
                if found:
                    c = found[0]
                    if c.keywords:
                        raise Unsupported("keyword arguments in a validator call")
                    calls.append((c.func.id, list(guards), len(c.args)))
                    last_call = c.func.id
                    if c.func.id == "validate_no_repeated_edges" and after_canon[0]:
                        facts["canonicalisesUndirected"] = True
                elif not guards:
                    unguarded.append(ast.unparse(s))
                continue
            raise Unsupported(f"unsupported statement: {type(s).__name__}")

    walk(fn.body, [], [False])
    # tracklet / lineage ids: `node_ids, <x>_ids = _nodes_with_id(memory_geff, <key>)` in both branches
    src = ast.unparse(fn).replace(" ", "")
    facts["idsThroughNodesWithId"] = (helper_ok and "node_ids,tracklet_ids=_nodes_with_id(memory_geff,tracklet_key)" in src
                                      and "node_ids,lineage_ids=_nodes_with_id(memory_geff,lineage_key)" in src)
    return {"fields": fields, "calls": calls, "unguarded": unguarded, "facts": facts}


def _lean_atom(a):
    kind, name = a
    return {"cfg": f".cfg {lean_str(name)}", "metaSet": f".metaSet {lean_str(name)}",
            "trackHas": f".trackHas {lean_str(name)}"}[kind]


def run(repo: Path, out: Path):
    err = None
    data = {"fields": [], "calls": [], "unguarded": [], "facts": {"canonicalisesUndirected": False, "idsThroughNodesWithId": False}}
    try:
        data = extract(repo)
    except Exception as e:  # noqa: BLE001
        err = f"{type(e).__name__}: {e}"
    b = HEADER + "namespace Gen.ValidateDispatch\n"
    b += f"def translationOk : Bool := {'true' if err is None else 'false'}\n"
    b += "/-- guard atoms of `validate_data`: `config.<flag>`, `meta.<field> is not None`, `\"<key>\" in meta.track_node_props` -/\n"
    b += "inductive Atom where\n  | cfg (flag : String)\n  | metaSet (field : String)\n  | trackHas (key : String)\nderiving DecidableEq, Repr\n"
    b += "/-- fields of `ValidationConfig` with their defaults, in source order -/\n"
    b += "def configFields : List (String × Bool) := [" + ", ".join(
        f"({lean_str(n)}, {'true' if d else 'false'})" for n, d in data["fields"]) + "]\n"
    b += "/-- every validator call of `validate_data` with the guards that dominate it, in source order -/\n"
    b += "def calls : List (String × List Atom) := [\n" + ",\n".join(
        f"  ({lean_str(n)}, [" + ", ".join(_lean_atom(a) for a in g) + "])" for n, g, k in data["calls"]) + "]\n"
    b += "/-- number of positional arguments of each call (the shape validators take the missing mask last) -/\n"
    b += "def callArgs : List (String × Nat) := [" + ", ".join(
        f"({lean_str(n)}, {k})" for n, g, k in data["calls"]) + "]\n"
    b += "/-- statements of `validate_data` under no guard -/\n"
    b += "def unguarded : List String := [" + ", ".join(lean_str(s) for s in data["unguarded"]) + "]\n"
    for k, v in data["facts"].items():
        b += f"def {k} : Bool := {'true' if v else 'false'}\n"
    b += "end Gen.ValidateDispatch\n"
    write_if_changed(out / "ValidateDispatch.lean", b)
    return {"ok": err is None, **({"error": err} if err else {}),
            "fields": data["fields"], "calls": [[n, [list(a) for a in g], k] for n, g, k in data["calls"]],
            "unguarded": data["unguarded"], "facts": data["facts"]}
