"""T13: geff/validate/segmentation.py -> lean/Gen/Segmentation.lean  (Python -> Lean `do`-notation).

The five checks

    has_valid_seg_id, axes_match_seg_dims, graph_is_in_seg_bounds,
    has_seg_ids_at_time_points, has_seg_ids_at_coords

are translated *statement by statement* from the AST of the working tree (parsed, never imported)
into Lean `do`-blocks in the `Geff.Seg.Outcome` monad, with the engine of T12 extended by what this
file needs: `x = e` / `x: T = e` -> `let mut x : T := e` / `x := e`; early `return b, errors`
anywhere -> `return ⟨b, errors⟩`; `errors.append(<str or f-string>)` -> the structured message that
the table `MSGS` gives for the *exact* template text (every interpolated expression is still
translated, so that one that can raise does raise); `l.append(e)`, `dd[k].append(v)`, `d[k] = v`;
`if/elif/else` whose condition is evaluated with Python's short circuit (`and`, `or`, `not`, chained
comparisons: Boolean accumulators `cN` as soon as a later operand can raise); `if x is not None:` ->
`match x with | some xV => … | none => …`; `if p is None: p = d` on a parameter -> `p.getD d`;
`for v in xs`, `for i, v in enumerate(xs)`, `for a, b in zip(xs, ys, strict=False)`; the
comprehension forms `[e for a, b in zip(A, B, strict=True)]`, `all(c for a, b in zip(A, B,
strict=True))`, `v[tuple(e for c in xs)]` and `x = [e for v in xs if c]` (desugared to a loop).
Expressions are translated by a small *typed* table of the Python / numpy primitives of this file
(`GeffModel/PyDoSeg.lean` defines each of them, with Python's exceptions as outcomes); an operation
that can raise is bound with `let tN ← …` at the place where Python evaluates it.  Parameter types
and local variable types come from the fixed table `FUNCS` (a local that is not in the table, or
whose right-hand side has another type, is refused).  A variable first assigned inside a branch or a
loop body is local to that block.  Internal type names that are emitted as another Lean type:
`KeyDict` (a plain dict of which only the keys are observed), `DefaultDict` (`defaultdict(list)`),
`IntSet` (`set` of ints) — see `ALIAS`; `Dict PropInfo` is the type of `memory_geff["node_props"]`.

Spellings that are normalised before translation, so that they give the same generated code:
`x += [e]` and `x = x + [e]` for `x.append(e)`; `if x is None: B else: A` for `if x is not None: A
else: B`.  A local that the typing table does not know (e.g. after a renaming) gets the type of its
first right-hand side when that type is fully determined.  `if x:` on an optional float is
`match x with | some xV => if dyTruthy xV then A else B | none => B` (None and 0.0 are falsy).

Anything outside the subset — another statement kind, an unknown call / attribute / message, an
unknown variable, a type the table does not predict, a truthiness test other than on an optional
list or an optional float, a function that can fall off its end — makes the translation of that function fail: the Gen
file then carries a stub with the same signature and `translationOk := false`.  A translation that
succeeds but does not type-check breaks the build of the consumer.  Lean lists are values: a second
name for a list / dict (`x = y`) and a loop body that appends to what the loop iterates over are refused.  Either way the C19 check then
searches for a concrete failing input with its model-independent oracle.

Consumer: C19 (the generated functions are proved equal to the hand-written model)."""
from __future__ import annotations

import ast
import re
from contextlib import contextmanager
from pathlib import Path

from harness.translate import HEADER, lean_str, write_if_changed
from harness.translators.t12_pydo_serialization import Unsupported, camel

NAME = "T13_pydo_segmentation"
PROPS = ["C19"]
SRC = "packages/geff/src/geff/validate/segmentation.py"

ALIAS = {"KeyDict": "List Int", "DefaultDict": "List (Int × List Int)", "IntSet": "List Int"}
_MG, _VOL, _SC, _AX = ("memory_geff", "MemoryGeff"), ("segmentation", "Vol"), ("scale", "Option (List Dy)"), "Option (List Axis)"
# python name -> (parameters, locals), Lean types as strings
FUNCS = {
    "has_valid_seg_id": ([_MG, ("seg_id", "String")],
                         {"errors": "List Msg", "seg_ids": "ValuesArr", "missing": "Option (List Bool)"}),
    "axes_match_seg_dims": ([_MG, _VOL], {"errors": "List Msg", "axes": _AX}),
    "graph_is_in_seg_bounds": ([_MG, _VOL, _SC], {"errors": "List Msg", "axes": _AX, "seg_shape": "List Nat",
                                                  "max_bound": "Option Dy"}),
    "has_seg_ids_at_time_points": (
        [_VOL, ("time_points", "List Int"), ("seg_ids", "List Int"), ("metadata", "Option Metadata")],
        {"errors": "List Msg", "time_index": "Nat", "axes": _AX, "time_indices": "List Nat", "seg_id_group": "DefaultDict",
         "missing": "DefaultDict", "seg_shape": "List Nat", "labels": "List Int", "label_set": "IntSet"}),
    "has_seg_ids_at_coords": ([_VOL, ("coords", "List (List Dy)"), ("seg_ids", "List Int"), _SC],
                              {"errors": "List Msg", "missing": "KeyDict", "scaled_coord": "List Dy", "value": "Int"}),
}
# message template (interpolations replaced by {}) -> (Msg constructor, arguments): ("arg", k, T) is the
# k-th interpolated expression, of type T; ("pos", k): the k-th interpolated expression is a target of an
# enclosing `for … in zip(…)`, the argument is the position in that zip
MSGS = {
    "Missing seg_id property in Zarr store": ("missingSegId", []),
    "'seg_id' array has non-integer dtype: {}": ("nonIntegerDtype", []),
    "Mismatch in number of node IDs and seg_ids.": ("missingEntries", []),
    "No axes metadata found in this geff.": ("noAxes", []),
    "Length of scale factor list ({} does not match with the number of dimensions in the segmentation ({})":
        ("scaleLength", [("arg", 0, "Nat"), ("arg", 1, "Nat")]),
    "Number of axes in the geff metadata ({}) does not match the number of dimensions in the segmentation ({})":
        ("axesLength", [("arg", 0, "Nat"), ("arg", 1, "Nat")]),
    "Graph axis {} is out of bounds with value {} in segmentation axis size {} and scale factor {}":
        ("axisOutOfBounds", [("arg", 0, "Nat")]),
    "No axis 'max' value found in this geff metadata.": ("noAxisMax", []),
    "Time point {} is out of bounds: axis {} of segmentation data with shape {}": ("timeOutOfBounds", [("arg", 0, "Int")]),
    "Missing seg_id {} at time {}": ("missingLabel", [("arg", 0, "Int"), ("arg", 1, "Int")]),
    "Coordinate list must have the same length as the list of seg_ids to test.": ("lengthMismatch", []),
    "Coords {} do not have one value per dimension of the segmentation ({})": ("coordLength", [("pos", 0)]),
    "Coords {} are out of bounds for segmentation data with shape{} and scale factors {}": ("coordOutOfBounds", [("pos", 0)]),
}
# pure attribute reads / subscripts with a constant key: (type of the object, name) -> (Lean field, type)
FIELDS = {("MemoryGeff", "[node_props]"): ("nodeProps", "Dict PropInfo"), ("MemoryGeff", "[metadata]"): ("metadata", "Metadata"),
          ("PropInfo", "[values]"): ("values", "ValuesArr"), ("PropInfo", "[missing]"): ("missing", "Option (List Bool)"),
          ("Metadata", "axes"): ("axes", _AX), ("ValuesArr", "dtype"): ("dtype", "Dtype"), ("Axis", "max"): ("max", "Option Dy"),
          ("Axis", "type"): ("type", "Option String"), ("Vol", "shape"): ("shape", "List Nat"), ("Vol", "ndim"): ("ndim", "Nat")}
# calls f(x) / x.f() of one argument that cannot raise: (f, type of x) -> (Lean function, type)
CALLS1 = {("np.asanyarray", "Vol"): ("asanyarray", "Vol"), ("np.shape", "Vol"): ("npShape", "List Nat"),
          (".tolist", "List Int"): ("tolist", "List Int"), ("set", "List Int"): ("pySet", "IntSet"), ("int", "Dy"): ("pyInt", "Int")}


def atom(s: str) -> str:
    """a Lean term as an argument / before a projection: parenthesised unless it is atomic"""
    if re.fullmatch(r'[\w.]+|"(\\.|[^"\\])*"', s):
        return s
    if s[0] == "(" and s[-1] == ")":
        depth = 0
        for i, ch in enumerate(s):
            depth += (ch == "(") - (ch == ")")
            if depth == 0:
                if i == len(s) - 1:
                    return s
                break
    return f"({s})"


def unparen(t: str) -> str:
    return t[1:-1] if t.startswith("(") and t.endswith(")") else t


def elem(t: str):
    return unparen(t[5:]) if t.startswith("List ") else None


def inner(t: str):
    return unparen(t[7:]) if t.startswith("Option ") else None


def ctor(c: str, t: str) -> str:
    return f"{c} {t}" if re.fullmatch(r"\w+", t) else f"{c} ({t})"


def _np(node):
    return (isinstance(node, ast.Attribute) and isinstance(node.value, ast.Name) and node.value.id == "np") and node.attr


def template(node):
    """a str constant / f-string -> (text with every interpolation replaced by {}, interpolated expressions)"""
    if isinstance(node, ast.Constant) and isinstance(node.value, str):
        return node.value, []
    if not isinstance(node, ast.JoinedStr):
        return None
    text, interp = "", []
    for v in node.values:
        if isinstance(v, ast.Constant):
            text += v.value
        elif v.conversion == -1 and v.format_spec is None:
            text, interp = text + "{}", [*interp, v.value]
        else:
            return None
    return text, interp


def _is_zip(it):
    return isinstance(it, ast.Call) and isinstance(it.func, ast.Name) and it.func.id == "zip"


def _is_append(s):
    return (isinstance(s, ast.Expr) and isinstance(s.value, ast.Call) and isinstance(s.value.func, ast.Attribute)
            and s.value.func.attr == "append" and len(s.value.args) == 1 and not s.value.keywords)


class _AppendForms(ast.NodeTransformer):
    """`x += [e]` and `x = x + [e]` -> `x.append(e)`: the same for a list that has no second name (a second
    name for a list is refused), so the three spellings give the same generated code"""

    @staticmethod
    def _app(x, lst, s):
        if isinstance(lst, ast.List) and len(lst.elts) == 1 and not isinstance(lst.elts[0], ast.Starred):
            call = ast.Call(func=ast.Attribute(value=ast.Name(id=x, ctx=ast.Load()), attr="append", ctx=ast.Load()),
                            args=[lst.elts[0]], keywords=[])
            return ast.copy_location(ast.Expr(value=call), s)
        return s

    def visit_AugAssign(self, s):
        if isinstance(s.op, ast.Add) and isinstance(s.target, ast.Name):
            return self._app(s.target.id, s.value, s)
        return s

    def visit_Assign(self, s):
        v = s.value
        if (len(s.targets) == 1 and isinstance(s.targets[0], ast.Name) and isinstance(v, ast.BinOp) and isinstance(v.op, ast.Add)
                and isinstance(v.left, ast.Name) and v.left.id == s.targets[0].id):
            return self._app(v.left.id, v.right, s)
        return s


def uses_pos(body, names) -> bool:
    """does a message in `body` have a position argument that refers to one of the loop targets `names`"""
    for n in (n for s in body for n in ast.walk(s)):
        tpl = template(n.value.args[0]) if _is_append(n) else None
        if tpl and tpl[0] in MSGS:
            for spec in MSGS[tpl[0]][1]:
                e = tpl[1][spec[1]] if spec[1] < len(tpl[1]) else None
                if spec[0] == "pos" and isinstance(e, ast.Name) and e.id in names:
                    return True
    return False


def mutated(body) -> set:
    """names of the containers that `body` changes in place: x.append(…), x[k].append(…), x[k] = …"""
    found = set()
    for n in (n for s in body for n in ast.walk(s)):
        tgt = (n.func.value if isinstance(n, ast.Call) and isinstance(n.func, ast.Attribute) and n.func.attr == "append"
               else n if isinstance(n, ast.Subscript) and isinstance(n.ctx, ast.Store) else None)
        while isinstance(tgt, ast.Subscript):
            tgt = tgt.value
        found |= {tgt.id} if isinstance(tgt, ast.Name) else set()
    return found


def unchain(n):
    """a <= b < c  ->  a <= b and b < c   (b is evaluated once: it must be a name or a constant)"""
    if not (isinstance(n, ast.Compare) and len(n.ops) > 1):
        return n
    if not all(isinstance(m, (ast.Name, ast.Constant)) for m in n.comparators[:-1]):
        raise Unsupported(f"chained comparison with a compound middle operand: {ast.unparse(n)}")
    terms = [n.left, *n.comparators]
    return ast.BoolOp(op=ast.And(), values=[ast.Compare(left=terms[k], ops=[op], comparators=[terms[k + 1]])
                                            for k, op in enumerate(n.ops)])


def as_bool(e, t):
    if t not in ("Bool", "Prop"):
        raise Unsupported(f"Boolean expected, got {t}")
    return f"decide ({e})" if t == "Prop" else e


class Fn:
    def __init__(self, params, locals_):
        self.env = dict(params)                 # python name -> type (declared so far)
        self.params, self.locals = {p for p, _ in params}, locals_
        self.names: dict[str, str] = {}         # python name -> Lean name when it is not camel(name)
        self.frozen: set[str] = set()           # loop targets, match-bound names: cannot be assigned
        self.zips: list[tuple[set, str | None]] = []   # enclosing zip loops: (targets, index variable)
        self.accs: set[str] = set()             # Boolean accumulators
        self.dd_use: dict[str, str] = {}        # DefaultDict name -> "read" | "len"
        self.tmp = 0

    # ---------------------------------------------------------------- helpers
    def fresh(self, prefix="t"):
        self.tmp += 1
        return f"{prefix}{self.tmp}"

    def bind(self, binds, action, ty):
        t = self.fresh()
        binds.append(f"let {t} ← {action}")
        return t, ty

    def ln(self, name):
        return self.names.get(name) or camel(name)

    def pure(self, n, what="a callback"):
        sub: list[str] = []
        r = self.expr(n, sub)
        if sub:
            raise Unsupported(f"operation that can raise inside {what}: {ast.unparse(n)}")
        return r

    @contextmanager
    def scope(self, binders: dict, zipped=None):
        """loop targets / comprehension variables: in scope, not assignable, for the duration"""
        for v in binders:
            if v in self.env or re.fullmatch(r"[tck]\d+", camel(v)):
                raise Unsupported(f"variable {v} shadows another variable")
        self.env.update(binders)
        self.frozen |= set(binders)
        if zipped is not None:
            self.zips.append(zipped)
        try:
            yield
        finally:
            for v in binders:
                self.env.pop(v, None)
                self.frozen.discard(v)
            if zipped is not None:
                self.zips.pop()

    def dd(self, n, use):
        """reading `dd[k]` inserts the key: a defaultdict is either read or measured, not both"""
        if isinstance(n, ast.Name) and self.dd_use.setdefault(n.id, use) != use:
            raise Unsupported(f"defaultdict {n.id} is both read and measured (a read inserts the key)")

    def listlike(self, n, binds):
        """an iterable: List T as it is, Option (List T) through pyIter -> (text, T)"""
        e, t = self.expr(n, binds)
        if elem(inner(t) or "") is not None:
            e, t = self.bind(binds, f"pyIter {atom(e)}", inner(t))
        if elem(t) is None:
            raise Unsupported(f"iteration over {t}")
        return e, elem(t)

    def zip_args(self, it, strict, binds):
        """zip(A, B, strict=<strict>) -> ((A, TA), (B, TB)) or None when `it` is not such a call"""
        if not _is_zip(it):
            return None
        kw = {k.arg: k.value for k in it.keywords}
        got = kw["strict"].value if set(kw) == {"strict"} and isinstance(kw["strict"], ast.Constant) else (False if not kw else None)
        if len(it.args) != 2 or got is not strict:
            raise Unsupported(f"{ast.unparse(it)} here (two iterables and strict={strict} expected)")
        return [self.listlike(a, binds) for a in it.args]

    # ---------------------------------------------------------------- expressions
    def expr(self, n, binds, want=None):
        """-> (lean text, type); operations that can raise are appended to `binds`"""
        if isinstance(n, ast.Name):
            if n.id not in self.env:
                raise Unsupported(f"unknown variable {n.id}")
            return self.ln(n.id), self.env[n.id]
        if isinstance(n, ast.Constant):
            v = n.value
            if v is None:
                return "none", want or "Option ?"
            if isinstance(v, bool):
                return ("true" if v else "false"), "Bool"
            if isinstance(v, int) and v >= 0:
                return str(v), "Nat"
            if isinstance(v, float) and v == int(v) and v >= 0:
                return f"Dy.ofInt {int(v)}", "Dy"
            if isinstance(v, str):
                return lean_str(v), "String"
            raise Unsupported(f"constant {v!r}")
        if isinstance(n, (ast.List, ast.Dict)) and not (n.elts if isinstance(n, ast.List) else n.keys):
            ok = elem(want or "") is not None if isinstance(n, ast.List) else want == "KeyDict"
            if not ok:
                raise Unsupported(f"empty {type(n).__name__.lower()} for a variable of type {want}")
            return "[]", want
        if (isinstance(n, ast.BoolOp) or (isinstance(n, ast.UnaryOp) and isinstance(n.op, ast.Not))
                or (isinstance(n, ast.Compare) and len(n.ops) > 1)):
            sub, before = [], len(self.accs)
            r = self.cond(n, sub, "")
            if len(self.accs) != before:
                raise Unsupported(f"short circuit over an operation that can raise, outside an `if`: {ast.unparse(n)}")
            binds += sub
            return r
        if isinstance(n, ast.Compare):
            return self.compare(n.left, n.ops[0], n.comparators[0], binds)
        if isinstance(n, ast.BinOp) and isinstance(n.op, (ast.Add, ast.Mult)):
            if isinstance(n.op, ast.Mult) and isinstance(n.left, ast.List) and len(n.left.elts) == 1:
                c, tc = self.expr(n.left.elts[0], binds)
                k, tk = self.expr(n.right, binds)
                if tk != "Nat" or not isinstance(n.left.elts[0], ast.Constant):
                    raise Unsupported(f"list repetition {ast.unparse(n)}")
                return f"List.replicate {atom(k)} {atom(c)}", ctor("List", tc)
            a, ta = self.expr(n.left, binds)
            b, tb = self.expr(n.right, binds)
            if ta == tb == "Nat":
                return f"{a} {'+' if isinstance(n.op, ast.Add) else '*'} {b}", "Nat"
            if isinstance(n.op, ast.Mult) and "Dy" in (ta, tb) and {ta, tb} <= {"Dy", "Nat"}:
                return f"Dy.mul {self.dy(a, ta)} {self.dy(b, tb)}", "Dy"
            raise Unsupported(f"{ast.unparse(n)} on {ta}, {tb}")
        if isinstance(n, ast.Attribute):
            e, t = self.expr(n.value, binds)
            if (t, n.attr) in FIELDS:
                f, ty = FIELDS[t, n.attr]
                return f"{atom(e)}.{f}", ty
            if (t, n.attr) == ("Option Metadata", "axes"):
                return self.bind(binds, f"axesOf {atom(e)}", _AX)
            raise Unsupported(f"attribute .{n.attr} of {t}")
        if isinstance(n, ast.Subscript):
            return self.subscript(n, binds)
        if isinstance(n, ast.ListComp):
            z = self.zip_gen(n, binds)
            if z:
                return self.bind(binds, f"mapZipStrict {z[0]} {z[2]} {z[3]}", ctor("List", z[1]))
        if isinstance(n, ast.Call):
            return self.call(n, binds)
        raise Unsupported(f"expression {ast.unparse(n)}")

    def dy(self, e, t):
        return atom(e if t == "Dy" else f"Dy.ofInt {atom(e)}")

    def compare(self, l, op, r, binds):
        if isinstance(op, (ast.Is, ast.IsNot)) and isinstance(r, ast.Constant) and r.value is None:
            e, t = self.expr(l, binds)
            if inner(t) is None:
                raise Unsupported(f"`is None` on {t}")
            return f"{atom(e)}.{'isNone' if isinstance(op, ast.Is) else 'isSome'}", "Bool"
        a, ta = self.expr(l, binds)
        b, tb = self.expr(r, binds)
        if isinstance(op, (ast.In, ast.NotIn)):
            if (ta, tb) == ("String", "Dict PropInfo"):
                e = f"dictContains {atom(b)} {atom(a)}"
            elif ta == "Int" and tb in ("List Int", "IntSet"):
                e = f"{atom(b)}.contains {atom(a)}"
            else:
                raise Unsupported(f"membership of {ta} in {tb}")
            return (e if isinstance(op, ast.In) else f"!({e})"), "Bool"
        if isinstance(op, (ast.Eq, ast.NotEq)):
            if inner(tb) == ta:
                a, ta = f"some {atom(a)}", tb
            elif inner(ta) == tb:
                b, tb = f"some {atom(b)}", ta
            if ta != tb or ta in ALIAS:
                raise Unsupported(f"comparison of {ta} with {tb}")
            return f"{a} {'==' if isinstance(op, ast.Eq) else '!='} {b}", "Bool"
        sym = {ast.Lt: "<", ast.LtE: "≤", ast.Gt: ">", ast.GtE: "≥"}.get(type(op))
        if sym and {ta, tb} <= {"Nat", "Int", "Dy"}:
            if "Dy" in (ta, tb):
                x, y = (a, ta), (b, tb)
                x, y = (x, y) if sym in "<≤" else (y, x)
                return f"Dy.{'lt' if sym in '<>' else 'le'} {self.dy(*x)} {self.dy(*y)}", "Bool"
            if "Int" in (ta, tb):
                a, b = (e if t == "Int" else f"({e} : Int)" for e, t in ((a, ta), (b, tb)))
            return f"{a} {sym} {b}", "Prop"
        raise Unsupported(f"comparison {ast.unparse(l)} {type(op).__name__} {ast.unparse(r)} on {ta}, {tb}")

    def subscript(self, n, binds):
        e, t = self.expr(n.value, binds)
        sl = n.slice
        if isinstance(sl, ast.Constant) and (t, f"[{sl.value}]") in FIELDS:
            f, ty = FIELDS[t, f"[{sl.value}]"]
            return f"{atom(e)}.{f}", ty
        if (t == "Vol" and isinstance(sl, ast.Call) and isinstance(sl.func, ast.Name) and sl.func.id == "tuple"
                and len(sl.args) == 1 and not sl.keywords and isinstance(sl.args[0], ast.GeneratorExp)):
            g = sl.args[0].generators
            if len(g) == 1 and not g[0].ifs and not g[0].is_async and isinstance(g[0].target, ast.Name):
                xs, tx = self.listlike(g[0].iter, binds)
                with self.scope({g[0].target.id: tx}):
                    body, tb = self.pure(sl.args[0].elt)
                if tb == "Int":
                    return self.bind(binds, f"npIndex {atom(e)} ({atom(xs)}.map (fun ({camel(g[0].target.id)} : {tx}) => {body}))", "Int")
            raise Unsupported(f"array index {ast.unparse(sl)}")
        if isinstance(sl, ast.Slice):
            raise Unsupported(f"slice {ast.unparse(n)}")
        k, tk = self.expr(sl, binds)
        if (t, tk) == ("Dict PropInfo", "String"):
            return self.bind(binds, f"dictGet {atom(e)} {atom(k)}", "PropInfo")
        if (t, tk) == ("DefaultDict", "Int"):
            self.dd(n.value, "read")
            return f"ddGet {atom(e)} {atom(k)}", "List Int"
        if elem(t) is not None and tk == "Nat":
            return self.bind(binds, f"listGet {atom(e)} {atom(k)}", elem(t))
        raise Unsupported(f"subscript {ast.unparse(n)} on {t} with {tk}")

    def zip_gen(self, comp, binds, boolean=False):
        """`elt for a, b in zip(A, B, strict=True)` -> (callback, type of elt, A, B) | None"""
        g = comp.generators
        if len(g) != 1 or g[0].ifs or g[0].is_async:
            raise Unsupported(f"comprehension {ast.unparse(comp)}")
        z = self.zip_args(g[0].iter, True, binds)
        tg = g[0].target
        if z is None:
            return None
        if not (isinstance(tg, ast.Tuple) and len(tg.elts) == 2 and all(isinstance(x, ast.Name) for x in tg.elts)):
            raise Unsupported(f"comprehension target {ast.unparse(tg)}")
        vs = [x.id for x in tg.elts]
        with self.scope({vs[0]: z[0][1], vs[1]: z[1][1]}):
            body, tb = self.pure(comp.elt)
        if boolean:
            body, tb = as_bool(body, tb), "Bool"
        fun = f"(fun ({camel(vs[0])} : {z[0][1]}) ({camel(vs[1])} : {z[1][1]}) => {body})"
        return fun, tb, atom(z[0][0]), atom(z[1][0])

    def call(self, n, binds):
        f, src = n.func, ast.unparse(n)
        fname = f.id if isinstance(f, ast.Name) else f"np.{_np(f)}" if _np(f) else None
        if fname == "np.issubdtype" and len(n.args) == 2 and not n.keywords and _np(n.args[1]) == "integer":
            e, t = self.expr(n.args[0], binds)
            if t == "Dtype":
                return f"issubdtypeInteger {atom(e)}", "Bool"
        elif fname == "defaultdict" and [ast.unparse(a) for a in n.args] == ["list"] and not n.keywords:
            return "[]", "DefaultDict"
        elif (fname == "np.unique" and len(n.args) == 1 and not n.keywords and isinstance(n.args[0], ast.Call)
              and _np(n.args[0].func) == "take" and len(n.args[0].args) == 1
              and sorted(k.arg or "" for k in n.args[0].keywords) == ["axis", "indices"]):
            v = self.expr(n.args[0].args[0], binds)
            kw = {k.arg: self.expr(k.value, binds) for k in n.args[0].keywords}
            if (v[1], kw["indices"][1], kw["axis"][1]) == ("Vol", "Int", "Nat"):
                return self.bind(binds, f"npUniqueTake {atom(v[0])} {atom(kw['indices'][0])} {atom(kw['axis'][0])}", "List Int")
        elif fname == "all" and len(n.args) == 1 and not n.keywords and isinstance(n.args[0], ast.GeneratorExp):
            z = self.zip_gen(n.args[0], binds, boolean=True)
            if z:
                return self.bind(binds, f"allZipStrict {z[0]} {z[2]} {z[3]}", "Bool")
        elif isinstance(f, ast.Attribute) or fname:
            # one-argument calls f(x) / x.f() / x.index(y)
            obj, args = (n.args[0] if n.args else None, n.args[1:]) if fname else (f.value, n.args)
            key = fname or f".{f.attr}"
            if obj is None or n.keywords or len(args) > (key == ".index"):
                raise Unsupported(f"call {src}")
            e, t = self.expr(obj, binds)
            if (key, t) in CALLS1:
                g, ty = CALLS1[key, t]
                return f"{g} {atom(e)}", ty
            if key == "len" and (elem(t) is not None or t in ALIAS):
                if t == "DefaultDict":
                    self.dd(obj, "len")
                return f"{atom(e)}.length", "Nat"
            if key == "len" and elem(inner(t) or "") is not None:
                return self.bind(binds, f"pyLen {atom(e)}", "Nat")
            if key == "any" and t == "Option (List Bool)":
                return self.bind(binds, f"pyAny {atom(e)}", "Bool")
            if key == ".index" and len(args) == 1 and t == _AX:
                a, ta = self.expr(args[0], binds)
                if ta == "Axis":
                    return self.bind(binds, f"pyIndexOf {atom(e)} {atom(a)}", "Nat")
            raise Unsupported(f"call {src} on {t}")
        raise Unsupported(f"call {src}")

    # ---------------------------------------------------------------- conditions
    def cond(self, test, out, ind):
        """condition -> (text, Bool | Prop), emitting what must be computed first.  `A or B`, `A and B`
        (chained comparisons included) whose later operands contain operations that can raise are
        evaluated with Python's short circuit: a Boolean accumulator, the later operand is computed
        only when the earlier ones did not decide; recursively, also under `not`"""
        test = unchain(test)
        if isinstance(test, ast.UnaryOp) and isinstance(test.op, ast.Not):
            e, t = self.cond(test.operand, out, ind)
            return (f"!{e}" if e in self.accs else f"!({e})" if t == "Bool" else f"¬ ({e})"), ("Bool" if t == "Bool" else "Prop")
        if isinstance(test, ast.BoolOp):
            is_or = isinstance(test.op, ast.Or)
            probe: list[str] = []
            saved = self.tmp, set(self.accs), dict(self.dd_use)
            for v in test.values[1:]:
                self.cond(v, probe, "")
            self.tmp, self.accs, self.dd_use = saved
            if not probe:
                parts = [self.cond(v, out, ind) for v in test.values]
                if all(t == "Prop" for _, t in parts):
                    return "(" + (" ∨ " if is_or else " ∧ ").join(e for e, _ in parts) + ")", "Prop"
                return "(" + (" || " if is_or else " && ").join(as_bool(*p) for p in parts) + ")", "Bool"
            acc = self.fresh("c")
            self.accs.add(acc)
            for k, v in enumerate(test.values):
                i2 = ind + "  " if k else ind
                if k:
                    out.append(ind + (f"if !{acc} then" if is_or else f"if {acc} then"))
                e = as_bool(*self.cond(v, out, i2))
                out.append(i2 + (f"{acc} := {e}" if k else f"let mut {acc} : Bool := {e}"))
            return acc, "Bool"
        binds: list[str] = []
        e, t = self.expr(test, binds)
        out += [ind + b for b in binds]
        if elem(inner(t) or "") is not None:
            return f"truthy {atom(e)}", "Bool"
        if t not in ("Bool", "Prop"):
            raise Unsupported(f"truthiness test on {t}: {ast.unparse(test)}")
        return e, t

    # ---------------------------------------------------------------- statements
    def declare(self, name, ty):
        want = self.locals.get(name)
        if re.fullmatch(r"[tck]\d+", camel(name)) or re.fullmatch(r"\w+V", camel(name)):
            raise Unsupported(f"variable {name}: the name is reserved for generated temporaries")
        if want is None:
            # a local that the table does not know (e.g. renamed): its type is that of its first right-hand
            # side, when that is fully determined
            if "?" in ty or not ty:
                raise Unsupported(f"variable {name} is not in the typing table and its type is not determined ({ty})")
            want = self.locals[name] = ty
        if ty != want and not (ty == "Option ?" and want.startswith("Option ")):
            raise Unsupported(f"variable {name}: expected {ALIAS.get(want, want)}, got {ALIAS.get(ty, ty)}")
        first = name not in self.env
        self.env[name] = want
        return first, ALIAS.get(want, want)

    def mutable(self, name):
        if name not in self.env or name in self.frozen or name in self.params:
            raise Unsupported(f"{name} is not an assignable local variable here")
        return self.ln(name), self.env[name]

    def assign(self, name, value, out, ind, top):
        if name in self.frozen:
            raise Unsupported(f"assignment to the loop / match variable {name}")
        x = self.ln(name)
        binds: list[str] = []
        if name in self.params:
            # p = f(p), same type, at the top level of the function: a shadowing `let`
            e, t = self.expr(value, binds, want=self.env[name])
            if not top or t != self.env[name]:
                raise Unsupported(f"assignment to the parameter {name} ({t}, {'top level' if top else 'nested'})")
            out += [ind + b for b in binds] + [ind + f"let {x} : {t} := {e}"]
            return
        want = self.locals.get(name)
        if isinstance(value, ast.Name) and (elem(self.env.get(value.id, "")) is not None or self.env.get(value.id) in ALIAS):
            raise Unsupported(f"{name} = {value.id}: a second name for a list / dict (changes through one are seen through the other)")
        if isinstance(value, ast.ListComp) and not _is_zip(value.generators[0].iter):
            # x = [e for v in xs if c]  ->  x = []; for v in xs: if c: x.append(e)
            g = value.generators
            if len(g) != 1 or len(g[0].ifs) > 1 or g[0].is_async or any(isinstance(m, ast.Name) and m.id == name for m in ast.walk(value)):
                raise Unsupported(f"comprehension {ast.unparse(value)}")
            self.assign(name, ast.List(elts=[]), out, ind, top)
            app: ast.stmt = ast.Expr(ast.Call(func=ast.Attribute(value=ast.Name(id=name), attr="append"), args=[value.elt], keywords=[]))
            body = [ast.If(test=g[0].ifs[0], body=[app], orelse=[])] if g[0].ifs else [app]
            self.block([ast.For(target=g[0].target, iter=g[0].iter, body=body, orelse=[])], out, ind)
            return
        e, t = self.expr(value, binds, want=want)
        if want and inner(want) == t:
            e, t = f"some {atom(e)}", want
        first, ty = self.declare(name, t)
        out += [ind + b for b in binds] + [ind + (f"let mut {x} : {ty} := {e}" if first else f"{x} := {e}")]

    def message(self, node, binds):
        tpl = template(node)
        if tpl is None or tpl[0] not in MSGS:
            raise Unsupported(f"message not in the table: {tpl[0] if tpl else ast.unparse(node)!r}")
        con, specs = MSGS[tpl[0]]
        vals = [self.expr(e, binds) for e in tpl[1]]          # all of them: they are evaluated by Python
        args = []
        for spec in specs:
            if spec[0] == "arg":
                e, t = vals[spec[1]]
                if t != spec[2]:
                    raise Unsupported(f"message argument {e} : {t}, expected {spec[2]}")
                args.append(atom(e))
            else:
                v = tpl[1][spec[1]]
                k = next((k for names, k in reversed(self.zips) if isinstance(v, ast.Name) and v.id in names), None)
                if k is None:
                    raise Unsupported(f"message argument {ast.unparse(v)} is not the target of an enclosing zip loop")
                args.append(k)
        return " ".join([f"Msg.{con}", *args])

    def block(self, stmts, out, ind, top=False):
        before = set(self.env)
        for k, s in enumerate(stmts):
            binds: list[str] = []
            if isinstance(s, ast.Expr) and isinstance(s.value, ast.Constant) and isinstance(s.value.value, str):
                continue                                                     # docstring
            if isinstance(s, ast.Assign) and len(s.targets) == 1 and isinstance(s.targets[0], ast.Name):
                self.assign(s.targets[0].id, s.value, out, ind, top)
            elif isinstance(s, ast.AnnAssign) and isinstance(s.target, ast.Name) and s.value is not None:
                self.assign(s.target.id, s.value, out, ind, top)
            elif isinstance(s, ast.AugAssign) and isinstance(s.op, ast.Add) and isinstance(s.target, ast.Name):
                self.assign(s.target.id, ast.BinOp(left=ast.Name(id=s.target.id), op=ast.Add(), right=s.value), out, ind, top)
            elif (isinstance(s, ast.Assign) and len(s.targets) == 1 and isinstance(s.targets[0], ast.Subscript)
                  and isinstance(s.targets[0].value, ast.Name)):
                # d[k] = v  on a plain dict of which only the keys are observed
                d, td = self.mutable(s.targets[0].value.id)
                key, tk = self.expr(s.targets[0].slice, binds)
                self.pure(s.value, "the value of an item assignment")
                if (td, tk) != ("KeyDict", "Int"):
                    raise Unsupported(f"item assignment {ast.unparse(s)} on {td} with {tk}")
                out += [ind + b for b in binds] + [ind + f"{d} := dictSetKey {d} {atom(key)}"]
            elif _is_append(s) and isinstance(s.value.func.value, ast.Name):
                x, ty = self.mutable(s.value.func.value.id)
                if ty == "List Msg":
                    e = self.message(s.value.args[0], binds)
                else:
                    e, t = self.expr(s.value.args[0], binds)
                    if elem(ty) != t:
                        raise Unsupported(f"append of {t} to {ty}")
                out += [ind + b for b in binds] + [ind + f"{x} := {x} ++ [{e}]"]
            elif _is_append(s) and isinstance(s.value.func.value, ast.Subscript) and isinstance(s.value.func.value.value, ast.Name):
                # dd[k].append(v)  on a defaultdict(list)
                d, td = self.mutable(s.value.func.value.value.id)
                key, tk = self.expr(s.value.func.value.slice, binds)
                v, tv = self.expr(s.value.args[0], binds)
                if (td, tk, tv) != ("DefaultDict", "Int", "Int"):
                    raise Unsupported(f"{ast.unparse(s)} on {td} with {tk}, {tv}")
                out += [ind + b for b in binds] + [ind + f"{d} := ddAppend {d} {atom(key)} {atom(v)}"]
            elif isinstance(s, ast.Return):
                if not (isinstance(s.value, ast.Tuple) and len(s.value.elts) == 2):
                    raise Unsupported(f"return value {ast.unparse(s)}")
                b = as_bool(*self.expr(s.value.elts[0], binds))
                e, te = self.expr(s.value.elts[1], binds)
                if te != "List Msg":
                    raise Unsupported(f"return of a list of type {te}")
                out += [ind + x for x in binds] + [ind + f"return ⟨{b}, {e}⟩"]
                if k != len(stmts) - 1:
                    raise Unsupported("statements after a return")
            elif isinstance(s, ast.If):
                self.if_(s, out, ind, top)
            elif isinstance(s, ast.For) and not s.orelse:
                self.for_(s, out, ind)
            else:
                raise Unsupported(f"statement {type(s).__name__}: {ast.unparse(s)[:60]}")
        if not top:
            for v in set(self.env) - before:                                 # block-local variables
                del self.env[v]

    def for_(self, s, out, ind):
        binds: list[str] = []
        tg, it = s.target, s.iter
        names = [tg.id] if isinstance(tg, ast.Name) else [e.id for e in tg.elts if isinstance(e, ast.Name)] if isinstance(tg, ast.Tuple) else []
        pat, zipped = [camel(v) for v in names], None
        if mutated(s.body) & {m.id for m in ast.walk(it) if isinstance(m, ast.Name)}:
            raise Unsupported(f"the loop body changes a container that {ast.unparse(it)} iterates over")
        z = self.zip_args(it, False, binds)
        if z is not None and len(names) == 2:
            coll, tys = f"pyZip {atom(z[0][0])} {atom(z[1][0])}", [z[0][1], z[1][1]]
            zipped = (set(names), self.fresh("k") if uses_pos(s.body, names) else None)
            if zipped[1]:
                coll, pat = f"pyEnumerate ({coll})", [zipped[1], *pat]
        elif (isinstance(it, ast.Call) and isinstance(it.func, ast.Name) and it.func.id == "enumerate" and len(it.args) == 1
              and not it.keywords and len(names) == 2):
            e, t = self.listlike(it.args[0], binds)
            coll, tys = f"pyEnumerate {atom(e)}", ["Nat", t]
        elif isinstance(tg, ast.Name) and z is None:
            e, t = self.listlike(it, binds)
            coll, tys = e, [t]
        else:
            raise Unsupported(f"loop for {ast.unparse(tg)} in {ast.unparse(it)}")
        out += [ind + b for b in binds] + [ind + f"for {pat[0] if len(pat) == 1 else '(' + ', '.join(pat) + ')'} in {coll} do"]
        with self.scope(dict(zip(names, tys, strict=True)), zipped):
            self.block(s.body, out, ind + "  ")

    def if_(self, s, out, ind, top):
        t, i2 = s.test, ind + "  "
        none_test = (isinstance(t, ast.Compare) and len(t.ops) == 1 and isinstance(t.left, ast.Name)
                     and isinstance(t.comparators[0], ast.Constant) and t.comparators[0].value is None
                     and inner(self.env.get(t.left.id, "")) is not None)
        if none_test and isinstance(t.ops[0], ast.IsNot):
            # if x is not None: A else: B   ->   match x with | some xV => A | none => B
            name, x = t.left.id, self.ln(t.left.id)
            saved = self.env[name], self.names.get(name), name in self.frozen
            out += [ind + f"match {x} with", ind + f"| some {x}V =>"]
            self.env[name], self.names[name] = inner(saved[0]), x + "V"
            self.frozen.add(name)
            self.block(s.body, out, i2)
            self.env[name], self.names[name] = saved[:2]
            self.frozen -= set() if saved[2] else {name}
            out.append(ind + "| none =>")
            self.block(s.orelse, out, i2) if s.orelse else out.append(i2 + "pure ()")
            return
        if none_test and isinstance(t.ops[0], ast.Is) and s.orelse:
            # if x is None: B else: A   ->   the same `match` with the branches exchanged
            flipped = ast.Compare(left=t.left, ops=[ast.IsNot()], comparators=t.comparators)
            self.if_(ast.copy_location(ast.If(test=flipped, body=s.orelse, orelse=s.body), s), out, ind, top)
            return
        if isinstance(t, ast.Name) and self.env.get(t.id) == "Option Dy":
            # if x:  on an optional float (None and 0.0 are falsy)
            #   ->   match x with | some xV => if dyTruthy xV then A else B | none => B
            name, x = t.id, self.ln(t.id)
            saved = self.env[name], self.names.get(name), name in self.frozen
            out += [ind + f"match {x} with", ind + f"| some {x}V =>", i2 + f"if dyTruthy {x}V then"]
            self.env[name], self.names[name] = "Dy", x + "V"
            self.frozen.add(name)
            self.block(s.body, out, i2 + "  ")
            self.env[name], self.names[name] = saved[:2]
            self.frozen -= set() if saved[2] else {name}
            if s.orelse:
                out.append(i2 + "else")
                self.block(s.orelse, out, i2 + "  ")
            out.append(ind + "| none =>")
            self.block(s.orelse, out, i2) if s.orelse else out.append(i2 + "pure ()")
            return
        if (none_test and isinstance(t.ops[0], ast.Is) and top and t.left.id in self.params and not s.orelse and len(s.body) == 1
                and isinstance(s.body[0], ast.Assign) and [ast.unparse(x) for x in s.body[0].targets] == [t.left.id]):
            # if p is None: p = default   (p a parameter)   ->   let p := p.getD default
            name, ty = t.left.id, inner(self.env[t.left.id])
            d, td = self.pure(s.body[0].value, "a default value")
            if td != ty:
                raise Unsupported(f"default of {name}: expected {ty}, got {td}")
            out.append(ind + f"let {self.ln(name)} : {ty} := {self.ln(name)}.getD {atom(d)}")
            self.env[name] = ty
            return
        c, _ = self.cond(t, out, ind)
        out.append(ind + f"if {c} then")
        self.block(s.body, out, i2)
        if s.orelse:
            out.append(ind + "else")
            self.block(s.orelse, out, i2)


def returns(stmts) -> bool:
    """every path through the block ends in a `return`"""
    last = stmts[-1] if stmts else None
    return isinstance(last, ast.Return) or (isinstance(last, ast.If) and returns(last.body) and returns(last.orelse))


def head(name, underscore="") -> str:
    params = " ".join(f"({underscore}{camel(p)} : {t})" for p, t in FUNCS[name][0])
    return f"def {camel(name)} {params} : Outcome Result := "


def translate_function(fn: ast.FunctionDef) -> str:
    params, locals_ = FUNCS[fn.name]
    a = fn.args
    if [x.arg for x in a.args] != [p for p, _ in params] or a.vararg or a.kwarg or a.kwonlyargs or a.posonlyargs:
        raise Unsupported(f"signature of {fn.name} changed: {ast.unparse(a)}")
    if fn.decorator_list or not returns(fn.body):
        raise Unsupported("decorated function" if fn.decorator_list else "the function can fall off its end (returns None)")
    body: list[str] = []
    fn = ast.fix_missing_locations(_AppendForms().visit(fn))
    Fn(params, dict(locals_)).block(fn.body, body, "  ", top=True)
    return "\n".join([head(fn.name) + "do", *body])


def run(repo: Path, out: Path):
    errors, defs, fns, unparsed = {}, [], {}, None
    try:
        tree = ast.parse((repo / SRC).read_text())
        fns = {n.name: n for n in tree.body if isinstance(n, ast.FunctionDef)}
    except Exception as e:  # noqa: BLE001
        unparsed = f"the source does not parse: {type(e).__name__}: {e}"
    for name in FUNCS:
        try:
            if name not in fns:
                raise Unsupported(unparsed or f"function {name} not found")
            defs.append(f"/-- `{name}` ({SRC}:{fns[name].lineno}) -/\n" + translate_function(fns[name]))
        except Exception as e:  # noqa: BLE001
            why = str(e) if isinstance(e, Unsupported) else f"{type(e).__name__}: {e}"
            errors[name] = why = " ".join(why.replace("-/", "- /").split())
            defs.append(f"/-- `{name}`: NOT TRANSLATED ({why}) -/\n" + head(name, "_") + '.other "untranslated"')
    ok = not errors
    body = "import GeffModel.PyDoSeg\n" + HEADER
    body += "/-! `geff/validate/segmentation.py`, statement by statement (translator T13). -/\n"
    body += "set_option linter.unusedVariables false\nnamespace Gen.Segmentation\nopen Geff.Np Geff.Seg Geff.PyDoSeg\n\n"
    body += f"def translationOk : Bool := {'true' if ok else 'false'}\n\n"
    body += "\n\n".join(defs) + "\n\nend Gen.Segmentation\n"
    write_if_changed(out / "Segmentation.lean", body)
    return {"ok": ok, **({"error": unparsed or "; ".join(f"{k}: {v}" for k, v in errors.items())} if errors else {})}
