"""T4: the JSON schema, twice ->
  lean/Gen/SchemaPublished.lean   from <repo>/geff-schema.json (the file shipped to other implementations)
  lean/Gen/SchemaExported.lean    from the working tree's `geff_spec._schema._formatted_schema_json()`
                                  (this item *runs* the working tree: in-process when geff_spec is
                                  already imported from <repo>, otherwise in a child interpreter)
each as a `Geff.Meta.J` term `doc`.  Canonical form: object keys sorted, `required` arrays sorted
(both are unordered in JSON Schema); everything else verbatim, annotations included.  Consumers:
C08 (`published_parses_to_spec`, `exported_parses_to_spec`, `C08_no_drift`)."""
from __future__ import annotations

import json
import os
import subprocess
import sys
from pathlib import Path

from harness.translate import HEADER, write_if_changed

NAME = "T4_schema_json"
PROPS = ["C08"]


def lean_str(s: str) -> str:
    out = '"'
    for ch in s:
        if ch == '"':
            out += '\\"'
        elif ch == "\\":
            out += "\\\\"
        elif ch == "\n":
            out += "\\n"
        elif ch == "\t":
            out += "\\t"
        elif ch == "\r":
            out += "\\r"
        elif ord(ch) < 32 or ord(ch) == 127:
            out += "\\x%02x" % ord(ch)
        else:
            out += ch
    return out + '"'


def tr(j, key=None) -> str:
    if j is None:
        return "J.null"
    if isinstance(j, bool):
        return "J.bool " + ("true" if j else "false")
    if isinstance(j, int):
        return f"J.int ({j})"
    if isinstance(j, float):
        if j != j or j in (float("inf"), float("-inf")):
            raise ValueError("non-finite number in schema")
        n, d = j.as_integer_ratio()
        return f"J.flt (F.fin ({n}) {d.bit_length() - 1})"
    if isinstance(j, str):
        return "J.str " + lean_str(j)
    if isinstance(j, list):
        xs = j
        if key == "required" and all(isinstance(x, str) for x in xs):
            xs = sorted(xs)
        return "J.arr [" + ", ".join(tr(x) for x in xs) + "]"
    if isinstance(j, dict):
        return "J.obj [" + ", ".join("(" + lean_str(k) + ", " + tr(v, k) + ")" for k, v in sorted(j.items())) + "]"
    raise TypeError(type(j).__name__)


def exported_schema(repo: Path) -> dict:
    spec_src = str((repo / "packages/geff-spec/src").resolve())
    mod = sys.modules.get("geff_spec")
    if mod is not None and str(Path(mod.__file__).resolve()).startswith(spec_src):
        from geff_spec._schema import _formatted_schema_json

        return json.loads(_formatted_schema_json())
    env = dict(os.environ)
    env["PYTHONPATH"] = os.pathsep.join([str(repo / "packages/geff/src"), spec_src])
    env["PYTHONDONTWRITEBYTECODE"] = "1"
    code = ("import warnings; warnings.simplefilter('ignore'); import geff_spec, sys; "
            "assert geff_spec.__file__.startswith(sys.argv[1]), geff_spec.__file__; "
            "from geff_spec._schema import _formatted_schema_json; print(_formatted_schema_json())")
    p = subprocess.run([sys.executable if "venv" in sys.executable else "/venv/bin/python", "-c", code, spec_src],
                       capture_output=True, text=True, env=env, timeout=300, cwd="/")
    if p.returncode != 0:
        raise RuntimeError("export failed: " + p.stderr[-500:])
    return json.loads(p.stdout)


def _emit(out: Path, modname: str, doc, err):
    body = "import GeffModel.MetaJson\n" + HEADER + f"namespace Gen.{modname}\nopen Geff.Meta\n"
    body += f"def translationOk : Bool := {'true' if err is None else 'false'}\n"
    term = "J.null"
    if err is None:
        term = tr(doc)
    body += "def doc : J :=\n  " + term + "\n"
    body += f"end Gen.{modname}\n"
    write_if_changed(out / f"{modname}.lean", body)


def run(repo: Path, out: Path) -> dict:
    errs = {}
    pub = exp = None
    try:
        pub = json.loads((repo / "geff-schema.json").read_text())
        tr(pub)
    except Exception as e:  # noqa: BLE001
        errs["published"] = f"{type(e).__name__}: {e}"
    try:
        exp = exported_schema(repo)
        tr(exp)
    except Exception as e:  # noqa: BLE001
        errs["exported"] = f"{type(e).__name__}: {e}"
    _emit(out, "SchemaPublished", pub, errs.get("published"))
    _emit(out, "SchemaExported", exp, errs.get("exported"))
    res = {"ok": not errs, "identical_documents": (pub == exp) if not errs else None}
    if errs:
        res["error"] = "; ".join(f"{k}: {v}" for k, v in errs.items())
    return res
