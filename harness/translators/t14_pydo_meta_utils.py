"""T14: geff_spec/utils.py -> lean/Gen/MetaUtils.lean  (Python -> Lean `do`-notation, metadata helpers).

The six helpers that build and rebuild the metadata of a written geff

    axes_from_lists, update_metadata_axes, create_or_update_metadata,
    add_or_update_props_metadata, create_props_metadata, compute_and_add_axis_min_max

are translated *statement by statement* from the AST of the working tree (parsed, never imported)
into Lean `do`-blocks in the monad `Geff.MetaW.Res`, over the metadata types of the hand-written
C10 model (`GeffModel/MetaWrite.lean`) and the primitives of `GeffModel/PyDoMeta.lean`.  The engine
is T12's (`t12_pydo_serialization.Fn`, subclassed here, not edited); what this plug-in adds:

* keyword-argument calls of the pydantic constructors `Axis(…)`, `PropMetadata(…)`,
  `GeffMetadata(…)` -> the validating primitives `newAxis` / `newPropMetadata` / `newGeffMetadata`
  (unknown keyword, missing required keyword: refused) and keyword calls of another translated
  function (omitted arguments must have the default `None` in the callee's signature);
* attribute assignment: on `GeffMetadata` (validate_assignment=True) -> the validating primitive
  `Meta.set<Field>`, through `onObj` when the variable is `GeffMetadata | None`; on `Axis` /
  `PropMetadata` (no validate_assignment) -> a plain structure update.  The three flags are re-read
  from the class bodies and emitted as `metaValidatesAssignment` … for the consuming theorem;
* `x[i] if x is not None else None` and other conditional expressions whose branches can raise ->
  `let t ← (if c then (do …; pure e) else …)`: the raising operation runs only in its branch;
* `len` / `[i]` / `for` on a `Sequence | None` -> `lenOpt` / `getItemOpt` / `iterOpt` (TypeError on None,
  IndexError on a short list);
* `continue`; `return` anywhere (Lean's `do` supports both); assignment to a loop variable
  (`let mut axis := axis` at the head of the body); parameters that are reassigned;
* `match c_type: case "node": … case "edge": …` -> a Lean `match` on the string with the default
  arm `| _ => pure ()`; a local bound only in some arms is an `Option` (`none` = unbound) read
  through `bound` (UnboundLocalError);
* `@validate_call` with a `Literal[...]` parameter -> an entry guard raising ValueError
  (ValidationError); any other decorator is refused;
* dict operations `k in d`, `d[k]`, `d[k] = v`, `d[k].f = v`, `d.update(e)`, `{}`;
* VIEWS: a local assigned `root.attr` where the attribute is a dict aliases it.  It is kept as the
  attribute's name (`PropsRef`), read as `ref.get root`, and every edit through it is written
  back with `root := ref.set root …`.  Assigning the root after a view of it was taken is refused;
* a parameter that the function edits in place (`prop_data["values"] = …`) is returned next to the
  result (`mutates` in the table);
* variables first assigned in BOTH branches of an `if`/`else` are declared before it with the
  placeholder `default`; the translator checks that every path through the conditional assigns
  them (or raises) before they can be read, so the placeholder is never observable;
* `warnings.warn(…)` is dropped (a warning does not raise under the default filters).

Anything outside the subset makes the translation of that function fail: the Gen file then carries a
stub with the same signature and `translationOk := false`, which `GeffProps.C10Gen.translated`
requires to be `true`.  A translation that succeeds but does not type-check, or that no longer
equals the hand-written model, breaks `lake build GeffProps.C10Gen`.

Consumer: C10 (`GeffProps/C10Gen.lean`)."""
from __future__ import annotations

import ast
from pathlib import Path

from harness.translate import HEADER, lean_str, write_if_changed
from harness.translators.t12_pydo_serialization import EXC, Fn, Unsupported, camel

NAME = "T14_pydo_meta_utils"
PROPS = ["C10"]
SRC = "packages/geff-spec/src/geff_spec/utils.py"
CLASS_SRC = {"Axis": "packages/geff-spec/src/geff_spec/_axis.py",
             "PropMetadata": "packages/geff-spec/src/geff_spec/_prop_metadata.py",
             "GeffMetadata": "packages/geff-spec/src/geff_spec/_schema.py"}

AXIS, META, PM = "Axis κ", "Meta κ", "PropMeta"
PDICT = "List (String × PropMeta)"
VALUES, PDATA, NPROPS = "Values κ", "PropData κ", "List (String × PropData κ)"
OSTR = "Option String"
OLOS = "Option (List (Option String))"
OLOK = "Option (List (Option κ))"
OAXES = "Option (List (Axis κ))"

# python attribute -> (Lean field, Lean type), per model class
FIELDS = {
    AXIS: {"name": ("name", "String"), "type": ("type", OSTR), "unit": ("unit", OSTR), "min": ("min", "Option κ"),
           "max": ("max", "Option κ"), "scale": ("scale", OSTR), "scaled_unit": ("scaledUnit", OSTR),
           "offset": ("offset", OSTR)},
    PM: {"identifier": ("identifier", "String"), "dtype": ("dtype", "String"), "varlength": ("varlength", "Bool"),
         "unit": ("unit", OSTR), "name": ("name", OSTR), "description": ("description", OSTR)},
    META: {"geff_version": ("geffVersion", "String"), "directed": ("directed", "Bool"), "axes": ("axes", OAXES),
           "node_props_metadata": ("nodeProps", PDICT), "edge_props_metadata": ("edgeProps", PDICT)},
}
# classes whose attribute assignment validates; filled from the class bodies by `class_flags`
PY_CLASS = {AXIS: "Axis", PM: "PropMetadata", META: "GeffMetadata"}
# constructors: python class -> (primitive, [(keyword, Lean type, required)], result type)
CTORS = {
    "Axis": ("newAxis", [("name", "String", True), ("type", OSTR, False), ("unit", OSTR, False), ("min", "Option κ", False),
                         ("max", "Option κ", False), ("scale", OSTR, False), ("scaled_unit", OSTR, False),
                         ("offset", OSTR, False)], AXIS),
    "PropMetadata": ("newPropMetadata", [("identifier", "String", True), ("dtype", "Dtype", True), ("varlength", "Bool", True),
                                         ("unit", OSTR, False), ("name", OSTR, False), ("description", OSTR, False)], PM),
    "GeffMetadata": ("newGeffMetadata", [("geff_version", "String", True), ("directed", "Bool", True), ("axes", OAXES, True),
                                         ("node_props_metadata", PDICT, True), ("edge_props_metadata", PDICT, True)], META),
}
VIEW_ATTR = {"node_props_metadata": "PropsRef.node", "edge_props_metadata": "PropsRef.edge"}
NP_DTYPES = {"float16": ".f16", "float32": ".f32", "float64": ".f64", "object_": ".obj", "int64": ".i64"}
DTYPE_CONST = {"int64": ".i64", "uint64": ".u64", "float64": ".f64", "float32": ".f32"}

ORD = "[LT κ] [DecidableLT κ] "
FUNCS = {
    "axes_from_lists": {
        "lean": "axesFromLists", "tparams": "{κ : Type} " + ORD,
        "params": [("axis_names", "Option (List String)"), ("axis_units", OLOS), ("axis_types", OLOS), ("axis_scales", OLOS),
                   ("scaled_units", OLOS), ("axis_offset", OLOS), ("roi_min", OLOK), ("roi_max", OLOK)],
        "ret": "List (Axis κ)", "locals": {"axes": "List (Axis κ)", "i": "Nat"},
    },
    "update_metadata_axes": {
        "lean": "updateMetadataAxes", "tparams": "{κ : Type} " + ORD,
        "params": [("metadata", META), ("axis_names", "List String"), ("axis_units", OLOS), ("axis_types", OLOS),
                   ("axis_scales", OLOS), ("scaled_units", OLOS), ("axis_offset", OLOS)],
        "ret": META, "locals": {"new_meta": META, "axes": "List (Axis κ)"},
    },
    "create_or_update_metadata": {
        "lean": "createOrUpdateMetadata", "tparams": "{κ : Type} " + ORD, "consts": [("GEFF_VERSION", "String")],
        "params": [("metadata", "Option (Meta κ)"), ("is_directed", "Bool"), ("axes", OAXES)],
        "ret": "Option (Meta κ)", "locals": {},
    },
    "add_or_update_props_metadata": {
        "lean": "addOrUpdatePropsMetadata", "tparams": "{κ : Type} ",
        "params": [("metadata", META), ("props_md", "List PropMeta"), ("c_type", "String")],
        "ret": META, "locals": {"md_dict": PDICT, "prop": PM},
        "views": {"existing_props": "metadata"},
    },
    "create_props_metadata": {
        "lean": "createPropsMetadata", "tparams": "{κ : Type} ",
        "params": [("identifier", "String"), ("prop_data", PDATA), ("unit", OSTR), ("name", OSTR), ("description", OSTR)],
        "ret": PM, "mutates": ["prop_data"],
        "locals": {"values": VALUES, "varlength": "Bool", "dtype": "Dtype", "array": "Elem"},
    },
    "compute_and_add_axis_min_max": {
        "lean": "computeAndAddAxisMinMax", "tparams": "{κ : Type} " + ORD + "[Min κ] [Max κ] ",
        "params": [("metadata", META), ("node_props", NPROPS)],
        "ret": META,
        "locals": {"new_meta": META, "new_axes": "List (Axis κ)", "axis": AXIS, "prop": PDATA, "values": VALUES,
                   "missing": "Option (List Bool)"},
    },
}
ORDER = ["axes_from_lists", "update_metadata_axes", "create_or_update_metadata", "add_or_update_props_metadata",
         "create_props_metadata", "compute_and_add_axis_min_max"]


def _is_mod(node, mod, attr):
    return (isinstance(node, ast.Attribute) and node.attr == attr and isinstance(node.value, ast.Name)
            and node.value.id == mod)


def _coerce(e, t, want):
    """`T` where `Option T` is expected -> `some e`"""
    if t == want or want is None:
        return e, t
    if want == f"Option {t}" or want == f"Option ({t})":
        return f"(some {e})", want
    if t == "Option ?" and want.startswith("Option "):
        return e, want
    raise Unsupported(f"expected {want}, got {t}")


def _elt(t):
    """element type of `List T`"""
    x = t[5:]
    return x[1:-1] if x.startswith("(") and x.endswith(")") else x


class MFn(Fn):
    def __init__(self, spec, fdefs, validating):
        super().__init__(spec)
        self.env.update(dict(spec.get("consts", [])))
        self.locals = dict(spec["locals"])
        self.locals.update(dict(spec["params"]))
        self.views = dict(spec.get("views", {}))           # view variable -> root variable
        self.view_taken: set[str] = set()                  # roots of which a view exists
        self.unbound: set[str] = set()                     # Option-typed "maybe unbound" locals
        self.fdefs = fdefs                                  # python name -> ast.FunctionDef (for defaults)
        self.validating = validating                        # Lean class type -> bool
        self.loop_depth = 0

    # ------------------------------------------------------------ expressions
    def bind(self, binds, action, ty):
        t = self.fresh()
        binds.append(f"let {t} : {ty} ← {action}")
        return t, ty

    def view(self, name, binds):
        """the dict a view variable denotes: (`ref`, root, text of the dict)"""
        root = self.views[name]
        if name not in self.env:
            raise Unsupported(f"view {name} read before any assignment")
        ref, _ = self.bind(binds, f"bound {camel(name)}", "PropsRef")
        return ref, camel(root), f"({ref}.get {camel(root)})"

    def expr(self, n, binds, want=None):
        if isinstance(n, ast.Name):
            if n.id in self.views:
                return self.view(n.id, binds)[2], PDICT
            if n.id in dict(self.spec.get("consts", [])):
                return camel(n.id.lower()), self.env[n.id]
            return super().expr(n, binds, want)
        if isinstance(n, ast.Constant) and isinstance(n.value, str):
            return lean_str(n.value), "String"
        if isinstance(n, ast.Dict) and not n.keys:
            if want is None or not want.startswith("List (String × "):
                raise Unsupported("empty dict of unknown type")
            return "[]", want
        if isinstance(n, ast.IfExp):
            c, tc = self.expr(n.test, binds)
            if tc not in ("Bool", "Prop"):
                raise Unsupported("condition of a conditional expression")
            ba: list[str] = []
            bb: list[str] = []
            a, ta = self.expr(n.body, ba, want)
            b, tb = self.expr(n.orelse, bb, want)
            if ta == "Option ?" and tb != "Option ?":
                a, ta = _coerce(a, ta, tb if tb.startswith("Option ") else f"Option {tb}")
            if tb == "Option ?" and ta != "Option ?":
                b, tb = _coerce(b, tb, ta if ta.startswith("Option ") else f"Option {ta}")
            if ta != tb:
                if tb == f"Option {ta}":
                    a, ta = f"(some {a})", tb
                elif ta == f"Option {tb}":
                    b, tb = f"(some {b})", ta
                else:
                    raise Unsupported(f"conditional expression of types {ta} / {tb}")
            if not ba and not bb:
                return f"(if {c} then {a} else {b})", ta

            def arm(bs, e):
                return f"(pure {e})" if not bs else "(do " + "; ".join(bs) + f"; pure {e})"
            return self.bind(binds, f"(if {c} then {arm(ba, a)} else {arm(bb, b)})", ta)
        if isinstance(n, ast.Compare) and len(n.ops) == 1 and isinstance(n.ops[0], (ast.In, ast.NotIn)):
            k, tk = self.expr(n.left, binds)
            d, td = self.expr(n.comparators[0], binds)
            if tk != "String" or not td.startswith("List (String × "):
                raise Unsupported(f"`in` on {tk}, {td}")
            e = f"dictContains {d} {k}"
            return (e if isinstance(n.ops[0], ast.In) else f"!({e})"), "Bool"
        if isinstance(n, ast.Attribute):
            if _is_mod(n, "np", n.attr) and n.attr in NP_DTYPES:
                return NP_DTYPES[n.attr], "Dtype"
            e, t = self.expr(n.value, binds)
            if t in FIELDS and n.attr in FIELDS[t]:
                f, ft = FIELDS[t][n.attr]
                return f"{e}.{f}", ft
            if t == VALUES and n.attr == "dtype":
                return f"(Values.dtype {e})", "Dtype"
            if t == "Elem" and n.attr == "dtype":
                return f"(elemDtype {e})", "Dtype"
            raise Unsupported(f"attribute .{n.attr} of {t}")
        if isinstance(n, ast.Subscript):
            e, t = self.expr(n.value, binds)
            if t == PDATA and isinstance(n.slice, ast.Constant) and n.slice.value in ("values", "missing"):
                return f"{e}.{n.slice.value}", {"values": VALUES, "missing": "Option (List Bool)"}[n.slice.value]
            if isinstance(n.slice, ast.Slice):
                raise Unsupported(f"slice {ast.unparse(n)}")
            i, ti = self.expr(n.slice, binds)
            if t.startswith("List (String × ") and ti == "String":
                return self.bind(binds, f"dictGetItem {e} {i}", t[len("List (String × "):-1])
            if t.startswith("Option (List ") and ti == "Nat":
                return self.bind(binds, f"getItemOpt {e} {i}", _elt(t[len("Option ("):-1]))
            if t == VALUES and ti == "Nat":
                return self.bind(binds, f"Values.getItem {e} {i}", "Elem")
            if t == VALUES and ti == "List Bool":
                return self.bind(binds, f"Values.maskIndex {e} {i}", VALUES)
            raise Unsupported(f"subscript {ast.unparse(n)} ({t}[{ti}])")
        return super().expr(n, binds, want)

    def ctor(self, cls, n, binds):
        prim, fields, ty = CTORS[cls]
        if n.args:
            raise Unsupported(f"positional argument of {cls}(…)")
        kw = {}
        for k in n.keywords:
            if k.arg is None or k.arg in kw:
                raise Unsupported(f"keyword of {cls}(…)")
            kw[k.arg] = k.value
        unknown = set(kw) - {f for f, _, _ in fields}
        if unknown:
            raise Unsupported(f"{cls}(…): keyword(s) {sorted(unknown)} outside the model")
        # Python evaluates the keyword values in SOURCE order (it matters for which operation raises first)
        ftype = {f: ft for f, ft, _ in fields}
        val = {}
        for f in kw:
            e, t = self.expr(kw[f], binds, want=ftype[f])
            val[f] = _coerce(e, t, ftype[f])[0]
        args = []
        for f, ft, req in fields:
            if f not in kw:
                if req:
                    raise Unsupported(f"{cls}(…): required keyword {f} missing")
                args.append("none")
                continue
            args.append(val[f])
        return self.bind(binds, f"{prim} " + " ".join(args), ty)

    def call(self, n, binds):
        f = n.func
        src = ast.unparse(n)
        if isinstance(f, ast.Name) and f.id in CTORS:
            return self.ctor(f.id, n, binds)
        if isinstance(f, ast.Name) and f.id == "isinstance" and len(n.args) == 2 and isinstance(n.args[1], ast.Name) \
                and n.args[1].id == "dict":
            e, t = self.expr(n.args[0], binds)
            if t != PDATA:
                raise Unsupported(f"isinstance(…, dict) on {t}")
            return f"isDict {e}", "Bool"
        if isinstance(f, ast.Name) and f.id == "len" and len(n.args) == 1 and not n.keywords:
            e, t = self.expr(n.args[0], binds)
            if t.startswith("Option (List "):
                return self.bind(binds, f"lenOpt {e}", "Nat")
            if t == VALUES:
                return f"(Values.len {e})", "Nat"
            if t.startswith("List "):
                return f"{e}.length", "Nat"
            raise Unsupported(f"len of {t}")
        if _is_mod(f, "copy", "deepcopy") and len(n.args) == 1 and not n.keywords:
            e, t = self.expr(n.args[0], binds)
            return f"(deepcopy {e})", t
        if isinstance(f, ast.Attribute) and f.attr == "model_copy" and not n.args and not n.keywords:
            e, t = self.expr(f.value, binds)
            if t not in FIELDS:
                raise Unsupported(f"model_copy of {t}")
            return f"(modelCopy {e})", t
        if _is_mod(f, "np", "issubdtype") and len(n.args) == 2 and not n.keywords:
            a, ta = self.expr(n.args[0], binds)
            c = n.args[1]
            if ta != "Dtype" or not (isinstance(c, ast.Attribute) and _is_mod(c, "np", c.attr) and c.attr in ("float16", "object_")):
                raise Unsupported(f"issubdtype {src}")
            return f"issubdtype {a} {NP_DTYPES[c.attr]}", "Bool"
        if _is_mod(f, "np", "dtype") and len(n.args) == 1 and isinstance(n.args[0], ast.Constant) \
                and n.args[0].value in DTYPE_CONST and not n.keywords:
            return DTYPE_CONST[n.args[0].value], "Dtype"
        if isinstance(f, ast.Attribute) and f.attr == "astype" and len(n.args) == 1 and not n.keywords:
            e, t = self.expr(f.value, binds)
            d, td = self.expr(n.args[0], binds)
            if (t, td) != (VALUES, "Dtype"):
                raise Unsupported(f"astype {src}")
            return self.bind(binds, f"Values.astype {e} {d}", VALUES)
        if _is_mod(f, "np", "logical_not") and len(n.args) == 1 and not n.keywords:
            e, t = self.expr(n.args[0], binds)
            if t != "Option (List Bool)":
                raise Unsupported(f"logical_not of {t}")
            return self.bind(binds, f"logicalNot {e}", "List Bool")
        # np.min(values).item() / np.max(values).item()
        if (isinstance(f, ast.Attribute) and f.attr == "item" and not n.args and not n.keywords
                and isinstance(f.value, ast.Call) and isinstance(f.value.func, ast.Attribute)
                and f.value.func.attr in ("min", "max") and _is_mod(f.value.func, "np", f.value.func.attr)
                and len(f.value.args) == 1 and not f.value.keywords):
            e, t = self.expr(f.value.args[0], binds)
            if t != VALUES:
                raise Unsupported(f"np.{f.value.func.attr} of {t}")
            return self.bind(binds, f"{'npMinItem' if f.value.func.attr == 'min' else 'npMaxItem'} {e}", "κ")
        # a call of another translated function (positional and keyword arguments)
        if isinstance(f, ast.Name) and f.id in FUNCS:
            spec = FUNCS[f.id]
            if spec.get("consts") or spec.get("mutates"):
                raise Unsupported(f"call of {f.id} (constants / in-place edits)")
            given = {}
            for (p, _), a in zip(spec["params"], n.args):
                given[p] = a
            if len(n.args) > len(spec["params"]):
                raise Unsupported(f"call {src}: too many arguments")
            for k in n.keywords:
                if k.arg is None or k.arg in given or k.arg not in dict(spec["params"]):
                    raise Unsupported(f"call {src}: keyword {k.arg}")
                given[k.arg] = k.value
            fd = self.fdefs.get(f.id)
            if fd is None:
                raise Unsupported(f"call of {f.id}: definition not found")
            pos = [a.arg for a in fd.args.args]
            dflt = dict(zip(pos[len(pos) - len(fd.args.defaults):], fd.args.defaults))
            args = []
            for p, pt in spec["params"]:
                if p in given:
                    e, t = self.expr(given[p], binds, want=pt)
                    e, t = _coerce(e, t, pt)
                else:
                    d = dflt.get(p)
                    if not (isinstance(d, ast.Constant) and d.value is None) or not pt.startswith("Option "):
                        raise Unsupported(f"call {src}: omitted argument {p} whose default is not None")
                    e = "none"
                args.append(e)
            return self.bind(binds, f"{spec['lean']} " + " ".join(args), spec["ret"])
        raise Unsupported(f"call {src}")

    # ------------------------------------------------------------ statements
    def assign(self, name, value, out, ind):
        if name in self.view_taken:
            raise Unsupported(f"{name} is reassigned after a view of it was taken")
        if name in self.views:
            # view = root.attr
            root = self.views[name]
            if not (isinstance(value, ast.Attribute) and isinstance(value.value, ast.Name) and value.value.id == root
                    and value.attr in VIEW_ATTR):
                raise Unsupported(f"view {name} assigned {ast.unparse(value)}")
            if name not in self.env:
                raise Unsupported(f"view {name} is not declared (internal)")
            self.view_taken.add(root)
            out.append(ind + f"{camel(name)} := some {VIEW_ATTR[value.attr]}")
            return
        want = self.locals.get(name)
        if want is None:
            raise Unsupported(f"variable {name} is not in the typing table")
        binds: list[str] = []
        e, t = self.expr(value, binds, want=want)
        e, t = _coerce(e, t, want)
        for b in binds:
            out.append(ind + b)
        first = name not in self.env
        self.env[name] = want
        out.append(ind + (f"let mut {camel(name)} : {want} := {e}" if first else f"{camel(name)} := {e}"))

    def set_attr(self, tgt, value, out, ind):
        """`x.attr = e`, `view[k].attr = e`"""
        binds: list[str] = []
        obj = tgt.value
        # view[k].attr = e
        if (isinstance(obj, ast.Subscript) and isinstance(obj.value, ast.Name) and obj.value.id in self.views):
            if self.validating[PM]:
                raise Unsupported("PropMetadata validates assignment: in-place edit is not a plain update")
            if tgt.attr not in FIELDS[PM]:
                raise Unsupported(f"attribute {tgt.attr} of PropMetadata")
            ref, root, d = self.view(obj.value.id, binds)
            k, tk = self.expr(obj.slice, binds)
            f, ft = FIELDS[PM][tgt.attr]
            e, t = self.expr(value, binds, want=ft)
            e, t = _coerce(e, t, ft)
            if tk != "String":
                raise Unsupported(f"dict key of type {tk}")
            t1, _ = self.bind(binds, f"dictModify {d} {k} (fun o => {{ o with {f} := {e} }})", PDICT)
            for b in binds:
                out.append(ind + b)
            out.append(ind + f"{root} := {ref}.set {root} {t1}")
            return
        if not isinstance(obj, ast.Name) or obj.id not in self.env or obj.id in self.views:
            raise Unsupported(f"attribute assignment {ast.unparse(tgt)}")
        if obj.id in self.view_taken:
            raise Unsupported(f"{obj.id} is edited directly after a view of it was taken")
        x, tx = camel(obj.id), self.env[obj.id]
        opt = tx.startswith("Option ") and tx[8:-1] in FIELDS if tx.startswith("Option (") else False
        cls = tx[8:-1] if opt else tx
        if cls not in FIELDS or tgt.attr not in FIELDS[cls]:
            raise Unsupported(f"attribute {tgt.attr} of {tx}")
        f, ft = FIELDS[cls][tgt.attr]
        e, t = self.expr(value, binds, want=ft)
        e, t = _coerce(e, t, ft)
        for b in binds:
            out.append(ind + b)
        if self.validating[cls]:
            setter = f"Meta.set{f[0].upper()}{f[1:]}"
            if cls != META or f not in ("geffVersion", "directed", "axes"):
                raise Unsupported(f"validated assignment of {cls}.{tgt.attr} has no primitive")
            tmp = self.fresh()
            if opt:
                out.append(ind + f"let {tmp} ← onObj {x} (fun o => {setter} o {e})")
            else:
                out.append(ind + f"let {tmp} ← {setter} {x} {e}")
            out.append(ind + f"{x} := {tmp}")
        else:
            if opt:
                raise Unsupported(f"attribute assignment on optional {cls}")
            out.append(ind + f"{x} := {{ {x} with {f} := {e} }}")

    def set_item(self, tgt, value, out, ind):
        """`d[k] = v` on a local dict, `prop_data["values"] = v`"""
        binds: list[str] = []
        if not isinstance(tgt.value, ast.Name) or tgt.value.id not in self.env or tgt.value.id in self.views:
            raise Unsupported(f"item assignment {ast.unparse(tgt)}")
        x, tx = camel(tgt.value.id), self.env[tgt.value.id]
        if tx == PDATA and isinstance(tgt.slice, ast.Constant) and tgt.slice.value in ("values", "missing"):
            if tgt.value.id not in self.spec.get("mutates", []) and tgt.value.id in dict(self.spec["params"]):
                raise Unsupported(f"in-place edit of parameter {tgt.value.id} that the table does not list as mutated")
            ft = {"values": VALUES, "missing": "Option (List Bool)"}[tgt.slice.value]
            e, t = self.expr(value, binds, want=ft)
            e, t = _coerce(e, t, ft)
            for b in binds:
                out.append(ind + b)
            out.append(ind + f"{x} := {{ {x} with {tgt.slice.value} := {e} }}")
            return
        if tx.startswith("List (String × ") and tgt.value.id not in dict(self.spec["params"]):
            vt = tx[len("List (String × "):-1]
            k, tk = self.expr(tgt.slice, binds)
            e, t = self.expr(value, binds, want=vt)
            if tk != "String" or t != vt:
                raise Unsupported(f"item assignment {ast.unparse(tgt)}: {tk} -> {t}")
            for b in binds:
                out.append(ind + b)
            out.append(ind + f"{x} := dictSetItem {x} {k} {e}")
            return
        raise Unsupported(f"item assignment {ast.unparse(tgt)}")

    @staticmethod
    def assigned_names(stmts):
        """names bound by assignment statements anywhere in `stmts` (not loop targets)"""
        out = []
        for s in stmts:
            for n in ast.walk(s):
                if isinstance(n, (ast.Assign, ast.AnnAssign, ast.AugAssign)):
                    tg = n.targets if isinstance(n, ast.Assign) else [n.target]
                    for t in tg:
                        if isinstance(t, ast.Name) and t.id not in out:
                            out.append(t.id)
        return out

    def definitely(self, stmts, name):
        """every path through `stmts` assigns `name` before reading it, or raises"""
        for s in stmts:
            if isinstance(s, (ast.Assign, ast.AnnAssign)):
                tg = s.targets if isinstance(s, ast.Assign) else [s.target]
                val = s.value
                if val is not None and any(isinstance(x, ast.Name) and x.id == name for x in ast.walk(val)):
                    return False
                if any(isinstance(t, ast.Name) and t.id == name for t in tg):
                    return True
                continue
            if isinstance(s, ast.Raise):
                return True
            if isinstance(s, ast.If):
                if any(isinstance(x, ast.Name) and x.id == name for x in ast.walk(s.test)):
                    return False
                if s.orelse and self.definitely(s.body, name) and self.definitely(s.orelse, name):
                    return True
                if any(isinstance(x, ast.Name) and x.id == name for b in (s.body, s.orelse) for st in b for x in ast.walk(st)):
                    return False
                continue
            if any(isinstance(x, ast.Name) and x.id == name for x in ast.walk(s)):
                return False
        return False

    def predeclare(self, s, out, ind):
        """variables first assigned inside the conditional statement `s`"""
        arms = [s.body, s.orelse] if isinstance(s, ast.If) else [c.body for c in s.cases]
        new = [v for v in self.assigned_names([st for a in arms for st in a]) if v not in self.env]
        for v in new:
            if v in self.views:
                self.env[v] = "Option PropsRef"
                self.unbound.add(v)
                out.append(ind + f"let mut {camel(v)} : Option PropsRef := none")
                continue
            ty = self.locals.get(v)
            if ty is None:
                raise Unsupported(f"variable {v} is not in the typing table")
            if not (isinstance(s, ast.If) and s.orelse and all(self.definitely(a, v) for a in arms)):
                raise Unsupported(f"variable {v} is first assigned on only some paths of a conditional")
            if ty not in ("Bool", "Dtype", "Nat", "String") and not ty.startswith(("Option ", "List ")):
                raise Unsupported(f"no placeholder for a variable of type {ty}")
            self.env[v] = ty
            out.append(ind + f"let mut {camel(v)} : {ty} := default")

    def stmt(self, s, out, ind):
        if isinstance(s, ast.Expr) and isinstance(s.value, ast.Constant) and isinstance(s.value.value, str):
            return
        if isinstance(s, ast.AnnAssign) and isinstance(s.target, ast.Name) and s.value is not None:
            return self.assign(s.target.id, s.value, out, ind)
        if isinstance(s, ast.Assign) and len(s.targets) == 1:
            t = s.targets[0]
            if isinstance(t, ast.Name):
                return self.assign(t.id, s.value, out, ind)
            if isinstance(t, ast.Attribute):
                return self.set_attr(t, s.value, out, ind)
            if isinstance(t, ast.Subscript):
                return self.set_item(t, s.value, out, ind)
        if isinstance(s, ast.Expr) and isinstance(s.value, ast.Call):
            c = s.value
            if _is_mod(c.func, "warnings", "warn"):
                return                                            # a warning does not raise
            if (isinstance(c.func, ast.Attribute) and c.func.attr == "update" and isinstance(c.func.value, ast.Name)
                    and c.func.value.id in self.views and len(c.args) == 1 and not c.keywords):
                binds: list[str] = []
                ref, root, d = self.view(c.func.value.id, binds)
                e, t = self.expr(c.args[0], binds)
                if t != PDICT:
                    raise Unsupported(f"update with {t}")
                for b in binds:
                    out.append(ind + b)
                out.append(ind + f"{root} := {ref}.set {root} (dictUpdate {d} {e})")
                return
            if (isinstance(c.func, ast.Attribute) and c.func.attr == "append" and isinstance(c.func.value, ast.Name)
                    and len(c.args) == 1 and not c.keywords):
                name = c.func.value.id
                ty = self.env.get(name, "")
                if not ty.startswith("List ") or name in dict(self.spec["params"]):
                    raise Unsupported(f"append on {name} : {ty}")
                binds = []
                e, t = self.expr(c.args[0], binds)
                if _elt(ty) != t:
                    raise Unsupported(f"append of {t} to {ty}")
                for b in binds:
                    out.append(ind + b)
                out.append(ind + f"{camel(name)} := {camel(name)} ++ [{e}]")
                return
        if isinstance(s, ast.Raise):
            exc = s.exc.func.id if isinstance(s.exc, ast.Call) and isinstance(s.exc.func, ast.Name) else None
            if exc not in EXC:
                raise Unsupported(f"raise {ast.unparse(s.exc) if s.exc else ''}")
            out.append(ind + EXC[exc])
            return
        if isinstance(s, ast.Return):
            if s.value is None:
                raise Unsupported("bare return")
            binds = []
            e, t = self.expr(s.value, binds, want=self.spec["ret"])
            e, t = _coerce(e, t, self.spec["ret"])
            for b in binds:
                out.append(ind + b)
            mut = [camel(m) for m in self.spec.get("mutates", [])]
            out.append(ind + ("return " + (f"({', '.join([e] + mut)})" if mut else e)))
            return
        if isinstance(s, ast.Continue):
            if not self.loop_depth:
                raise Unsupported("continue outside a loop")
            out.append(ind + "continue")
            return
        if isinstance(s, ast.If):
            self.predeclare(s, out, ind)
            c = self.cond(s.test, out, ind)
            out.append(ind + f"if {c} then")
            self.scoped(s.body, out, ind + "  ")
            if s.orelse:
                out.append(ind + "else")
                self.scoped(s.orelse, out, ind + "  ")
            return
        if isinstance(s, ast.Match):
            binds = []
            subj, ts = self.expr(s.subject, binds)
            if ts != "String":
                raise Unsupported(f"match on {ts}")
            self.predeclare(s, out, ind)
            for b in binds:
                out.append(ind + b)
            out.append(ind + f"match {subj} with")
            seen = set()
            for c in s.cases:
                p = c.pattern
                if c.guard is not None or not (isinstance(p, ast.MatchValue) and isinstance(p.value, ast.Constant)
                                               and isinstance(p.value.value, str)) or p.value.value in seen:
                    raise Unsupported(f"case {ast.unparse(p)}")
                seen.add(p.value.value)
                out.append(ind + f"| {lean_str(p.value.value)} =>")
                self.scoped(c.body, out, ind + "  ")
            out.append(ind + "| _ => pure ()")
            return
        if isinstance(s, ast.For) and not s.orelse and isinstance(s.target, ast.Name):
            binds = []
            it = s.iter
            if (isinstance(it, ast.Call) and isinstance(it.func, ast.Name) and it.func.id == "range"
                    and len(it.args) == 1 and not it.keywords):
                e, t = self.expr(it.args[0], binds)
                if t != "Nat":
                    raise Unsupported(f"range of {t}")
                coll, elt = f"List.range {e}", "Nat"
            else:
                e, t = self.expr(it, binds)
                if t.startswith("Option (List "):
                    e, t = self.bind(binds, f"iterOpt {e}", t[len("Option ("):-1])
                elif t == VALUES:
                    e, t = self.bind(binds, f"Values.iter {e}", "List Elem")
                if not t.startswith("List "):
                    raise Unsupported(f"iteration over {t}")
                coll, elt = e, _elt(t)
            for b in binds:
                out.append(ind + b)
            name = s.target.id
            if self.locals.get(name, elt) != elt or name in dict(self.spec["params"]):
                raise Unsupported(f"loop variable {name}: {elt}")
            if name in self.env:
                raise Unsupported(f"loop variable {name} shadows a live variable")
            self.env[name] = elt
            out.append(ind + f"for {camel(name)} in {coll} do")
            body_assigns = name in self.assigned_names(s.body) or any(
                isinstance(x, ast.Assign) and isinstance(x.targets[0], ast.Attribute) and isinstance(x.targets[0].value, ast.Name)
                and x.targets[0].value.id == name for st in s.body for x in ast.walk(st))
            if body_assigns:
                out.append(ind + f"  let mut {camel(name)} := {camel(name)}")
            self.loop_depth += 1
            self.scoped(s.body, out, ind + "  ")
            self.loop_depth -= 1
            del self.env[name]
            return
        raise Unsupported(f"statement {type(s).__name__}: {ast.unparse(s)[:60]}")

    def scoped(self, stmts, out, ind):
        """a nested block: variables first declared inside it are not visible after it (Lean scoping;
        a later use is then refused as an unknown variable)"""
        before = set(self.env)
        n0 = len(out)
        for s in stmts:
            self.stmt(s, out, ind)
        if len(out) == n0:
            out.append(ind + "pure ()")
        for v in set(self.env) - before:
            del self.env[v]

    def cond(self, test, out, ind):
        """`A and B` / `A or B` whose later operands contain operations that can raise: Python's short
        circuit as ONE monadic expression `(if A then (do …; pure B) else (pure false))` bound to a Boolean
        (no mutable accumulator: the term stays first-order for the proofs)"""
        if isinstance(test, ast.BoolOp):
            probe: list[str] = []
            saved = self.tmp
            for v in test.values[1:]:
                self.expr(v, probe)
            self.tmp = saved
            if probe:
                e = self.short_circuit(test.values, isinstance(test.op, ast.Or))
                t = f"c{self.fresh()}"
                out.append(ind + f"let {t} : Bool ← {e}")
                return t
        binds: list[str] = []
        c, tc = self.expr(test, binds)
        if tc not in ("Bool", "Prop"):
            raise Unsupported(f"condition of type {tc}")
        for b in binds:
            out.append(ind + b)
        return c

    def short_circuit(self, values, is_or):
        binds: list[str] = []
        e, t = self.expr(values[0], binds)
        if t not in ("Bool", "Prop"):
            raise Unsupported(f"condition operand of type {t}")
        e = f"decide ({e})" if t == "Prop" else e
        if len(values) == 1:
            body = f"pure ({e})"
        else:
            rest = self.short_circuit(values[1:], is_or)
            body = f"if {e} then (pure true) else {rest}" if is_or else f"if {e} then {rest} else (pure false)"
        return "(do " + "; ".join(binds + [body]) + ")" if binds else f"({body})"


def class_flags(repo: Path):
    """does assignment to a field of the pydantic class validate (model_config validate_assignment=True)?"""
    flags = {}
    for cls, rel in CLASS_SRC.items():
        tree = ast.parse((repo / rel).read_text())
        cdef = next((n for n in tree.body if isinstance(n, ast.ClassDef) and n.name == cls), None)
        if cdef is None:
            raise Unsupported(f"class {cls} not found in {rel}")
        if not any(isinstance(b, ast.Name) and b.id == "BaseModel" for b in cdef.bases):
            raise Unsupported(f"class {cls} is not a pydantic BaseModel")
        val = False
        for st in cdef.body:
            if isinstance(st, ast.Assign) and any(isinstance(t, ast.Name) and t.id == "model_config" for t in st.targets):
                if not (isinstance(st.value, ast.Call) and isinstance(st.value.func, ast.Name) and st.value.func.id == "ConfigDict"):
                    raise Unsupported(f"model_config of {cls}")
                for k in st.value.keywords:
                    if k.arg == "validate_assignment":
                        if not isinstance(k.value, ast.Constant) or not isinstance(k.value.value, bool):
                            raise Unsupported(f"validate_assignment of {cls}")
                        val = k.value.value
            if isinstance(st, ast.FunctionDef) and st.name == "__setattr__" and cls != "GeffMetadata":
                raise Unsupported(f"{cls} defines __setattr__")
        flags[cls] = val
    return flags


def translate_function(fn: ast.FunctionDef, spec, fdefs, validating) -> str:
    tr = MFn(spec, fdefs, validating)
    if [a.arg for a in fn.args.args] != [p for p, _ in spec["params"]] or fn.args.vararg or fn.args.kwarg \
            or fn.args.kwonlyargs or fn.args.posonlyargs:
        raise Unsupported(f"signature of {fn.name} changed: {[a.arg for a in fn.args.args]}")
    body: list[str] = []
    # decorators: only `@validate_call`, which checks the Literal[...] parameters at entry
    for d in fn.decorator_list:
        if not (isinstance(d, ast.Name) and d.id == "validate_call"):
            raise Unsupported(f"decorator {ast.unparse(d)}")
        for a in fn.args.args:
            ann = a.annotation
            if (isinstance(ann, ast.Subscript) and isinstance(ann.value, ast.Name) and ann.value.id == "Literal"):
                elts = ann.slice.elts if isinstance(ann.slice, ast.Tuple) else [ann.slice]
                if not all(isinstance(x, ast.Constant) and isinstance(x.value, str) for x in elts) \
                        or dict(spec["params"]).get(a.arg) != "String":
                    raise Unsupported(f"Literal annotation of {a.arg}")
                test = " || ".join(f"{camel(a.arg)} == {lean_str(x.value)}" for x in elts)
                body.append(f"  if !({test}) then")
                body.append("    raiseValueError")
    # parameters that are reassigned or edited in place become mutable locals
    assigned = set(MFn.assigned_names(fn.body))
    for n in ast.walk(fn):
        if isinstance(n, ast.Assign) and isinstance(n.targets[0], (ast.Attribute, ast.Subscript)) \
                and isinstance(n.targets[0].value, ast.Name):
            assigned.add(n.targets[0].value.id)
    for v in spec.get("views", {}).values():
        assigned.add(v)
    for p, t in spec["params"]:
        if p in assigned:
            body.append(f"  let mut {camel(p)} : {t} := {camel(p)}")
    stmts = fn.body
    for s in stmts:
        tr.stmt(s, body, "  ")
    if not isinstance(stmts[-1], ast.Return):
        raise Unsupported("the function does not end with a return")
    consts = "".join(f"({camel(c.lower())} : {t}) " for c, t in spec.get("consts", []))
    params = " ".join(f"({camel(p)} : {t})" for p, t in spec["params"])
    head = f"def {spec['lean']} {spec['tparams']}{consts}{params} : Res ({ret_type(spec)}) := do"
    return "\n".join([head, *body])


def ret_type(spec):
    mut = [dict(spec["params"])[m] for m in spec.get("mutates", [])]
    return " × ".join([spec["ret"], *mut])


def stub(spec) -> str:
    consts = "".join(f"(_{camel(c.lower())} : {t}) " for c, t in spec.get("consts", []))
    params = " ".join(f"(_{camel(p)} : {t})" for p, t in spec["params"])
    return (f"def {spec['lean']} {spec['tparams']}{consts}{params} : Res ({ret_type(spec)}) := "
            ".error (.unmodelled \"untranslated\")")


def run(repo: Path, out: Path):
    errors = {}
    defs = []
    flags = {"Axis": False, "PropMetadata": False, "GeffMetadata": True}
    try:
        tree = ast.parse((repo / SRC).read_text())
        fns = {n.name: n for n in tree.body if isinstance(n, ast.FunctionDef)}
    except Exception as e:  # noqa: BLE001
        fns = {}
        errors["parse"] = f"{type(e).__name__}: {e}"
    try:
        flags = class_flags(repo)
    except Exception as e:  # noqa: BLE001
        errors["classes"] = f"{type(e).__name__}: {e}"
    validating = {lean: flags[py] for lean, py in PY_CLASS.items()}
    for name in ORDER:
        spec = FUNCS[name]
        try:
            if name not in fns:
                raise Unsupported(f"function {name} not found")
            text = translate_function(fns[name], spec, fns, validating)
            defs.append(f"/-- `{name}` ({SRC}:{fns[name].lineno}) -/\n" + text)
        except Unsupported as e:
            errors[name] = str(e)
            defs.append(f"/-- `{name}`: NOT TRANSLATED ({e}) -/\n" + stub(spec))
    ok = not errors
    body = "import GeffModel.PyDoMeta\n" + HEADER
    body += "/-! `geff_spec/utils.py`, statement by statement (translator T14). -/\n"
    body += "namespace Gen.MetaUtils\nopen Geff.Np Geff.MetaW Geff.PyDoMeta\n\n"
    body += f"def translationOk : Bool := {'true' if ok else 'false'}\n"
    body += "/-- does assignment to a field validate (`validate_assignment` in the class's `model_config`)? -/\n"
    body += f"def axisValidatesAssignment : Bool := {'true' if flags['Axis'] else 'false'}\n"
    body += f"def propMetadataValidatesAssignment : Bool := {'true' if flags['PropMetadata'] else 'false'}\n"
    body += f"def geffMetadataValidatesAssignment : Bool := {'true' if flags['GeffMetadata'] else 'false'}\n\n"
    body += "\n\n".join(defs) + "\n\nend Gen.MetaUtils\n"
    write_if_changed(out / "MetaUtils.lean", body)
    return {"ok": ok, **({"error": "; ".join(f"{k}: {v}" for k, v in errors.items())} if errors else {})}
