"""T22: geff/core_io/_base_write.py -> lean/Gen/BaseWrite.lean  (Python -> Lean `do`-notation).

`write_id_arrays`, `write_props_arrays` and `write_arrays` are translated *statement by statement*
from the AST of the working tree (parsed, never imported) into Lean `do`-blocks in the outcome monad
of `GeffModel/WriteRead.lean` (`Except Err`), in the style of T12 (`t12_pydo_serialization.py`).

The zarr store is threaded explicitly: every generated function takes the store content `s : St`
first and returns it (together with the dicts the Python code edits in place: `props`, `node_props`,
`edge_props`); the Python variable `geff_store` is a token (`StoreRef`); a zarr group handle is the
path of the group.  A call that touches the store (`setup_zarr_group`, `require_group`,
`create_group`, `group[path] = array`, `delete_geff`, `metadata.write`, the translated functions
themselves) becomes `let t ← prim s …` followed by `s := …`.  `if x is not None:` becomes a `match`
that binds the narrowed value (`xV`), a conjunction is nested left to right (Python's short circuit),
`try/except` becomes Lean's `try … catch e =>` with the exception class tested explicitly and every
other class re-raised, messages of exceptions and warnings are dropped.  `_path.X` is resolved from
`geff/_path.py` to its list of path segments (`[NODES, IDS]`).  The primitives are those of
`GeffModel/PyDoWrite.lean`; the var-length branch calls the GENERATED encoder of
`Gen/Serialization.lean` (T12).  `create_props_metadata`, `add_or_update_props_metadata`,
`compute_and_add_axis_min_max` (geff_spec/utils.py: T14's subject, over another metadata type),
`check_for_geff` / `delete_geff` / `setup_zarr_group` (T19's subject, over the key view) and
`validate_structure` (a parameter) are primitives here.

Anything outside the subset — another statement kind, an unknown call, attribute or variable, a
type the table does not predict, a changed signature — makes the translation of that function fail:
the Gen file then carries a stub and `translationOk := false`, which `GeffProps.C01Gen.translated`
requires to be `true`.  A translation that succeeds but computes something else breaks
`lake build GeffProps.C01Gen` (the generated functions are proved equal to the hand-written model).

Consumer: C01 (`GeffProofs/BaseWriteGen.lean`, `GeffProps/C01Gen.lean`)."""
from __future__ import annotations

import ast
from pathlib import Path

from harness.translate import HEADER, write_if_changed
from harness.translators.t12_pydo_serialization import Unsupported, camel

NAME = "T22_pydo_base_write"
PROPS = ["C01"]
SRC = "packages/geff/src/geff/core_io/_base_write.py"
PATHS_SRC = "packages/geff/src/geff/_path.py"

UNS = "Option UnsquishDict"
OPROPS = "Option Props"
OARR = "Option NdArr"
LPM = "List PropMeta"

FUNCS = {
    "write_id_arrays": {
        "lean": "writeIdArrays", "extra": "",
        "params": [("geff_store", "StoreRef"), ("node_ids", "NdArr"), ("edge_ids", "NdArr"), ("zarr_format", "Fmt")],
        "ret": None, "inout": [],
        "locals": {"geff_root": "Group"},
    },
    "write_props_arrays": {
        "lean": "writePropsArrays", "extra": "",
        "params": [("geff_store", "StoreRef"), ("group", "String"), ("props", "Props"), ("props_unsquish", UNS),
                   ("zarr_format", "Fmt")],
        "ret": LPM, "inout": ["props"],
        "locals": {"values": "PVals", "missing": OARR, "data": OARR, "replace_arrays": "Props", "geff_root": "Group",
                   "props_group": "Group", "prop_group": "Group", "metadata": LPM, "prop_metadata": "PropMeta"},
    },
    "write_arrays": {
        "lean": "writeArrays", "extra": "(validateStructure : St → Outcome Unit) ",
        "params": [("geff_store", "StoreRef"), ("node_ids", "NdArr"), ("node_props", OPROPS), ("edge_ids", "NdArr"),
                   ("edge_props", OPROPS), ("metadata", "CallerMeta"), ("node_props_unsquish", UNS),
                   ("edge_props_unsquish", UNS), ("zarr_format", "Fmt"), ("structure_validation", "Bool"),
                   ("overwrite", "Bool")],
        "ret": None, "inout": ["node_props", "edge_props"],
        "locals": {"node_meta": LPM, "edge_meta": LPM, "message": "Msg"},
    },
}
ORDER = ["write_id_arrays", "write_props_arrays", "write_arrays"]
EXC = {"ValueError": "raiseValueError", "TypeError": "raiseTypeError", "FileExistsError": "raiseFileExistsError"}
ERRC = {"ValueError": "Err.valueError", "TypeError": "Err.typeError", "KeyError": "Err.keyError",
        "IndexError": "Err.indexError", "FileExistsError": "Err.fileExists"}
ELEM = {"Props": ("String", "PropArr"), "UnsquishDict": ("String", "List String")}


def ret_type(spec):
    parts = ["St"] + [dict(spec["params"])[p] for p in spec["inout"]] + ([spec["ret"]] if spec["ret"] else [])
    return " × ".join(parts)


def load_paths(repo: Path) -> dict[str, list[str]]:
    """`_path.X` -> Lean list of segments.  A plain constant is the Gen.Paths name itself (or its
    literal pieces when it contains a separator); an f-string of names joined by '/' is the list of
    those names."""
    tree = ast.parse((repo / PATHS_SRC).read_text())
    out: dict[str, list[str]] = {}
    for node in tree.body:
        tgt = val = None
        if isinstance(node, ast.AnnAssign) and isinstance(node.target, ast.Name) and node.value is not None:
            tgt, val = node.target.id, node.value
        elif isinstance(node, ast.Assign) and len(node.targets) == 1 and isinstance(node.targets[0], ast.Name):
            tgt, val = node.targets[0].id, node.value
        if tgt is None:
            continue
        if isinstance(val, ast.Constant) and isinstance(val.value, str):
            out[tgt] = [tgt] if "/" not in val.value else [_lit(p) for p in val.value.split("/")]
        elif isinstance(val, ast.JoinedStr):
            out[tgt] = fstring_segments(val, lambda n: out.get(n))
    return out


def _lit(s: str) -> str:
    import json
    return json.dumps(s, ensure_ascii=False)


def fstring_segments(js: ast.JoinedStr, resolve) -> list[str]:
    """f"{a}/{b}" -> the segments [a, b] (each formatted value must be one whole segment list)"""
    segs: list[str] = []
    cur: list[str] | None = None          # the segment under construction (None: between separators)
    pending = ""
    for part in js.values:
        if isinstance(part, ast.Constant) and isinstance(part.value, str):
            pieces = part.value.split("/")
            for k, piece in enumerate(pieces):
                if k > 0:
                    if cur is None:
                        raise Unsupported("empty path segment in f-string")
                    segs += cur
                    cur = None
                if piece:
                    if cur is not None:
                        raise Unsupported("f-string segment made of several parts")
                    cur = [_lit(piece)]
        elif isinstance(part, ast.FormattedValue) and part.conversion == -1 and part.format_spec is None:
            if cur is not None:
                raise Unsupported("f-string segment made of several parts")
            r = resolve(part.value) if not isinstance(part.value, ast.Name) else (resolve(part.value.id) or resolve(part.value))
            if r is None:
                raise Unsupported(f"f-string part {ast.unparse(part.value)}")
            cur = list(r)
        else:
            raise Unsupported("f-string part")
    if cur is None:
        raise Unsupported("empty path segment in f-string")
    return segs + cur


class Fn:
    def __init__(self, spec, paths):
        self.spec = spec
        self.paths = paths
        self.env: dict[str, str] = dict(spec["params"])
        self.locals = spec["locals"]
        self.narrow: dict[str, tuple[str, str]] = {}
        self.tmp = 0

    def fresh(self):
        self.tmp += 1
        return f"t{self.tmp}"

    # ------------------------------------------------------------------ helpers
    def path_const(self, n):
        if (isinstance(n, ast.Attribute) and isinstance(n.value, ast.Name) and n.value.id == "_path"
                and n.attr in self.paths):
            return self.paths[n.attr]
        return None

    def rel(self, n, binds):
        """a relative zarr path: `_path.X`, an f-string of segments, or a String variable"""
        p = self.path_const(n)
        if p is not None:
            return "[" + ", ".join(p) + "]"
        if isinstance(n, ast.JoinedStr):
            def resolve(v):
                if isinstance(v, str):
                    return None
                pc = self.path_const(v)
                if pc is not None:
                    return pc
                e, t = self.expr(v, binds)
                return [e] if t == "String" else None
            return "[" + ", ".join(fstring_segments(n, resolve)) + "]"
        e, t = self.expr(n, binds)
        if t == "String":
            return f"[{e}]"
        raise Unsupported(f"zarr path {ast.unparse(n)}")

    def kwargs(self, call, names):
        """positional + keyword arguments of `call` against the parameter names `names`"""
        got = {}
        if len(call.args) > len(names):
            raise Unsupported(f"too many arguments: {ast.unparse(call)}")
        for a, nme in zip(call.args, names):
            got[nme] = a
        for k in call.keywords:
            if k.arg not in names or k.arg in got:
                raise Unsupported(f"keyword {k.arg} in {ast.unparse(call)}")
            got[k.arg] = k.value
        if set(got) != set(names):
            raise Unsupported(f"arguments of {ast.unparse(call)}: missing {set(names) - set(got)}")
        return [got[n] for n in names]

    def typed(self, n, binds, ty):
        e, t = self.expr(n, binds, want=ty)
        if t != ty:
            raise Unsupported(f"{ast.unparse(n)} : {t}, expected {ty}")
        return paren(e)

    # ------------------------------------------------------------------ expressions
    def expr(self, n, binds, want=None):
        key = ast.unparse(n)
        if key in self.narrow:
            return self.narrow[key]
        if isinstance(n, ast.Name):
            if n.id not in self.env:
                raise Unsupported(f"unknown variable {n.id}")
            return camel(n.id), self.env[n.id]
        if isinstance(n, ast.Constant):
            if n.value is None:
                if want is None or not want.startswith("Option "):
                    raise Unsupported("None of unknown type")
                return "none", want
            if isinstance(n.value, bool):
                return ("true" if n.value else "false"), "Bool"
            if isinstance(n.value, int) and n.value >= 0:
                return str(n.value), "Nat"
            if isinstance(n.value, str):
                return _lit(n.value), "String"
            raise Unsupported(f"constant {n.value!r}")
        if isinstance(n, ast.List):
            if not n.elts:
                if want is None or not want.startswith("List "):
                    raise Unsupported("empty list of unknown type")
                return "[]", want
            parts = []
            for e in n.elts:
                pc = self.path_const(e)
                if pc is not None and len(pc) == 1:
                    parts.append((pc[0], "String"))
                else:
                    parts.append(self.expr(e, binds))
            if len({t for _, t in parts}) != 1:
                raise Unsupported("list of mixed types")
            return "[" + ", ".join(p for p, _ in parts) + "]", f"List {parts[0][1]}"
        pc = self.path_const(n)
        if pc is not None and len(pc) == 1:
            return pc[0], "String"
        if isinstance(n, ast.Dict):
            keys = [k.value if isinstance(k, ast.Constant) else None for k in n.keys]
            if keys == ["values", "missing"]:
                v = self.typed(n.values[0], binds, "PVals")
                m = self.typed(n.values[1], binds, OARR)
                return f"{{ values := {v}, missing := {m} }}", "PropArr"
            if len(n.keys) == 1 and n.keys[0] is not None:
                k = self.typed(n.keys[0], binds, "String")
                v = self.typed(n.values[0], binds, "PropArr")
                return f"[({k}, {v})]", "Props"
            raise Unsupported(f"dict {ast.unparse(n)}")
        if isinstance(n, ast.UnaryOp) and isinstance(n.op, ast.Not):
            e, t = self.expr(n.operand, binds)
            if t != "Bool":
                raise Unsupported(f"not on {t}")
            return f"!({e})", "Bool"
        if isinstance(n, ast.BoolOp):
            parts = []
            for k, v in enumerate(n.values):
                sub: list[str] = []
                parts.append(self.expr(v, sub))
                if sub and k > 0:
                    raise Unsupported("operation that can raise in a later operand of and/or")
                binds += sub
            if not all(t == "Bool" for _, t in parts):
                raise Unsupported("non-Boolean operand of and/or")
            op = " || " if isinstance(n.op, ast.Or) else " && "
            return "(" + op.join(p for p, _ in parts) + ")", "Bool"
        if isinstance(n, ast.Compare) and len(n.ops) == 1:
            op, l, r = n.ops[0], n.left, n.comparators[0]
            if isinstance(op, (ast.Is, ast.IsNot)) and isinstance(r, ast.Constant) and r.value is None:
                e, t = self.expr(l, binds)
                if not t.startswith("Option "):
                    raise Unsupported(f"`is None` on {t}")
                return (f"{e}.isNone" if isinstance(op, ast.Is) else f"{e}.isSome"), "Bool"
            if isinstance(op, (ast.In, ast.NotIn)):
                a, ta = self.expr(l, binds)
                b, tb = self.expr(r, binds)
                if tb == f"List {ta}":
                    c = f"{b}.contains {paren(a)}"
                elif tb == "Props" and ta == "String":
                    c = f"dictContains {paren(b)} {paren(a)}"
                else:
                    raise Unsupported(f"`in` of {ta} in {tb}")
                return (c if isinstance(op, ast.In) else f"!({c})"), "Bool"
            a, ta = self.expr(l, binds)
            b, tb = self.expr(r, binds)
            if isinstance(op, (ast.Eq, ast.NotEq)) and ta == tb and ta in ("Nat", "Dtype", "String", "Bool"):
                return f"{a} {'==' if isinstance(op, ast.Eq) else '!='} {b}", "Bool"
            raise Unsupported(f"comparison {ast.unparse(n)}")
        if isinstance(n, ast.IfExp):
            sub: list[str] = []
            c, tc = self.expr(n.test, sub)
            b, tb = self.expr(n.orelse, sub, want=want)
            a, ta = self.expr(n.body, sub, want=tb)
            if sub:
                raise Unsupported("raising operation inside a conditional expression")
            if ta != tb or tc != "Bool":
                raise Unsupported("conditional expression types")
            return f"(if {c} then {a} else {b})", ta
        if isinstance(n, ast.Attribute):
            e, t = self.expr(n.value, binds)
            table = {("NdArr", "dtype"): ("{e}.dtype", "Dtype"), ("PVals", "dtype"): ("pvDtype {e}", "Dtype"),
                     ("PVals", "shape"): ("pvShape {e}", "List Nat"), ("NdArr", "shape"): ("{e}.shape", "List Nat"),
                     ("CallerMeta", "axes"): ("{e}.axes", "Option (List String)"),
                     ("Axis", "name"): ("axisName {e}", "String"),
                     ("PropMeta", "varlength"): ("{e}.varlength", "Option Bool")}
            if (t, n.attr) in table:
                f, ty = table[(t, n.attr)]
                return f.format(e=e), ty
            raise Unsupported(f"attribute .{n.attr} of {t}")
        if isinstance(n, ast.Subscript):
            e, t = self.expr(n.value, binds)
            if t == "PropArr" and isinstance(n.slice, ast.Constant) and n.slice.value in ("values", "missing"):
                return f"{e}.{n.slice.value}", {"values": "PVals", "missing": OARR}[n.slice.value]
            if t == "Props":
                k = self.typed(n.slice, binds, "String")
                tv = self.fresh()
                binds.append(f"let {tv} ← dictGetItem {e} {k}")
                return tv, "PropArr"
            # values[:, i]
            if (t == "PVals" and isinstance(n.slice, ast.Tuple) and len(n.slice.elts) == 2
                    and isinstance(n.slice.elts[0], ast.Slice) and n.slice.elts[0].lower is None
                    and n.slice.elts[0].upper is None and n.slice.elts[0].step is None):
                i = self.typed(n.slice.elts[1], binds, "Nat")
                tv = self.fresh()
                binds.append(f"let {tv} ← columnAt {e} {i}")
                return tv, "PVals"
            raise Unsupported(f"subscript {ast.unparse(n)}")
        if isinstance(n, ast.Call):
            return self.call(n, binds)
        raise Unsupported(f"expression {ast.unparse(n)}")

    def call(self, n, binds):
        f = n.func
        src = ast.unparse(n)
        fname = f.id if isinstance(f, ast.Name) else None
        if fname == "remove_tilde" and len(n.args) == 1 and not n.keywords:
            return f"removeTilde {self.typed(n.args[0], binds, 'StoreRef')}", "StoreRef"
        if fname == "len" and len(n.args) == 1 and not n.keywords:
            e, t = self.expr(n.args[0], binds)
            if t.startswith("List "):
                return f"({e}).length", "Nat"
            if t == "NdArr":
                tv = self.fresh()
                binds.append(f"let {tv} ← lenArr {e}")
                return tv, "Nat"
            raise Unsupported(f"len of {t}")
        if (isinstance(f, ast.Attribute) and f.attr == "issubdtype" and isinstance(f.value, ast.Name) and f.value.id == "np"
                and len(n.args) == 2 and not n.keywords and isinstance(n.args[1], ast.Attribute)
                and isinstance(n.args[1].value, ast.Name) and n.args[1].value.id == "np"):
            d = self.typed(n.args[0], binds, "Dtype")
            prim = {"integer": "issubdtypeInteger", "object_": "issubdtypeObject"}.get(n.args[1].attr)
            if prim is None:
                raise Unsupported(src)
            return f"{prim} {d}", "Bool"
        if fname == "enumerate" and len(n.args) == 1 and not n.keywords:
            e, t = self.expr(n.args[0], binds)
            if not t.startswith("List "):
                raise Unsupported(f"enumerate of {t}")
            return f"enumerate {e}", f"List (Nat × {t[5:]})"
        if fname == "PropDictNpArray" and not n.args and {k.arg for k in n.keywords} == {"values", "missing"}:
            kw = {k.arg: k.value for k in n.keywords}
            v, tv = self.expr(kw["values"], binds)
            if tv == "NdArr":
                v, tv = f"PVals.dense ({v})", "PVals"
            if tv != "PVals":
                raise Unsupported(src)
            m = self.typed(kw["missing"], binds, OARR)
            return f"{{ values := {v}, missing := {m} }}", "PropArr"
        if (isinstance(f, ast.Attribute) and f.attr == "empty" and isinstance(f.value, ast.Name) and f.value.id == "np"
                and not n.args and {k.arg for k in n.keywords} == {"shape", "dtype"}):
            kw = {k.arg: k.value for k in n.keywords}
            sh = kw["shape"]
            dims = [sh] if isinstance(sh, ast.Constant) else list(sh.elts) if isinstance(sh, ast.Tuple) else None
            if (dims is None or not all(isinstance(d, ast.Constant) and isinstance(d.value, int) and not isinstance(d.value, bool) for d in dims)
                    or 0 not in [d.value for d in dims]):
                raise Unsupported("np.empty of a non-empty shape (uninitialised contents)")
            dt = {"float64": "Dtype.f64", "int64": "Dtype.i64", "uint64": "Dtype.u64"}.get(
                kw["dtype"].value if isinstance(kw["dtype"], ast.Constant) else None)
            if dt is None:
                raise Unsupported(src)
            return f"npEmptyZero [{', '.join(str(d.value) for d in dims)}] {dt}", "NdArr"
        # ---- store operations (threaded)
        if fname == "setup_zarr_group":
            a = self.kwargs(n, ["store", "zarr_format"])
            st, fm = self.typed(a[0], binds, "StoreRef"), self.typed(a[1], binds, "Fmt")
            tv = self.fresh()
            binds += [f"let {tv} ← setupZarrGroup s {st} {fm}", f"s := {tv}.1"]
            return f"{tv}.2", "Group"
        if isinstance(f, ast.Attribute) and f.attr in ("require_group", "create_group") and len(n.args) == 1 and not n.keywords:
            g = self.typed(f.value, binds, "Group")
            tv = self.fresh()
            if f.attr == "require_group":
                binds += [f"let {tv} ← requireGroup s {g} {self.rel(n.args[0], binds)}", f"s := {tv}.1"]
            else:
                binds += [f"let {tv} ← createGroup s {g} {self.typed(n.args[0], binds, 'String')}", f"s := {tv}.1"]
            return f"{tv}.2", "Group"
        if fname == "check_for_geff" and len(n.args) == 1 and not n.keywords:
            tv = self.fresh()
            binds.append(f"let {tv} ← checkForGeff s {self.typed(n.args[0], binds, 'StoreRef')}")
            return tv, "Bool"
        if fname == "delete_geff":
            a = self.kwargs(n, ["store", "zarr_format"])
            st, fm = self.typed(a[0], binds, "StoreRef"), self.typed(a[1], binds, "Fmt")
            tv = self.fresh()
            binds += [f"let {tv} ← deleteGeff s {st} {fm}", f"s := {tv}"]
            return "()", "Unit"
        if fname == "validate_structure" and len(n.args) == 1 and not n.keywords:
            self.typed(n.args[0], binds, "StoreRef")
            if "validateStructure" not in self.spec["extra"]:
                raise Unsupported("validate_structure outside write_arrays")
            binds.append("validateStructure s")
            return "()", "Unit"
        if (isinstance(f, ast.Attribute) and f.attr == "write" and len(n.args) == 1 and not n.keywords):
            md = self.typed(f.value, binds, "CallerMeta")
            st = self.typed(n.args[0], binds, "StoreRef")
            tv = self.fresh()
            binds += [f"let {tv} ← metadataWrite s {md} {st}", f"s := {tv}"]
            return "()", "Unit"
        if fname in FUNCS:
            spec = FUNCS[fname]
            a = self.kwargs(n, [p for p, _ in spec["params"]])
            args, after = [], []
            tv_holder: list[str] = []
            for node, (p, ty) in zip(a, spec["params"]):
                if p in spec["inout"]:
                    # the callee edits this dict in place: it must be a variable, possibly narrowed
                    if not isinstance(node, ast.Name):
                        raise Unsupported(f"in-place edited argument {ast.unparse(node)}")
                    e, t = self.expr(node, binds)
                    if t != ty:
                        raise Unsupported(f"{ast.unparse(node)} : {t}, expected {ty}")
                    after.append((node.id, ast.unparse(node) in self.narrow))
                    args.append(e)
                else:
                    args.append(self.typed(node, binds, ty))
            tv = self.fresh()
            binds.append(f"let {tv} ← {spec['lean']} s " + " ".join(args))
            n_out = 1 + len(spec["inout"]) + (1 if spec["ret"] else 0)
            proj = ["" if n_out == 1 else ".1"] + [".2" * k + (".1" if k < n_out - 1 else "") for k in range(1, n_out)]
            binds.append(f"s := {tv}{proj[0]}")
            for k, (var, narrowed) in enumerate(after, start=1):
                val = f"{tv}{proj[k]}"
                binds.append(f"{camel(var)} := " + (f"some {val}" if narrowed else val))
            if spec["ret"]:
                return f"{tv}{proj[-1]}", spec["ret"]
            return "()", "Unit"
        # ---- metadata / codec primitives
        if fname == "create_props_metadata" and len(n.args) == 2 and not n.keywords and isinstance(n.args[1], ast.Name):
            k = self.typed(n.args[0], binds, "String")
            p = self.typed(n.args[1], binds, "PropArr")
            tv = self.fresh()
            # the float16 upcast is written back into the dict entry the function received
            binds += [f"let {tv} ← createPropsMetadata {k} {p}", f"__after__ {p} := {tv}.2"]
            return f"{tv}.1", "PropMeta"
        if fname == "serialize_vlen_property_data" and len(n.args) == 1 and not n.keywords:
            p = self.typed(n.args[0], binds, "PropArr")
            t1, t2 = self.fresh(), self.fresh()
            binds += [f"let {t1} ← vlenDict {p}", f"let {t2} ← ofVlen (Gen.Serialization.serializeVlenPropertyData {t1})"]
            return t2, "VlenTriple"
        if fname == "add_or_update_props_metadata" and len(n.args) == 3 and not n.keywords:
            md = self.typed(n.args[0], binds, "CallerMeta")
            l = self.typed(n.args[1], binds, LPM)
            c = self.typed(n.args[2], binds, "String")
            tv = self.fresh()
            binds.append(f"let {tv} ← addOrUpdatePropsMetadata {md} {l} {c}")
            return tv, "CallerMeta"
        if fname == "compute_and_add_axis_min_max" and len(n.args) == 2 and not n.keywords:
            md = self.typed(n.args[0], binds, "CallerMeta")
            p = self.typed(n.args[1], binds, "Props")
            tv = self.fresh()
            binds.append(f"let {tv} ← computeAndAddAxisMinMax {md} {p}")
            return tv, "CallerMeta"
        raise Unsupported(f"call {src}")

    # ------------------------------------------------------------------ statements
    def flush(self, binds, out, ind):
        later = []
        for b in binds:
            if b.startswith("__after__ "):
                later.append(b[len("__after__ "):])
            else:
                out.append(ind + b)
        binds.clear()
        return later

    def coerce(self, e, t, want):
        if t == want:
            return e
        if want == f"Option {t}":
            return f"some {e}"
        if want == "PVals" and t == "NdArr":
            return f"PVals.dense {e}"
        raise Unsupported(f"value of type {t} for a variable of type {want}")

    def set_var(self, name, e, t, out, ind):
        if self.locals.get(name) == "Msg":
            return
        want = self.env.get(name) or self.locals.get(name) or t
        if "?" in want or want in ("Unit", "VlenTriple"):
            raise Unsupported(f"variable {name} of type {want}")
        e = self.coerce(e, t, want)
        if name in self.env:
            out.append(ind + f"{camel(name)} := {e}")
        else:
            self.env[name] = want
            out.append(ind + f"let mut {camel(name)} : {want} := {e}")

    def assign(self, s, out, ind):
        tgt = s.targets[0]
        binds: list[str] = []
        if isinstance(tgt, ast.Name):
            if self.locals.get(tgt.id) == "Msg":
                return
            want = self.env.get(tgt.id) or self.locals.get(tgt.id)
            e, t = self.expr(s.value, binds, want=want)
            later = self.flush(binds, out, ind)
            self.set_var(tgt.id, e, t, out, ind)
            for l in later:
                out.append(ind + l)
            return
        if isinstance(tgt, ast.Tuple) and all(isinstance(x, ast.Name) for x in tgt.elts):
            e, t = self.expr(s.value, binds)
            if t != "VlenTriple" or len(tgt.elts) != 3:
                raise Unsupported(f"tuple assignment {ast.unparse(s)}")
            self.flush(binds, out, ind)
            for x, (proj, ty) in zip(tgt.elts, [(".1", "NdArr"), (".2.1", OARR), (".2.2", "NdArr")]):
                self.set_var(x.id, f"{e}{proj}", ty, out, ind)
            return
        if isinstance(tgt, ast.Subscript):
            base, tb = self.expr(tgt.value, binds)
            if tb == "Group":
                rel = self.rel(tgt.slice, binds)
                v, tv = self.expr(s.value, binds)
                prim = {"NdArr": "groupSetItem", "PVals": "groupSetItemVals"}.get(tv)
                if prim is None:
                    raise Unsupported(f"storing a value of type {tv}")
                self.flush(binds, out, ind)
                t = self.fresh()
                out += [ind + f"let {t} ← {prim} s {base} {rel} {v}", ind + f"s := {t}"]
                return
            if tb == "Props" and isinstance(tgt.value, ast.Name):
                k = self.typed(tgt.slice, binds, "String")
                v = self.typed(s.value, binds, "PropArr")
                self.flush(binds, out, ind)
                val = f"dictSetItem {base} {k} {v}"
                narrowed = ast.unparse(tgt.value) in self.narrow
                out.append(ind + f"{camel(tgt.value.id)} := " + (f"some ({val})" if narrowed else val))
                return
        raise Unsupported(f"assignment {ast.unparse(s)}")

    def scoped(self, stmts, out, ind):
        saved_env, saved_narrow = dict(self.env), dict(self.narrow)
        n0 = len(out)
        self.block(stmts, out, ind)
        if len(out) == n0:
            out.append(ind + "pure ()")
        self.env, self.narrow = saved_env, saved_narrow

    def block(self, stmts, out, ind):
        for s in stmts:
            if isinstance(s, ast.Expr) and isinstance(s.value, ast.Constant) and isinstance(s.value.value, str):
                continue
            if isinstance(s, ast.AnnAssign) and s.value is None:
                continue                                                     # a bare annotation
            if isinstance(s, ast.Assign) and len(s.targets) == 1:
                self.assign(s, out, ind)
            elif isinstance(s, ast.Expr) and isinstance(s.value, ast.Call):
                self.call_stmt(s.value, out, ind)
            elif isinstance(s, ast.Delete) and len(s.targets) == 1 and isinstance(s.targets[0], ast.Subscript) \
                    and isinstance(s.targets[0].value, ast.Name):
                binds: list[str] = []
                d = self.typed(s.targets[0].value, binds, "Props")
                k = self.typed(s.targets[0].slice, binds, "String")
                self.flush(binds, out, ind)
                t = self.fresh()
                out += [ind + f"let {t} ← dictDelItem {d} {k}", ind + f"{d} := {t}"]
            elif isinstance(s, ast.Raise):
                exc = s.exc.func.id if isinstance(s.exc, ast.Call) and isinstance(s.exc.func, ast.Name) else None
                if exc not in EXC:
                    raise Unsupported(f"raise {ast.unparse(s.exc) if s.exc else ''}")
                out.append(ind + EXC[exc])
            elif isinstance(s, ast.Return):
                binds = []
                e, t = self.expr(s.value, binds)
                if t != self.spec["ret"]:
                    raise Unsupported(f"return type {t}, expected {self.spec['ret']}")
                self.flush(binds, out, ind)
                out.append(ind + "return " + self.ret_tuple(e))
                if s is not self.last:
                    raise Unsupported("return that is not the last statement of the function")
            elif isinstance(s, ast.If):
                self.if_(s, out, ind)
            elif isinstance(s, ast.For) and not s.orelse:
                self.for_(s, out, ind)
            elif isinstance(s, ast.Try) and not s.orelse and not s.finalbody:
                self.try_(s, out, ind)
            else:
                raise Unsupported(f"statement {type(s).__name__}: {ast.unparse(s)[:60]}")

    def ret_tuple(self, e=None):
        parts = ["s"] + [camel(p) for p in self.spec["inout"]] + ([e] if e is not None else [])
        return parts[0] if len(parts) == 1 else "(" + ", ".join(parts) + ")"

    def call_stmt(self, c, out, ind):
        f = c.func
        binds: list[str] = []
        if isinstance(f, ast.Attribute) and f.attr == "append" and isinstance(f.value, ast.Name) and len(c.args) == 1:
            l, tl = self.expr(f.value, binds)
            e, te = self.expr(c.args[0], binds)
            if tl != f"List {te}":
                raise Unsupported(f"append of {te} to {tl}")
            later = self.flush(binds, out, ind)
            out.append(ind + f"{l} := {l} ++ [{e}]")
            out += [ind + x for x in later]
            return
        if isinstance(f, ast.Attribute) and f.attr == "update" and isinstance(f.value, ast.Name) and len(c.args) == 1:
            d = self.typed(f.value, binds, "Props")
            e = self.typed(c.args[0], binds, "Props")
            self.flush(binds, out, ind)
            out.append(ind + f"{d} := dictUpdate {d} {e}")
            return
        e, t = self.call(c, binds)
        if t != "Unit":
            raise Unsupported(f"result of {ast.unparse(c)} is dropped")
        self.flush(binds, out, ind)

    def first_assigned(self, stmts):
        names = []
        for s in stmts:
            tg = []
            if isinstance(s, ast.Assign) and len(s.targets) == 1:
                t = s.targets[0]
                tg = [t] if isinstance(t, ast.Name) else list(t.elts) if isinstance(t, ast.Tuple) else []
            for t in tg:
                if isinstance(t, ast.Name) and t.id not in self.env and self.locals.get(t.id) != "Msg" and t.id not in names:
                    names.append(t.id)
        return names

    def if_(self, s, out, ind):
        conj = s.test.values if isinstance(s.test, ast.BoolOp) and isinstance(s.test.op, ast.And) else [s.test]
        if s.orelse:
            if len(conj) != 1:
                raise Unsupported("else-branch of a conjunction")
            a, b = self.first_assigned(s.body), self.first_assigned(s.orelse)
            for name in a:
                if name in b:
                    ty = self.locals.get(name)
                    if ty is None:
                        raise Unsupported(f"variable {name} first assigned in both branches is not in the typing table")
                    self.env[name] = ty
                    out.append(ind + f"let mut {camel(name)} : {ty} := default")
        self.conj(conj, s, out, ind)

    def conj(self, conj, s, out, ind):
        if not conj:
            self.scoped(s.body, out, ind)
            return
        c = conj[0]
        if (isinstance(c, ast.Compare) and len(c.ops) == 1 and isinstance(c.ops[0], ast.IsNot)
                and isinstance(c.comparators[0], ast.Constant) and c.comparators[0].value is None):
            binds: list[str] = []
            e, t = self.expr(c.left, binds)
            if binds or not t.startswith("Option "):
                raise Unsupported(f"`is not None` on {ast.unparse(c.left)} : {t}")
            inner = t[len("Option "):]
            inner = inner[1:-1] if inner.startswith("(") and inner.endswith(")") else inner
            key = ast.unparse(c.left)
            var = camel(key.replace(".", "_")) + "V"
            out.append(ind + f"match {e} with")
            out.append(ind + f"| some {var} =>")
            saved = dict(self.narrow)
            self.narrow[key] = (var, inner)
            self.conj(conj[1:], s, out, ind + "  ")
            self.narrow = saved
            if s.orelse:
                out.append(ind + "| none =>")
                self.scoped(s.orelse, out, ind + "  ")
            else:
                out.append(ind + "| none => pure ()")
            return
        binds = []
        e, t = self.expr(c, binds)
        if t == "Option Bool":
            e, t = f"isTrue {e}", "Bool"
        if t != "Bool":
            raise Unsupported(f"condition of type {t}")
        self.flush(binds, out, ind)
        out.append(ind + f"if {e} then")
        self.conj(conj[1:], s, out, ind + "  ")
        if s.orelse:
            out.append(ind + "else")
            self.scoped(s.orelse, out, ind + "  ")

    def for_(self, s, out, ind):
        binds: list[str] = []
        it = s.iter
        if (isinstance(it, ast.Call) and isinstance(it.func, ast.Attribute) and it.func.attr == "items"
                and not it.args and not it.keywords):
            e, t = self.expr(it.func.value, binds)
            if t not in ELEM:
                raise Unsupported(f".items() of {t}")
            elts = ELEM[t]
        else:
            e, t = self.expr(it, binds)
            if not t.startswith("List "):
                raise Unsupported(f"iteration over {t}")
            inner = t[5:]
            inner = inner[1:-1] if inner.startswith("(") else inner
            elts = tuple(x.strip() for x in inner.split(" × "))
            if key_is_axes(it):
                elts = ("Axis",)
        self.flush(binds, out, ind)
        tg = [s.target] if isinstance(s.target, ast.Name) else list(s.target.elts) if isinstance(s.target, ast.Tuple) else None
        if tg is None or len(tg) != len(elts) or not all(isinstance(x, ast.Name) for x in tg):
            raise Unsupported(f"loop target {ast.unparse(s.target)} over {elts}")
        saved_env, saved_narrow = dict(self.env), dict(self.narrow)
        for x, ty in zip(tg, elts):
            self.env[x.id] = ty
        pat = camel(tg[0].id) if len(tg) == 1 else "(" + ", ".join(camel(x.id) for x in tg) + ")"
        out.append(ind + f"for {pat} in {e} do")
        body: list[str] = []
        for x, ty in zip(tg, elts):
            if ty == "PropArr":                       # a dict the body may edit: make it assignable
                body.append(ind + "  " + f"let mut {camel(x.id)} : PropArr := {camel(x.id)}")
        self.block(s.body, body, ind + "  ")
        if not body:
            body.append(ind + "  pure ()")
        out += body
        self.env, self.narrow = saved_env, saved_narrow

    def try_(self, s, out, ind):
        if len(s.handlers) != 1:
            raise Unsupported("try with several handlers")
        h = s.handlers[0]
        out.append(ind + "try")
        self.scoped(s.body, out, ind + "  ")
        if h.type is None:
            out.append(ind + "catch _ =>")
            self.scoped(h.body, out, ind + "  ")
            return
        if not (isinstance(h.type, ast.Name) and h.type.id in ERRC):
            raise Unsupported(f"except {ast.unparse(h.type)}")
        out.append(ind + "catch e =>")
        out.append(ind + f"  if e == {ERRC[h.type.id]} then")
        saved = dict(self.env)
        self.scoped(h.body, out, ind + "    ")
        self.env = saved
        out.append(ind + "  else")
        out.append(ind + "    throw e")


def paren(e: str) -> str:
    """`e` as a function argument"""
    if " " not in e or (e[0] in "([{\"" and e[-1] in ")]}\"" and _balanced(e)):
        return e
    return f"({e})"


def _balanced(e: str) -> bool:
    """the first bracket closes at the very end"""
    depth = 0
    for k, ch in enumerate(e):
        if ch in "([{":
            depth += 1
        elif ch in ")]}":
            depth -= 1
            if depth == 0 and k < len(e) - 1:
                return False
    return True


def key_is_axes(it):
    return ast.unparse(it).endswith(".axes")


def mutated_params(fn: ast.FunctionDef, spec) -> list[str]:
    names = set(spec["inout"])
    for n in ast.walk(fn):
        if isinstance(n, ast.Name) and isinstance(n.ctx, (ast.Store, ast.Del)):
            names.add(n.id)
        if isinstance(n, ast.Subscript) and isinstance(n.ctx, (ast.Store, ast.Del)) and isinstance(n.value, ast.Name):
            names.add(n.value.id)
        if isinstance(n, ast.Call) and isinstance(n.func, ast.Attribute) and n.func.attr == "update" and isinstance(n.func.value, ast.Name):
            names.add(n.func.value.id)
        if isinstance(n, ast.Call) and isinstance(n.func, ast.Name) and n.func.id in FUNCS:
            callee = FUNCS[n.func.id]
            pnames = [p for p, _ in callee["params"]]
            bound = dict(zip(pnames, n.args))
            bound.update({k.arg: k.value for k in n.keywords})
            for p in callee["inout"]:
                if isinstance(bound.get(p), ast.Name):
                    names.add(bound[p].id)
    return [p for p, _ in spec["params"] if p in names]


def signature(spec, stub=False):
    u = "_" if stub else ""
    params = " ".join(f"({u}{camel(p)} : {t})" for p, t in spec["params"])
    extra = spec["extra"].replace("(", "(_") if stub else spec["extra"]
    return f"def {spec['lean']} {extra}({u}s : St) {params} : Outcome ({ret_type(spec)})"


def translate_function(fn: ast.FunctionDef, spec, paths) -> str:
    a = fn.args
    if ([x.arg for x in a.args] != [p for p, _ in spec["params"]] or a.vararg or a.kwarg or a.kwonlyargs or a.posonlyargs):
        raise Unsupported(f"signature of {fn.name} changed: {[x.arg for x in a.args]}")
    tr = Fn(spec, paths)
    stmts = [s for s in fn.body if not (isinstance(s, ast.Expr) and isinstance(s.value, ast.Constant))]
    tr.last = stmts[-1] if stmts else None
    body = ["  let mut s : St := s"]
    for p in mutated_params(fn, spec):
        body.append(f"  let mut {camel(p)} : {dict(spec['params'])[p]} := {camel(p)}")
    tr.block(fn.body, body, "  ")
    if spec["ret"] is None:
        if any(isinstance(n, ast.Return) for n in ast.walk(fn)):
            raise Unsupported("return in a function without result")
        body.append("  return " + tr.ret_tuple())
    elif not isinstance(tr.last, ast.Return):
        raise Unsupported("the function does not end with a return")
    return "\n".join([signature(spec) + " := do", *body])


def stub(spec) -> str:
    return signature(spec, stub=True) + " := throw (.other \"untranslated\")"


def run(repo: Path, out: Path):
    errors = {}
    defs = []
    fns, paths = {}, {}
    try:
        tree = ast.parse((repo / SRC).read_text())
        fns = {n.name: n for n in tree.body if isinstance(n, ast.FunctionDef)}
        paths = load_paths(repo)
    except Exception as e:  # noqa: BLE001
        errors["parse"] = f"{type(e).__name__}: {e}"
    for name in ORDER:
        spec = FUNCS[name]
        try:
            if name not in fns:
                raise Unsupported(f"function {name} not found")
            text = translate_function(fns[name], spec, paths)
            defs.append(f"/-- `{name}` ({SRC}) -/\n" + text)
        except Unsupported as e:
            errors[name] = str(e)
            defs.append(f"/-- `{name}`: NOT TRANSLATED ({e}) -/\n" + stub(spec))
    ok = not errors
    body = "import GeffModel.PyDoWrite\nimport Gen.Serialization\n" + HEADER
    body += ("/-! `geff/core_io/_base_write.py` (`write_id_arrays`, `write_props_arrays`, `write_arrays`), "
             "statement by statement (translator T22). -/\n")
    body += "set_option linter.unusedVariables false\n"
    body += "namespace Gen.BaseWrite\nopen Geff.Np Geff.Store Geff.WR Geff.PyDoWrite Gen.Paths\n\n"
    body += f"def translationOk : Bool := {'true' if ok else 'false'}\n\n"
    body += "\n\n".join(defs) + "\n\nend Gen.BaseWrite\n"
    write_if_changed(out / "BaseWrite.lean", body)
    return {"ok": ok, **({"error": "; ".join(f"{k}: {v}" for k, v in errors.items())} if errors else {})}
