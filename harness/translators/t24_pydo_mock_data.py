"""T24: geff/testing/data.py -> lean/Gen/MockData.lean  (Python -> Lean `do`-notation).

The mock-data generators

    create_dummy_in_mem_geff (with its nested `_add_axis`), create_mock_geff,
    create_simple_2d_geff, create_simple_3d_geff, create_simple_temporal_geff, create_empty_geff

are translated *statement by statement* from the AST of the working tree (parsed, never imported)
into Lean `do`-blocks in the `Geff.MockData.Outcome` monad, over the types of the existing C20 model
(`GeffModel/MockData.lean`) and the primitive library `GeffModel/PyDoMock.lean`.  The integer edge
loops of `create_dummy_in_mem_geff` stay translator T9's: the statements T9 extracts (located with
T9's own `_extract`) are replaced by ONE line calling `Gen.MockEdges.gen`; every other statement of
the function is translated here, so no statement is skipped by both.

Supported subset (anything else => stub + `translationOk := false`, never skipped silently):
  statements   x = e | x: T = e | a, b = e1, e2 | d[k] = v | arr[i] = e | mask[0] = 1 | mask[::2] = 1 |
               l.append(e) | write_arrays(store, **geff) | if/elif/else | for i in range(n) |
               for k, v in d.items() | raise X(...) (message dropped) | return e (last statement) |
               a nested `def` (closure variables become parameters, mutated ones are returned) |
               `if not isinstance(k, str): raise X(...)` (narrows the key to a string)
  expressions  names, None/bool/int/str/float literals, f-strings, + * //, [x] * k, comparisons,
               in / not in, not/and/or, `x is (not) None`, isinstance, len, list comprehensions over
               range, dict literals of the shapes the generators use, the numpy / geff_spec calls
               listed in `Fn.call`, keyword calls of the other translated functions (missing
               arguments are filled from the callee's own defaults, read off its signature)
Python scoping: a variable first assigned inside a branch is local to that branch in Lean; reading it
after the branch is refused unless it is assigned in EVERY branch of the if/elif/else, in which case
it is declared before the `if` with the (raise-free) value of the final `else`.

Consumer: C20 (`GeffProps/C20Gen.lean`: the generated functions equal the hand-written model for
every parameter record, hence every C20 theorem holds of the code as it is written now)."""
from __future__ import annotations

import ast
from pathlib import Path

from harness.translate import HEADER, lean_str, write_if_changed
from harness.translators.t12_pydo_serialization import Unsupported
from harness.translators.t12_pydo_serialization import camel as _camel

NAME = "T24_pydo_mock_data"
PROPS = ["C20"]
SRC = "packages/geff/src/geff/testing/data.py"

KEYWORDS = {"meta", "end", "from", "at", "in", "do", "then", "else", "if", "fun", "let", "have", "show", "match", "with",
            "type", "class", "instance", "namespace", "section", "open", "where", "by", "mut", "for", "return", "private"}


def camel(n: str) -> str:
    c = _camel(n)
    if n.endswith("_") and not n.startswith("_"):
        c += "_"                        # `edges_` and `edges` are different variables
    return c + "_" if c in KEYWORDS else c


DUMMY_PARAMS = [("node_id_dtype", "String"), ("node_axis_dtypes", "AxisDtypes"), ("directed", "Bool"),
                ("num_nodes", "Nat"), ("num_edges", "Nat"), ("extra_node_props", "Extra"),
                ("extra_edge_props", "Extra"), ("include_t", "Bool"), ("include_z", "Bool"), ("include_y", "Bool"),
                ("include_x", "Bool"), ("include_varlength", "Bool"), ("include_missing", "Bool")]
SIMPLE_PARAMS = [("num_nodes", "Nat"), ("num_edges", "Nat"), ("directed", "Bool")]
FUNCS = {
    "create_dummy_in_mem_geff": {"lean": "createDummyInMemGeff", "params": DUMMY_PARAMS, "ret": "Geff"},
    "create_mock_geff": {"lean": "createMockGeff", "params": DUMMY_PARAMS, "ret": "MemStore × Geff"},
    "create_simple_2d_geff": {"lean": "createSimple2dGeff", "params": SIMPLE_PARAMS, "ret": "MemStore × Geff"},
    "create_simple_3d_geff": {"lean": "createSimple3dGeff", "params": SIMPLE_PARAMS, "ret": "MemStore × Geff"},
    "create_simple_temporal_geff": {"lean": "createSimpleTemporalGeff", "params": SIMPLE_PARAMS, "ret": "MemStore × Geff"},
    "create_empty_geff": {"lean": "createEmptyGeff", "params": [("directed", "Bool")], "ret": "MemStore × Geff"},
}
ORDER = list(FUNCS)
ADD_AXIS = {"lean": "addAxis", "params": [("name", "String"), ("ax_type", "String"), ("unit", "String"), ("values", "Arr")],
            "ret": "PropMeta"}
# annotation text -> Lean type (for `x: T = {}` / `x: T = []`)
ANNOT = {"dict[str, PropDictNpArray]": "Dict PropOut", "list[PropMetadata]": "List PropMeta", "list[Axis]": "List AxisOut",
         "PropDictNpArray": "PropOut", "list[list[int]]": "List (Int × Int)"}
# locals whose type cannot be inferred from their first assignment
LOCALS = {"roimin": "Option Bound", "roimax": "Option Bound"}
EXC = {"ValueError": "raiseValueError", "TypeError": "raiseTypeError"}
NP_DTYPES = {"uint64", "uint32", "uint16", "uint8", "int64", "int32", "int16", "int8", "float64", "float32"}


def _np(node, attr=None):
    ok = isinstance(node, ast.Attribute) and isinstance(node.value, ast.Name) and node.value.id == "np"
    return ok and (attr is None or node.attr == attr)


def _kw(n: ast.Call, names, required=None):
    """keyword/positional arguments of a call as a dict, by the parameter names `names`"""
    if len(n.args) > len(names):
        raise Unsupported(f"too many arguments in {ast.unparse(n)[:60]}")
    d = dict(zip(names, n.args))
    for k in n.keywords:
        if k.arg is None or k.arg not in names or k.arg in d:
            raise Unsupported(f"argument {k.arg} in {ast.unparse(n)[:60]}")
        d[k.arg] = k.value
    for r in (required if required is not None else names):
        if r not in d:
            raise Unsupported(f"missing argument {r} in {ast.unparse(n)[:60]}")
    return d


def paren(e: str) -> str:
    e = e.strip()
    if all(c.isalnum() or c in "._'" for c in e):
        return e
    if e[0] in "([\"" and _closes_at_end(e):
        return e
    return f"({e})"


def _closes_at_end(e: str) -> bool:
    """the bracket / quote opened by the first character is closed by the last one"""
    if e[0] == "\"":
        k = 1
        while k < len(e):
            if e[k] == "\\":
                k += 2
                continue
            if e[k] == "\"":
                return k == len(e) - 1
            k += 1
        return False
    depth, instr, k = 0, False, 0
    while k < len(e):
        c = e[k]
        if instr:
            if c == "\\":
                k += 1
            elif c == "\"":
                instr = False
        elif c == "\"":
            instr = True
        elif c in "([":
            depth += 1
        elif c in ")]":
            depth -= 1
            if depth == 0:
                return k == len(e) - 1
        k += 1
    return False


class Fn:
    def __init__(self, params, outer_types=None, signatures=None, constants=None, t9_lines=None, nested=None):
        self.env: dict[str, str] = dict(params)
        self.scopes: list[set[str]] = [set()]
        self.tmp = 0
        self.outer_types = outer_types or {}
        self.signatures = signatures or {}
        self.constants = constants or {}
        self.t9_lines = t9_lines
        self.nested = nested or {}           # python name -> dict(lean, closure, mutated, params, ret)
        self.ret = None

    # ---------------------------------------------------------------- helpers
    def fresh(self):
        self.tmp += 1
        return f"t{self.tmp}"

    def bind(self, binds, action, ty):
        t = self.fresh()
        binds.append(f"let {t} ← {action}")
        return t, ty

    def push(self):
        self.scopes.append(set())

    def pop(self):
        for v in self.scopes.pop():
            self.env.pop(v, None)

    def declare(self, name, ty):
        """-> True when this is a new Lean variable (`let mut`), False for a re-assignment"""
        if name in self.env:
            if self.env[name] != ty:
                raise Unsupported(f"variable {name}: was {self.env[name]}, assigned {ty}")
            return False
        self.env[name] = ty
        self.scopes[-1].add(name)
        return True

    # ---------------------------------------------------------------- expressions
    def expr(self, n, binds, want=None):
        if isinstance(n, ast.Name):
            if n.id not in self.env:
                raise Unsupported(f"variable {n.id} is unknown or may be unbound here (line {n.lineno})")
            return camel(n.id), self.env[n.id]
        if isinstance(n, ast.Constant):
            v = n.value
            if v is None:
                if want == "Extra":
                    return "Extra.none", "Extra"
                if want and want.startswith("Option "):
                    return "none", want
                return "none", "NoneT"
            if isinstance(v, bool):
                return ("true" if v else "false"), "Bool"
            if isinstance(v, int) and v >= 0:
                return str(v), "Nat"
            if isinstance(v, str):
                return lean_str(v), "String"
            if isinstance(v, float):
                return lean_str(repr(v)), "FloatLit"
            raise Unsupported(f"constant {v!r}")
        if _np(n) and n.attr in NP_DTYPES:
            return lean_str(n.attr), "String"
        if isinstance(n, ast.JoinedStr):
            parts = []
            for p in n.values:
                if isinstance(p, ast.Constant) and isinstance(p.value, str):
                    parts.append(lean_str(p.value))
                elif isinstance(p, ast.FormattedValue) and p.conversion == -1 and p.format_spec is None:
                    e, t = self.expr(p.value, binds)
                    if t == "String":
                        parts.append(paren(e))
                    elif t == "Nat":
                        parts.append(f"toString {paren(e)}")
                    else:
                        raise Unsupported(f"f-string part of type {t}")
                else:
                    raise Unsupported("f-string with conversion / format spec")
            return " ++ ".join(parts) if parts else '""', "String"
        if isinstance(n, ast.List):
            if not n.elts:
                if want is None or not want.startswith("List "):
                    raise Unsupported("empty list of unknown type")
                return "[]", want
            parts = [self.expr(e, binds) for e in n.elts]
            ts = {t for _, t in parts}
            if len(ts) != 1:
                raise Unsupported(f"list of mixed types {ts}")
            return "[" + ", ".join(p for p, _ in parts) + "]", f"List {paren(ts.pop())}"
        if isinstance(n, ast.Dict):
            return self.dict_(n, binds, want)
        if isinstance(n, ast.UnaryOp) and isinstance(n.op, ast.Not):
            e, t = self.expr(n.operand, binds)
            if t != "Bool":
                raise Unsupported(f"not on {t}")
            return f"!{paren(e)}", "Bool"
        if isinstance(n, ast.BoolOp):
            parts = []
            for k, v in enumerate(n.values):
                sub: list[str] = []
                parts.append(self.expr(v, sub))
                if sub and k > 0:
                    raise Unsupported("operation that can raise in a later operand of and/or")
                binds.extend(sub)
            if any(t != "Bool" for _, t in parts):
                raise Unsupported("and/or of non-Booleans")
            op = " || " if isinstance(n.op, ast.Or) else " && "
            return "(" + op.join(paren(p) for p, _ in parts) + ")", "Bool"
        if isinstance(n, ast.Compare) and len(n.ops) == 1:
            return self.compare(n.left, n.ops[0], n.comparators[0], binds)
        if isinstance(n, ast.BinOp):
            return self.binop(n, binds)
        if isinstance(n, ast.ListComp):
            return self.listcomp(n, binds)
        if isinstance(n, ast.Subscript):
            return self.subscript(n, binds)
        if isinstance(n, ast.Tuple):
            parts = [self.expr(e, binds) for e in n.elts]
            return "(" + ", ".join(p for p, _ in parts) + ")", " × ".join(t for _, t in parts)
        if isinstance(n, ast.Call):
            return self.call(n, binds, want)
        raise Unsupported(f"expression {ast.unparse(n)[:60]}")

    def dict_(self, n, binds, want):
        keys = [k.value if isinstance(k, ast.Constant) else None for k in n.keys]
        if not keys:
            if want is None or not want.startswith("Dict "):
                raise Unsupported("empty dict of unknown type")
            return "[]", want
        if keys == ["values", "missing"]:
            v, tv = self.expr(n.values[0], binds)
            m, tm = self.expr(n.values[1], binds)
            if tv != "Arr":
                raise Unsupported(f"prop dict values of type {tv}")
            if tm == "NoneT":
                m = "none"
            elif tm == "Mask":
                m = f"(some {m})"
            else:
                raise Unsupported(f"prop dict missing of type {tm}")
            return self.bind(binds, f"mkPropDict {paren(v)} {m}", "PropOut")
        if sorted(keys) == ["position", "time"] and (want in (None, "AxisDtypes")):
            d = {}
            for k, v in zip(keys, n.values):
                e, t = self.expr(v, binds)
                if t != "String":
                    raise Unsupported("axis dtype that is not a string")
                d[k] = e
            return f"({{ position := {d['position']}, time := {d['time']} }} : AxisDtypes)", "AxisDtypes"
        if keys == ["metadata", "node_ids", "edge_ids", "node_props", "edge_props"]:
            parts = [self.expr(v, binds) for v in n.values]
            if [t for _, t in parts] != ["MetaAcc", "Arr", "EdgeArr", "Dict PropOut", "Dict PropOut"]:
                raise Unsupported(f"InMemoryGeff dict of types {[t for _, t in parts]}")
            return self.bind(binds, "mkInMemoryGeff " + " ".join(paren(p) for p, _ in parts), "Geff")
        if want == "Extra" and all(isinstance(k, str) for k in keys):
            items = []
            for k, v in zip(keys, n.values):
                if not (isinstance(v, ast.Constant) and isinstance(v.value, str)):
                    raise Unsupported("extra-property literal whose value is not a dtype string")
                items.append(f"(some {lean_str(k)}, Req.auto {lean_str(v.value)})")
            return "Extra.dict [" + ", ".join(items) + "]", "Extra"
        raise Unsupported(f"dict with keys {keys}")

    def compare(self, l, op, r, binds):
        if isinstance(op, (ast.Is, ast.IsNot)) and isinstance(r, ast.Constant) and r.value is None:
            e, t = self.expr(l, binds)
            if t == "Extra":
                return (f"Extra.isNone {paren(e)}" if isinstance(op, ast.Is) else f"!(Extra.isNone {paren(e)})"), "Bool"
            raise Unsupported(f"`is None` on {t}")
        a, ta = self.expr(l, binds)
        b, tb = self.expr(r, binds)
        if isinstance(op, (ast.In, ast.NotIn)):
            if tb != "List String" or ta != "String":
                raise Unsupported(f"membership of {ta} in {tb}")
            e = f"{paren(b)}.contains {paren(a)}"
            return (e if isinstance(op, ast.In) else f"!({e})"), "Bool"
        if ta != tb or ta not in ("Nat", "String"):
            raise Unsupported(f"comparison of {ta} with {tb}")
        if isinstance(op, (ast.Eq, ast.NotEq)):
            return f"{paren(a)} {'==' if isinstance(op, ast.Eq) else '!='} {paren(b)}", "Bool"
        sym = {ast.Lt: "<", ast.LtE: "≤", ast.Gt: ">", ast.GtE: "≥"}.get(type(op))
        if sym and ta == "Nat":
            return f"decide ({a} {sym} {b})", "Bool"
        raise Unsupported("comparison operator")

    def binop(self, n, binds):
        a, ta = self.expr(n.left, binds)
        b, tb = self.expr(n.right, binds)
        if isinstance(n.op, ast.Add) and ta == tb == "Nat":
            return f"{paren(a)} + {paren(b)}", "Nat"
        if isinstance(n.op, ast.Mult) and ta == tb == "Nat":
            return f"{paren(a)} * {paren(b)}", "Nat"
        if isinstance(n.op, ast.Mult) and ta == "Elem" and tb == "Nat":
            return f"Elem.times {paren(a)} {paren(b)}", "Elem"
        if (isinstance(n.op, ast.Mult) and isinstance(n.left, ast.List) and len(n.left.elts) == 1
                and ta == "List Nat" and tb == "Nat"):
            x, _ = self.expr(n.left.elts[0], binds)
            return f"List.replicate {paren(b)} {paren(x)}", "List Nat"
        if isinstance(n.op, ast.FloorDiv) and ta == tb == "Nat":
            return self.bind(binds, f"pyFloorDiv {paren(a)} {paren(b)}", "Nat")
        raise Unsupported(f"operator {type(n.op).__name__} on {ta}, {tb}")

    def range_arg(self, it, binds):
        if (isinstance(it, ast.Call) and isinstance(it.func, ast.Name) and it.func.id == "range"
                and len(it.args) == 1 and not it.keywords):
            e, t = self.expr(it.args[0], binds)
            if t != "Nat":
                raise Unsupported(f"range of {t}")
            return e
        return None

    def listcomp(self, n, binds):
        if len(n.generators) != 1 or n.generators[0].ifs or n.generators[0].is_async \
                or not isinstance(n.generators[0].target, ast.Name):
            raise Unsupported("comprehension shape")
        g = n.generators[0]
        rng = self.range_arg(g.iter, binds)
        if rng is None:
            raise Unsupported("comprehension over something else than range(n)")
        v = g.target.id
        if v in self.env:
            raise Unsupported(f"comprehension variable {v} shadows a local")
        self.env[v] = "Nat"
        try:
            sub: list[str] = []
            e, t = self.expr(n.elt, sub)
        finally:
            del self.env[v]
        if not sub:
            return f"(List.range {paren(rng)}).map (fun {camel(v)} => {e})", f"List {paren(t)}"
        body = "; ".join(sub + [f"pure {paren(e)}"])
        return self.bind(binds, f"compM (fun {camel(v)} => do {body}) (List.range {paren(rng)})", f"List {paren(t)}")

    def subscript(self, n, binds):
        if isinstance(n.slice, ast.Slice):
            raise Unsupported("slice in an expression")
        # e.shape[0]
        if isinstance(n.value, ast.Attribute) and n.value.attr == "shape" and isinstance(n.slice, ast.Constant) \
                and n.slice.value == 0:
            e, t = self.expr(n.value.value, binds)
            if t == "EdgeArr":
                return self.bind(binds, f"EdgeArr.shape0 {paren(e)}", "Nat")
            raise Unsupported(f".shape[0] of {t}")
        e, t = self.expr(n.value, binds)
        if t == "AxisDtypes" and isinstance(n.slice, ast.Constant) and n.slice.value in ("position", "time"):
            return f"{paren(e)}.{n.slice.value}", "String"
        if t.startswith("Dict "):
            k, tk = self.expr(n.slice, binds)
            if tk != "String":
                raise Unsupported(f"dict key of type {tk}")
            return self.bind(binds, f"dictGetItem {paren(e)} {paren(k)}", t[5:])
        raise Unsupported(f"subscript {ast.unparse(n)[:60]}")

    def as_float(self, node):
        if isinstance(node, ast.Constant) and isinstance(node.value, float):
            return lean_str(repr(node.value))
        raise Unsupported("np.linspace bound that is not a float literal")

    def call(self, n, binds, want=None):
        f = n.func
        src = ast.unparse(n)[:70]
        name = f.id if isinstance(f, ast.Name) else None
        if name == "isinstance" and len(n.args) == 2 and not n.keywords:
            e, t = self.expr(n.args[0], binds)
            cls = n.args[1]
            what = cls.id if isinstance(cls, ast.Name) else ("ndarray" if _np(cls, "ndarray") else None)
            table = {("Extra", "dict"): "Extra.isDict", ("Req", "str"): "Req.isStr", ("Req", "ndarray"): "Req.isNdarray",
                     ("PyKey", "str"): "Option.isSome"}
            if (t, what) not in table:
                raise Unsupported(f"isinstance({t}, {what})")
            return f"{table[(t, what)]} {paren(e)}", "Bool"
        if name == "len" and len(n.args) == 1 and not n.keywords:
            e, t = self.expr(n.args[0], binds)
            if t == "EdgeArr":
                return self.bind(binds, f"EdgeArr.pyLen {paren(e)}", "Nat")
            if t == "Req":
                return self.bind(binds, f"Req.pyLen {paren(e)}", "Nat")
            if t.startswith("List "):
                return f"{paren(e)}.length", "Nat"
            raise Unsupported(f"len of {t}")
        if name == "get_args" and len(n.args) == 1 and isinstance(n.args[0], ast.Name) and not n.keywords:
            c = n.args[0].id
            if c not in self.constants:
                raise Unsupported(f"get_args of {c}: no module-level Literal[...] of strings with that name")
            return camel(c), "List String"
        if name == "Axis":
            d = _kw(n, ["name", "type", "unit", "min", "max"])
            if n.args:
                raise Unsupported("positional arguments of Axis")
            parts = [self.expr(d[k], binds) for k in ("name", "type", "unit", "min", "max")]
            if [t for _, t in parts] != ["String", "String", "String", "Option Bound", "Option Bound"]:
                raise Unsupported(f"Axis(...) of types {[t for _, t in parts]}")
            return "mkAxis " + " ".join(paren(p) for p, _ in parts), "AxisOut"
        if name == "create_props_metadata":
            d = _kw(n, ["identifier", "prop_data", "unit", "name", "description"], required=["identifier", "prop_data"])
            if "name" in d or "description" in d:
                raise Unsupported("create_props_metadata with name / description")
            i, ti = self.expr(d["identifier"], binds)
            p, tp = self.expr(d["prop_data"], binds)
            u = "none"
            if "unit" in d:
                ue, tu = self.expr(d["unit"], binds)
                if tu == "String":
                    u = f"(some {ue})"
                elif tu != "NoneT":
                    raise Unsupported(f"unit of type {tu}")
            if (ti, tp) != ("String", "PropOut"):
                raise Unsupported(f"create_props_metadata({ti}, {tp})")
            return self.bind(binds, f"createPropsMetadata emptyVlenOk {paren(i)} {paren(p)} {u}", "PropMeta")
        if name == "create_or_update_metadata":
            d = _kw(n, ["metadata", "is_directed", "axes"])
            if not (isinstance(d["metadata"], ast.Constant) and d["metadata"].value is None):
                raise Unsupported("create_or_update_metadata on an existing metadata object")
            a, ta = self.expr(d["is_directed"], binds)
            b, tb = self.expr(d["axes"], binds)
            if (ta, tb) != ("Bool", "List AxisOut"):
                raise Unsupported(f"create_or_update_metadata({ta}, {tb})")
            return f"createOrUpdateMetadata {paren(a)} {paren(b)}", "MetaAcc"
        if name == "add_or_update_props_metadata":
            d = _kw(n, ["metadata", "props_md", "c_type"])
            parts = [self.expr(d[k], binds) for k in ("metadata", "props_md", "c_type")]
            if [t for _, t in parts] != ["MetaAcc", "List PropMeta", "String"]:
                raise Unsupported(f"add_or_update_props_metadata of types {[t for _, t in parts]}")
            return self.bind(binds, "addOrUpdatePropsMetadata " + " ".join(paren(p) for p, _ in parts), "MetaAcc")
        if name in self.signatures:
            return self.call_translated(name, n, binds)
        if ast.unparse(f) == "zarr.storage.MemoryStore" and not n.args and not n.keywords:
            return "MemStore.new", "MemStore"
        if _np(f, "arange"):
            d = _kw(n, ["stop", "dtype"])
            a, ta = self.expr(d["stop"], binds)
            b, tb = self.expr(d["dtype"], binds)
            if (ta, tb) != ("Nat", "String"):
                raise Unsupported(f"np.arange({ta}, dtype={tb})")
            return f"npArange {paren(a)} {paren(b)}", "Arr"
        if _np(f, "array"):
            d = _kw(n, ["object", "dtype"])
            a, ta = self.expr(d["object"], binds)
            b, tb = self.expr(d["dtype"], binds)
            if tb != "String":
                raise Unsupported(f"np.array dtype of type {tb}")
            prim = {"List Nat": ("npArrayInts", "Arr"), "List String": ("npArrayStrs", "Arr"),
                    "List (Int × Int)": ("npArrayPairs", "EdgeArr")}.get(ta)
            if prim is None:
                raise Unsupported(f"np.array of {ta}")
            return f"{prim[0]} {paren(a)} {paren(b)}", prim[1]
        if _np(f, "linspace"):
            d = _kw(n, ["start", "stop", "num", "dtype"])
            k, tk = self.expr(d["num"], binds)
            b, tb = self.expr(d["dtype"], binds)
            if (tk, tb) != ("Nat", "String"):
                raise Unsupported(f"np.linspace(num={tk}, dtype={tb})")
            return f"npLinspace {self.as_float(d['start'])} {self.as_float(d['stop'])} {paren(k)} {paren(b)}", "Arr"
        if _np(f, "empty") or _np(f, "zeros"):
            d = _kw(n, ["shape", "dtype"])
            sh = d["shape"]
            if isinstance(sh, ast.Tuple) and len(sh.elts) == 1:
                sh = sh.elts[0]
            k, tk = self.expr(sh, binds)
            if tk != "Nat":
                raise Unsupported(f"shape of type {tk}")
            if f.attr == "empty" and _np(d["dtype"], "object_"):
                return f"npEmptyObj {paren(k)}", "Arr"
            if f.attr == "zeros" and _np(d["dtype"], "bool_"):
                return f"npZerosBool {paren(k)}", "Mask"
            raise Unsupported(src)
        if _np(f, "ones"):
            d = _kw(n, ["shape", "dtype"])
            s, ts = self.expr(d["shape"], binds)
            b, tb = self.expr(d["dtype"], binds)
            if (ts, tb) != ("List Nat", "String"):
                raise Unsupported(f"np.ones({ts}, {tb})")
            return f"npOnes {paren(s)} {paren(b)}", "Elem"
        if isinstance(f, ast.Attribute) and not n.keywords:
            if f.attr in ("min", "max") and not n.args:
                e, t = self.expr(f.value, binds)
                if t != "Arr":
                    raise Unsupported(f".{f.attr}() of {t}")
                return self.bind(binds, f"arr{f.attr.capitalize()} {paren(e)}", "Bound")
            if f.attr == "reshape" and len(n.args) == 1 and ast.unparse(n.args[0]) == "(0, 2)":
                e, t = self.expr(f.value, binds)
                if t != "EdgeArr":
                    raise Unsupported(f".reshape of {t}")
                return self.bind(binds, f"EdgeArr.reshape02 {paren(e)}", "EdgeArr")
            if f.attr == "items" and not n.args:
                e, t = self.expr(f.value, binds)
                if t != "Extra":
                    raise Unsupported(f".items() of {t}")
                return self.bind(binds, f"extraItems {paren(e)}", "List (PyKey × Req)")
        raise Unsupported(f"call {src}")

    def call_translated(self, name, n, binds):
        """keyword call of another translated function; missing arguments = the callee's defaults"""
        params, defaults = self.signatures[name]
        spec = FUNCS[name]
        d = _kw(n, [p for p, _ in params], required=[])
        args = []
        for p, ty in params:
            node = d.get(p, defaults.get(p))
            if node is None:
                raise Unsupported(f"call of {name}: no argument and no default for {p}")
            e, t = self.expr(node, binds, want=ty)
            if t != ty:
                raise Unsupported(f"call of {name}: argument {p} has type {t}, expected {ty}")
            args.append(paren(e))
        return self.bind(binds, f"{spec['lean']} emptyVlenOk " + " ".join(args), spec["ret"])

    # ---------------------------------------------------------------- statements
    def assign(self, name, value, out, ind, want=None):
        binds: list[str] = []
        want = want or LOCALS.get(name) or self.env.get(name)
        # a call of the nested function: closure variables in, mutated ones and the result out
        if isinstance(value, ast.Call) and isinstance(value.func, ast.Name) and value.func.id in self.nested:
            nf = self.nested[value.func.id]
            d = _kw(value, [p for p, _ in nf["params"]])
            args = []
            for p, ty in nf["params"]:
                e, t = self.expr(d[p], binds)
                if t != ty:
                    raise Unsupported(f"call of {value.func.id}: argument {p} has type {t}, expected {ty}")
                args.append(paren(e))
            clos = []
            for c in nf["closure"]:
                if c not in self.env or self.env[c] != nf["closure_types"][c]:
                    raise Unsupported(f"call of {value.func.id}: closure variable {c} is not bound here")
                clos.append(camel(c))
            t, _ = self.bind(binds, f"{nf['lean']} emptyVlenOk " + " ".join(clos + args), "…")
            out.extend(ind + b for b in binds)
            proj = [f"{t}.1"] + [f"{t}" + ".2" * k + ".1" for k in range(1, len(nf["mutated"]))]
            for c, pr in zip(nf["mutated"], proj):
                out.append(ind + f"{camel(c)} := {pr}")
            e, ty = f"{t}" + ".2" * len(nf["mutated"]), nf["ret"]
        else:
            e, ty = self.expr(value, binds, want=want)
            out.extend(ind + b for b in binds)
        if want and want.startswith("Option ") and ty == want[7:]:
            e, ty = f"some {paren(e)}", want
        if ty in ("NoneT", "FloatLit") or "?" in ty:
            raise Unsupported(f"variable {name}: type {ty} cannot be stored")
        first = self.declare(name, ty)
        out.append(ind + (f"let mut {camel(name)} : {ty} := {e}" if first else f"{camel(name)} := {e}"))

    def set_item(self, tgt, value, out, ind):
        binds: list[str] = []
        if not isinstance(tgt.value, ast.Name):
            raise Unsupported("item assignment into an expression")
        name = tgt.value.id
        a, ta = self.expr(tgt.value, binds)
        if ta.startswith("Dict "):
            k, tk = self.expr(tgt.slice, binds)
            v, tv = self.expr(value, binds)
            if tk != "String" or tv != ta[5:]:
                raise Unsupported(f"{name}[{tk}] = {tv}")
            out.extend(ind + b for b in binds)
            out.append(ind + f"{a} := dictSet {a} {paren(k)} {paren(v)}")
            return
        if ta == "Arr" and not isinstance(tgt.slice, ast.Slice):
            i, ti = self.expr(tgt.slice, binds)
            v, tv = self.expr(value, binds)
            if (ti, tv) != ("Nat", "Elem"):
                raise Unsupported(f"{name}[{ti}] = {tv}")
            t, _ = self.bind(binds, f"setItemObj {a} {paren(i)} {paren(v)}", "Arr")
            out.extend(ind + b for b in binds)
            out.append(ind + f"{a} := {t}")
            return
        if ta == "Mask":
            if not (isinstance(value, ast.Constant) and value.value in (1, True)):
                raise Unsupported("mask assignment of something else than 1 / True")
            sl = tgt.slice
            if isinstance(sl, ast.Slice):
                if not (sl.lower is None and sl.upper is None and isinstance(sl.step, ast.Constant) and sl.step.value == 2):
                    raise Unsupported(f"mask slice {ast.unparse(sl)}")
                out.append(ind + f"{a} := setEveryOther {a}")
                return
            i, ti = self.expr(sl, binds)
            if ti != "Nat":
                raise Unsupported("mask index")
            t, _ = self.bind(binds, f"setItemMask {a} {paren(i)}", "Mask")
            out.extend(ind + b for b in binds)
            out.append(ind + f"{a} := {t}")
            return
        raise Unsupported(f"item assignment {ast.unparse(tgt)[:50]}")

    def block(self, stmts, out, ind, top=False):
        k = 0
        while k < len(stmts):
            s = stmts[k]
            last = top and k == len(stmts) - 1
            k += 1
            if self.t9_lines and self.t9_lines[0] <= s.lineno < self.t9_lines[1]:
                # the statements translator T9 owns: one line
                res = self.t9_lines[2]
                while k < len(stmts) and self.t9_lines[0] <= stmts[k].lineno < self.t9_lines[1]:
                    k += 1
                first = self.declare(res, "List (Int × Int)")
                if not first:
                    raise Unsupported(f"{res} is assigned before the edge loops")
                out.append(ind + f"let mut {camel(res)} : List (Int × Int) ← castEdges "
                                 f"(Gen.MockEdges.gen directed (numNodes : Int) (numEdges : Int))")
                continue
            if isinstance(s, ast.Expr) and isinstance(s.value, ast.Constant) and isinstance(s.value.value, str):
                continue
            if isinstance(s, ast.FunctionDef):
                if s.name not in self.nested:
                    raise Unsupported(f"nested function {s.name}")
                continue                                        # emitted as its own definition
            if isinstance(s, ast.Assign) and len(s.targets) == 1 and isinstance(s.targets[0], ast.Name):
                self.assign(s.targets[0].id, s.value, out, ind)
            elif isinstance(s, ast.AnnAssign) and isinstance(s.target, ast.Name) and s.value is not None:
                a = ast.unparse(s.annotation)
                if a not in ANNOT:
                    raise Unsupported(f"annotation {a}")
                self.assign(s.target.id, s.value, out, ind, want=ANNOT[a])
            elif (isinstance(s, ast.Assign) and len(s.targets) == 1 and isinstance(s.targets[0], ast.Tuple)
                  and isinstance(s.value, ast.Tuple) and len(s.value.elts) == len(s.targets[0].elts)
                  and all(isinstance(t, ast.Name) for t in s.targets[0].elts)):
                names = [t.id for t in s.targets[0].elts]
                used = {x.id for v in s.value.elts for x in ast.walk(v) if isinstance(x, ast.Name)}
                if used & set(names):
                    raise Unsupported("tuple assignment whose right-hand side reads its targets")
                for nm, v in zip(names, s.value.elts):
                    self.assign(nm, v, out, ind)
            elif isinstance(s, ast.Assign) and len(s.targets) == 1 and isinstance(s.targets[0], ast.Subscript):
                self.set_item(s.targets[0], s.value, out, ind)
            elif (isinstance(s, ast.Expr) and isinstance(s.value, ast.Call) and isinstance(s.value.func, ast.Attribute)
                  and s.value.func.attr == "append" and isinstance(s.value.func.value, ast.Name)
                  and len(s.value.args) == 1 and not s.value.keywords):
                name = s.value.func.value.id
                ty = self.env.get(name, "")
                if not ty.startswith("List "):
                    raise Unsupported(f"append on {name} : {ty}")
                binds: list[str] = []
                e, t = self.expr(s.value.args[0], binds)
                if ty not in (f"List {t}", f"List ({t})"):
                    raise Unsupported(f"append of {t} to {ty}")
                out.extend(ind + b for b in binds)
                out.append(ind + f"{camel(name)} := {camel(name)} ++ [{e}]")
            elif (isinstance(s, ast.Expr) and isinstance(s.value, ast.Call) and isinstance(s.value.func, ast.Name)
                  and s.value.func.id == "write_arrays"):
                c = s.value
                if not (len(c.args) == 1 and isinstance(c.args[0], ast.Name) and len(c.keywords) == 1
                        and c.keywords[0].arg is None and isinstance(c.keywords[0].value, ast.Name)):
                    raise Unsupported(f"write_arrays call {ast.unparse(c)[:60]}")
                st, g = c.args[0].id, c.keywords[0].value.id
                if self.env.get(st) != "MemStore" or self.env.get(g) != "Geff":
                    raise Unsupported("write_arrays(store, **geff) with other types")
                t = self.fresh()
                out.append(ind + f"let {t} ← writeArraysInto {camel(st)} {camel(g)}")
                out.append(ind + f"{camel(st)} := {t}")
            elif isinstance(s, ast.Raise):
                exc = s.exc.func.id if isinstance(s.exc, ast.Call) and isinstance(s.exc.func, ast.Name) else None
                if exc not in EXC:
                    raise Unsupported(f"raise {ast.unparse(s.exc)[:40] if s.exc else ''}")
                out.append(ind + EXC[exc])
            elif isinstance(s, ast.Return):
                if not last:
                    raise Unsupported("return that is not the last statement of the function")
                binds = []
                e, t = self.expr(s.value, binds)
                if t != self.ret:
                    raise Unsupported(f"return type {t}, expected {self.ret}")
                out.extend(ind + b for b in binds)
                out.append(ind + f"return {self.wrap_return(e)}")
            elif isinstance(s, ast.If):
                self.if_(s, out, ind)
            elif isinstance(s, ast.For) and not s.orelse:
                self.for_(s, out, ind)
            else:
                raise Unsupported(f"statement {type(s).__name__} (line {s.lineno}): {ast.unparse(s)[:60]}")

    def wrap_return(self, e):
        return e

    # -------- if
    @staticmethod
    def _assigned_top(stmts) -> list[str]:
        out = []
        for s in stmts:
            if isinstance(s, ast.Assign) and len(s.targets) == 1:
                t = s.targets[0]
                if isinstance(t, ast.Name):
                    out.append(t.id)
                elif isinstance(t, ast.Tuple):
                    out += [x.id for x in t.elts if isinstance(x, ast.Name)]
        return out

    def _branches(self, s):
        """bodies of an if/elif/else chain; None when there is no final else"""
        bodies = [s.body]
        while len(s.orelse) == 1 and isinstance(s.orelse[0], ast.If):
            s = s.orelse[0]
            bodies.append(s.body)
        if not s.orelse:
            return None
        bodies.append(s.orelse)
        return bodies

    def hoist(self, s, out, ind):
        bodies = self._branches(s)
        if bodies is None:
            return
        common = set(self._assigned_top(bodies[0]))
        for b in bodies[1:]:
            common &= set(self._assigned_top(b))
        for name in [x for x in self._assigned_top(bodies[-1]) if x in common and x not in self.env]:
            val = None
            for st in bodies[-1]:
                if isinstance(st, ast.Assign) and len(st.targets) == 1:
                    t = st.targets[0]
                    if isinstance(t, ast.Name) and t.id == name:
                        val = st.value
                    elif isinstance(t, ast.Tuple) and isinstance(st.value, ast.Tuple):
                        for a, b in zip(t.elts, st.value.elts):
                            if isinstance(a, ast.Name) and a.id == name:
                                val = b
            probe: list[str] = []
            saved = self.tmp
            self.expr(val, probe, want=LOCALS.get(name))
            self.tmp = saved
            if probe:
                # the value of the final `else` can raise, so it cannot be evaluated ahead of the test: the
                # variable is declared unbound (`default`); it is assigned in EVERY branch before any read
                # (checked: `common`), so the placeholder is never observable (same discipline as T9)
                _, ty = self.expr(val, [], want=LOCALS.get(name))
                self.tmp = saved
                if ty not in ("Arr",):
                    raise Unsupported(f"variable {name} : {ty} is first assigned in every branch with a raising value")
                self.declare(name, ty)
                out.append(ind + f"let mut {camel(name)} : {ty} := default")
                continue
            self.assign(name, val, out, ind)

    def narrowing(self, s):
        """`if not isinstance(NAME, str): raise X(...)` with NAME : PyKey"""
        if s.orelse or len(s.body) != 1 or not isinstance(s.body[0], ast.Raise):
            return None
        t = s.test
        if not (isinstance(t, ast.UnaryOp) and isinstance(t.op, ast.Not) and isinstance(t.operand, ast.Call)
                and isinstance(t.operand.func, ast.Name) and t.operand.func.id == "isinstance"
                and len(t.operand.args) == 2 and isinstance(t.operand.args[0], ast.Name)
                and isinstance(t.operand.args[1], ast.Name) and t.operand.args[1].id == "str"):
            return None
        name = t.operand.args[0].id
        if self.env.get(name) != "PyKey":
            return None
        r = s.body[0]
        exc = r.exc.func.id if isinstance(r.exc, ast.Call) and isinstance(r.exc.func, ast.Name) else None
        if exc not in EXC:
            raise Unsupported(f"raise {ast.unparse(r.exc)[:40] if r.exc else ''}")
        return name, EXC[exc]

    def if_(self, s, out, ind):
        nar = self.narrowing(s)
        if nar:
            name, exc = nar
            out.append(ind + f"let {camel(name)} ← narrowStr {camel(name)} {exc}")
            self.env[name] = "String"
            return
        self.hoist(s, out, ind)
        binds: list[str] = []
        c, tc = self.expr(s.test, binds)
        if tc != "Bool":
            raise Unsupported(f"condition of type {tc}")
        out.extend(ind + b for b in binds)
        out.append(ind + f"if {c} then")
        self.push()
        self.block(s.body, out, ind + "  ")
        self.pop()
        if s.orelse:
            out.append(ind + "else")
            self.push()
            self.block(s.orelse, out, ind + "  ")
            self.pop()

    # -------- for
    def for_(self, s, out, ind):
        binds: list[str] = []
        rng = self.range_arg(s.iter, binds)
        self.push()
        if rng is not None:
            if not isinstance(s.target, ast.Name) or s.target.id in self.env:
                raise Unsupported("loop variable")
            out.extend(ind + b for b in binds)
            self.env[s.target.id] = "Nat"
            self.scopes[-1].add(s.target.id)
            out.append(ind + f"for {camel(s.target.id)} in List.range {paren(rng)} do")
        else:
            e, t = self.expr(s.iter, binds)
            if t != "List (PyKey × Req)" or not (isinstance(s.target, ast.Tuple) and len(s.target.elts) == 2
                                                 and all(isinstance(x, ast.Name) for x in s.target.elts)):
                raise Unsupported(f"iteration over {t}")
            a, b = (x.id for x in s.target.elts)
            if a in self.env or b in self.env:
                raise Unsupported("loop variables shadow locals")
            out.extend(ind + x for x in binds)
            out.append(ind + f"for kv in {e} do")
            self.env[a], self.env[b] = "PyKey", "Req"
            self.scopes[-1] |= {a, b}
            out.append(ind + f"  let {camel(a)} : PyKey := kv.1")
            out.append(ind + f"  let {camel(b)} : Req := kv.2")
        self.block(s.body, out, ind + "  ")
        self.pop()


class ReqFn(Fn):
    """inside the extra-property loops a `Req` that passed isinstance(v, str) / isinstance(v, np.ndarray)
    is used as a string / an array: the use is a (possibly failing) projection"""

    def expr(self, n, binds, want=None):
        e, t = super().expr(n, binds, want)
        if t == "Req" and want == "String":
            return self.bind(binds, f"Req.str {paren(e)}", "String")
        if t == "Req" and want == "Arr":
            return self.bind(binds, f"Req.arr' {paren(e)}", "Arr")
        return e, t

    def assign(self, name, value, out, ind, want=None):
        # prop_dtype = prop_value   (a dtype string)
        if isinstance(value, ast.Name) and self.env.get(value.id) == "Req" and name not in self.env:
            want = "String"
        super().assign(name, value, out, ind, want)

    def dict_(self, n, binds, want):
        keys = [k.value if isinstance(k, ast.Constant) else None for k in n.keys]
        if keys == ["values", "missing"] and isinstance(n.values[0], ast.Name) and self.env.get(n.values[0].id) == "Req":
            v, _ = self.expr(n.values[0], binds, want="Arr")
            m, tm = Fn.expr(self, n.values[1], binds)
            if tm != "NoneT":
                raise Unsupported("explicit array with a missing mask")
            return self.bind(binds, f"mkPropDict {paren(v)} none", "PropOut")
        return super().dict_(n, binds, want)


def _closure(fn: ast.FunctionDef, outer_types):
    params = {a.arg for a in fn.args.args}
    assigned, mutated, read = set(), [], []
    for n in ast.walk(fn):
        if isinstance(n, ast.Assign):
            for t in n.targets:
                for x in ([t] if not isinstance(t, ast.Tuple) else t.elts):
                    if isinstance(x, ast.Name):
                        assigned.add(x.id)
                    elif isinstance(x, ast.Subscript) and isinstance(x.value, ast.Name) and x.value.id not in mutated:
                        mutated.append(x.value.id)
        if isinstance(n, ast.Call) and isinstance(n.func, ast.Attribute) and n.func.attr == "append" \
                and isinstance(n.func.value, ast.Name) and n.func.value.id not in mutated:
            mutated.append(n.func.value.id)
    for n in ast.walk(fn):
        if isinstance(n, ast.Name) and n.id in outer_types and n.id not in params and n.id not in assigned \
                and n.id not in mutated and n.id not in read:
            read.append(n.id)
    mutated = [m for m in mutated if m not in params and m not in assigned]
    for m in mutated:
        if m not in outer_types:
            raise Unsupported(f"nested function mutates {m}, whose type is unknown")
    return read, mutated


def translate_nested(fn: ast.FunctionDef, outer_types, constants):
    spec = ADD_AXIS
    if fn.name != "_add_axis" or [a.arg for a in fn.args.args] != [p for p, _ in spec["params"]] \
            or fn.args.vararg or fn.args.kwarg or fn.args.kwonlyargs or fn.args.defaults:
        raise Unsupported(f"nested function {fn.name}: unexpected signature")
    read, mutated = _closure(fn, outer_types)
    clos = read + mutated
    tr = Fn([(c, outer_types[c]) for c in clos] + spec["params"], constants=constants)
    tr.ret = spec["ret"]
    tr.wrap_return = lambda e: "(" + ", ".join([camel(m) for m in mutated] + [e]) + ")"
    body: list[str] = []
    for m in mutated:
        body.append(f"  let mut {camel(m)} : {outer_types[m]} := {camel(m)}")
    tr.block(fn.body, body, "  ", top=True)
    params = " ".join(f"({camel(p)} : {t})" for p, t in [(c, outer_types[c]) for c in clos] + spec["params"])
    ret = " × ".join([paren(outer_types[m]) if " " in outer_types[m] else outer_types[m] for m in mutated] + [spec["ret"]])
    head = f"def {spec['lean']} (emptyVlenOk : Bool) {params} : Outcome ({ret}) := do"
    info = {"lean": spec["lean"], "closure": clos, "closure_types": {c: outer_types[c] for c in clos}, "mutated": mutated,
            "params": spec["params"], "ret": spec["ret"]}
    return "\n".join([head, *body]), info


def signature(fn: ast.FunctionDef, spec):
    a = fn.args
    if [x.arg for x in a.args] != [p for p, _ in spec["params"]] or a.vararg or a.kwarg or a.kwonlyargs or a.posonlyargs:
        raise Unsupported(f"signature of {fn.name} changed: {[x.arg for x in a.args]}")
    names = [x.arg for x in a.args]
    defaults = dict(zip(names[len(names) - len(a.defaults):], a.defaults))
    return spec["params"], defaults


def translate_function(fn: ast.FunctionDef, spec, signatures, constants, t9):
    signature(fn, spec)
    defs = []
    nested = {}
    outer_types = dict(spec["params"])
    for s in fn.body:
        if isinstance(s, ast.AnnAssign) and isinstance(s.target, ast.Name) and ast.unparse(s.annotation) in ANNOT:
            outer_types[s.target.id] = ANNOT[ast.unparse(s.annotation)]
    for s in fn.body:
        if isinstance(s, ast.FunctionDef):
            text, info = translate_nested(s, outer_types, constants)
            defs.append(f"/-- `{fn.name}.{s.name}` ({SRC}:{s.lineno}); closure variables {info['closure']} are "
                        f"parameters, the mutated ones {info['mutated']} are returned -/\n" + text)
            nested[s.name] = info
    cls = ReqFn if fn.name == "create_dummy_in_mem_geff" else Fn
    tr = cls(spec["params"], signatures=signatures, constants=constants,
             t9_lines=t9 if fn.name == "create_dummy_in_mem_geff" else None, nested=nested)
    tr.ret = spec["ret"]
    body: list[str] = []
    if fn.name == "create_dummy_in_mem_geff":
        # every top-level `if` paragraph of the source becomes a definition of its own (`blockX`): the
        # variables of the enclosing function it reads are parameters, those it changes are returned
        stmts = [s for s in fn.body]
        k = 0
        seen_blocks: set[str] = set()
        while k < len(stmts):
            s = stmts[k]
            in_t9 = t9 and t9[0] <= s.lineno < t9[1]
            if isinstance(s, ast.If) and not in_t9:
                defs.append(paragraph(s, tr, cls, body, seen_blocks))
                k += 1
                continue
            j = k + 1
            if in_t9:
                while j < len(stmts) and t9[0] <= stmts[j].lineno < t9[1]:
                    j += 1
            tr.block(stmts[k:j], body, "  ", top=(j == len(stmts)))
            k = j
    else:
        tr.block(fn.body, body, "  ", top=True)
    if fn.name == "create_dummy_in_mem_geff" and not any("Gen.MockEdges.gen" in b for b in body):
        raise Unsupported("the edge loops of translator T9 were not met in the body")
    params = " ".join(f"({camel(p)} : {t})" for p, t in spec["params"])
    head = f"def {spec['lean']} (emptyVlenOk : Bool) {params} : Outcome ({spec['ret']}) := do"
    defs.append(f"/-- `{fn.name}` ({SRC}:{fn.lineno}) -/\n" + "\n".join([head, *body]))
    return defs


def _mutated_names(stmt, nested) -> list[str]:
    out: list[str] = []

    def add(x):
        if x not in out:
            out.append(x)
    for n in ast.walk(stmt):
        if isinstance(n, ast.Assign):
            if isinstance(n.value, ast.Call) and isinstance(n.value.func, ast.Name) and n.value.func.id in nested:
                for m in nested[n.value.func.id]["mutated"]:
                    add(m)
            for t in n.targets:
                for x in ([t] if not isinstance(t, ast.Tuple) else t.elts):
                    if isinstance(x, ast.Name):
                        add(x.id)
                    elif isinstance(x, ast.Subscript) and isinstance(x.value, ast.Name):
                        add(x.value.id)
        elif isinstance(n, (ast.AugAssign, ast.AnnAssign)) and isinstance(n.target, ast.Name):
            add(n.target.id)
        elif isinstance(n, ast.Call) and isinstance(n.func, ast.Attribute) and n.func.attr == "append" \
                and isinstance(n.func.value, ast.Name):
            add(n.func.value.id)
    return out


def paragraph(s: ast.If, tr, cls, body, seen) -> str:
    """a top-level `if` statement of `create_dummy_in_mem_geff` as a definition of its own; appends the
    call (and the re-assignment of the changed variables) to `body`"""
    first = next((n.id for n in ast.walk(s.test) if isinstance(n, ast.Name)), None)
    if first is None:
        raise Unsupported(f"paragraph at line {s.lineno}: no variable in its condition")
    c = _camel(first)
    lean = "block" + c[0].upper() + c[1:]
    if lean in seen:
        raise Unsupported(f"two paragraphs are conditioned on {first}")
    seen.add(lean)
    used = {n.id for n in ast.walk(s) if isinstance(n, ast.Name)}
    for n in ast.walk(s):
        if isinstance(n, ast.Call) and isinstance(n.func, ast.Name) and n.func.id in tr.nested:
            used |= set(tr.nested[n.func.id]["closure"])
    mutated = [m for m in _mutated_names(s, tr.nested) if m in tr.env]
    params = [(v, t) for v, t in tr.env.items() if v in used or v in mutated]
    sub = cls(params, signatures=tr.signatures, constants=tr.constants, nested=tr.nested)
    lines: list[str] = []
    for m in mutated:
        lines.append(f"  let mut {camel(m)} : {tr.env[m]} := {camel(m)}")
    sub.block([s], lines, "  ")
    lines.append("  return (" + ", ".join(camel(m) for m in mutated) + ")")
    if not mutated:
        raise Unsupported(f"paragraph at line {s.lineno} changes nothing")
    ret = " × ".join((f"({tr.env[m]})" if " " in tr.env[m] else tr.env[m]) for m in mutated)
    head = (f"def {lean} (emptyVlenOk : Bool) " + " ".join(f"({camel(v)} : {t})" for v, t in params)
            + f" : Outcome ({ret}) := do")
    t = tr.fresh()
    body.append(f"  let {t} ← {lean} emptyVlenOk " + " ".join(camel(v) for v, _ in params))
    if len(mutated) == 1:
        body.append(f"  {camel(mutated[0])} := {t}")
    else:
        for k, m in enumerate(mutated):
            proj = t + ".2" * k + (".1" if k < len(mutated) - 1 else "")
            body.append(f"  {camel(m)} := {proj}")
    return (f"/-- the paragraph `if {ast.unparse(s.test)[:60]}:` of `create_dummy_in_mem_geff` ({SRC}:{s.lineno}); "
            f"reads {[v for v, _ in params]}, returns {mutated} -/\n" + "\n".join([head, *lines]))


def stub(spec) -> str:
    params = " ".join(f"(_{camel(p)} : {t})" for p, t in spec["params"])
    return (f"def {spec['lean']} (_emptyVlenOk : Bool) {params} : Outcome ({spec['ret']}) := "
            f".other \"untranslated\"")


ADD_AXIS_STUB = ("def addAxis (_emptyVlenOk : Bool) (_numNodes : Nat) (_nodeProps : Dict PropOut) (_axes : List AxisOut) "
                 "(_name : String) (_axType : String) (_unit : String) (_values : Arr) : "
                 "Outcome (Dict PropOut × List AxisOut × PropMeta) := .other \"untranslated\"")


def literal_constants(tree):
    """module-level `X = Literal["a", "b", …]`"""
    out = {}
    for s in tree.body:
        if (isinstance(s, ast.Assign) and len(s.targets) == 1 and isinstance(s.targets[0], ast.Name)
                and isinstance(s.value, ast.Subscript) and isinstance(s.value.value, ast.Name)
                and s.value.value.id == "Literal"):
            sl = s.value.slice
            elts = sl.elts if isinstance(sl, ast.Tuple) else [sl]
            if all(isinstance(e, ast.Constant) and isinstance(e.value, str) for e in elts):
                out[s.targets[0].id] = [e.value for e in elts]
    return out


def run(repo: Path, out: Path):
    errors = {}
    defs: list[str] = []
    fns, constants, t9 = {}, {}, None
    try:
        tree = ast.parse((repo / SRC).read_text())
        fns = {n.name: n for n in tree.body if isinstance(n, ast.FunctionDef)}
        constants = literal_constants(tree)
    except Exception as e:  # noqa: BLE001
        errors["parse"] = f"{type(e).__name__}: {e}"
    try:
        from harness.translators import t9_mock_edges as t9mod

        sl, res, span = t9mod._extract(repo)
        t9 = (span[0], span[1], res)
    except Exception as e:  # noqa: BLE001
        errors["T9 slice"] = f"{type(e).__name__}: {e}"
    signatures = {}
    for name in ORDER:
        try:
            if name not in fns:
                raise Unsupported(f"function {name} not found")
            signatures[name] = signature(fns[name], FUNCS[name])
        except Unsupported as e:
            errors[f"{name} (signature)"] = str(e)
    have_add_axis = False
    for name in ORDER:
        spec = FUNCS[name]
        try:
            if name not in fns or name not in signatures:
                raise Unsupported(f"function {name} not found or its signature changed")
            if name == "create_dummy_in_mem_geff" and t9 is None:
                raise Unsupported("the statements translator T9 owns could not be located")
            visible = {k: v for k, v in signatures.items() if ORDER.index(k) < ORDER.index(name)}
            got = translate_function(fns[name], spec, visible, constants, t9)
            have_add_axis = have_add_axis or any(d.split("\n", 1)[1].startswith("def addAxis ") for d in got)
            defs += got
        except Unsupported as e:
            errors[name] = str(e)
            if name == "create_dummy_in_mem_geff":
                defs.append("/-- `_add_axis`: NOT TRANSLATED -/\n" + ADD_AXIS_STUB)
                have_add_axis = True
            defs.append(f"/-- `{name}`: NOT TRANSLATED ({e}) -/\n" + stub(spec))
    if not have_add_axis:
        # the nested function disappeared from the source: keep the name the proofs refer to
        errors.setdefault("_add_axis", "nested function _add_axis not found")
        defs.insert(0, "/-- `_add_axis`: NOT FOUND -/\n" + ADD_AXIS_STUB)
    ok = not errors
    consts = ""
    for k in ("DTypeStr",):
        vals = constants.get(k)
        if vals is None:
            ok = False
            errors[k] = "module-level Literal not found"
            vals = []
        consts += f"/-- `{k}` -/\ndef {camel(k)} : List String := [" + ", ".join(lean_str(v) for v in vals) + "]\n"
    body = "import GeffModel.PyDoMock\nimport Gen.MockEdges\n" + HEADER
    body += "/-! `geff/testing/data.py`, statement by statement (translator T24); the edge loops are T9's. -/\n"
    body += "set_option linter.unusedVariables false\n"
    body += "namespace Gen.MockData\nopen Geff.MockData Geff.PyDoMock\n\n"
    body += f"def translationOk : Bool := {'true' if ok else 'false'}\n\n" + consts + "\n"
    body += "\n\n".join(defs) + "\n\nend Gen.MockData\n"
    write_if_changed(out / "MockData.lean", body)
    return {"ok": ok, **({"error": "; ".join(f"{k}: {v}" for k, v in errors.items())} if errors else {})}
