"""T18: geff/convert/_dataframe.py -> lean/Gen/Dataframe.lean  (Python -> Lean `do`-notation).

The two functions of the table export

    geff_to_dataframes, geff_to_csv

are translated *statement by statement* from the AST of the working tree (parsed, never imported)
into Lean `do`-blocks, with the engine of T12 (typed expression table, operations that can raise bound
with `let tN ← …` where Python evaluates them, refusal of everything outside the subset):

* `geff_to_dataframes` in the monad `Geff.PyDoDf.Res` (outcomes without side effects).  The warnings it
  emits (`warnings.warn(msg, stacklevel=…)`) are collected in emission order in the extra mutable
  `warnings_` and returned next to the result: the generated function returns `(tuple, warnings_)`;
* `geff_to_csv` in the monad `Geff.PyDoDf.IOM` (outcomes over a world of files and warnings).

Statements: `x = e` -> `let mut x : T := e` / `x := e`; `a, b = e`; `d[k] = v` -> `d := dictSet d k v`;
`l.append(e)`; `for v in xs` / `for i in range(n)` / `for k, v in d.items()` / `for s in ["a", "b"]`;
`if / elif / else` (a condition `A and B` / `A or B` whose later operand can raise is evaluated with
Python's short circuit); `continue`; `warnings.warn(…)`; `df.to_csv(path, mode=…, index=…)` (mode
defaults to "w", index to True, as in pandas); `return tuple(l)` as the last statement.  A variable
first assigned in both branches of an `if/else` (Python function scope) is declared before the `if`
with `default` (never observed: both branches assign it); a variable first assigned in one branch or
in a loop body is local to that block (a later use is an unknown variable -> refused).

Expressions: the typed table in `Fn.expr` / `Fn.call` — `read_to_memory`, the subscripts of the
in-memory geff and of a property, `e[:, k]`, `shape[:1]`, `shape[1:]`, `shape[k]`, `tuple(d for d in s
if c)`, `[e, …]`, `+` on tuples / lists / ints / strings, `.reshape`, `.squeeze()`, `.shape`, `.ndim`, `len`, `pd.Series`,
`any(m)`, `Series.mask(m)`, `pd.DataFrame`, f-strings over strings and ints, `str(i)`, `a if c else b`,
`Path(p).with_suffix(s)` (kept as its `str()`), comparisons.  Each primitive is defined in
`GeffModel/PyDoDataframe.lean` from the primitives of the hand-written model, with Python's
exceptions as outcomes.  Local variable types come from the fixed table `FUNCS`; a local that is not
in the table gets the type of its first right-hand side when that is fully determined.

Anything else — another statement kind, an unknown call / attribute / keyword, an unknown variable,
a type the table does not predict, a changed signature or default — makes the translation of that
function fail: the Gen file then carries a stub with the same signature and `translationOk := false`,
which `GeffProps.C17Gen.translated` requires to be `true`.  A translation that succeeds but computes
something else leaves `GeffProofs.DataframeGen` (generated = hand-written model) unprovable.

Consumer: C17 (`GeffProps/C17Gen.lean`)."""
from __future__ import annotations

import ast
from pathlib import Path

from harness.translate import HEADER, lean_str, write_if_changed
from harness.translators.t12_pydo_serialization import Unsupported, camel
from harness.translators.t13_pydo_segmentation import atom

NAME = "T18_pydo_dataframe"
PROPS = ["C17"]
SRC = "packages/geff/src/geff/convert/_dataframe.py"

T_STORE, T_MG, T_DICT, T_PROPS, T_PROP = "StoreLike α", "InMemGeff α", "Dict α", "List (PropArr α)", "PropArr α"
T_MISS, T_ARR, T_SER, T_IDS, T_PAIRS, T_SHAPE = "Option (List Bool)", "Arr α", "Series α", "List α", "List (α × α)", "List Nat"
T_FRAMES = "List (Dict α)"

FUNCS = {
    "geff_to_dataframes": {
        "lean": "geffToDataframes", "monad": "Res",
        "params": [("store", T_STORE)], "defaults": [],
        "ret": f"{T_FRAMES} × List String", "pyret": T_FRAMES,
        "locals": {"memory_geff": T_MG, "dataframes": T_FRAMES, "data_type": "String", "df_dict": T_DICT,
                   "props": T_PROPS, "name": "String", "prop": T_PROP, "missing": T_MISS, "values": T_ARR,
                   "ndim": "Nat", "i": "Nat", "series": T_SER},
    },
    "geff_to_csv": {
        "lean": "geffToCsv", "monad": "IOM",
        "params": [("store", T_STORE), ("outpath", "String"), ("overwrite", "Bool")], "defaults": [False],
        "ret": "Unit", "pyret": None,
        "locals": {"node_path": "String", "edge_path": "String", "node_df": T_DICT, "edge_df": T_DICT, "mode": "String"},
    },
}
# types that have an `Inhabited` instance (pre-declaration of a variable assigned in both branches)
DEFAULTABLE = (T_PROPS, T_DICT, T_FRAMES, T_MISS, T_IDS, T_PAIRS, T_SHAPE, T_SER, "String", "Nat", "Bool")
MG_KEYS = {"node_ids": ("nodeIds", T_IDS), "edge_ids": ("edgeIds", T_PAIRS),
           "node_props": ("nodeProps", T_PROPS), "edge_props": ("edgeProps", T_PROPS)}
PROP_KEYS = {"missing": ("propMissing", T_MISS), "values": ("propValues", T_ARR)}
WARN = "warnings_"


def _attr_of(node, mod, attr):
    return (isinstance(node, ast.Attribute) and node.attr == attr and isinstance(node.value, ast.Name)
            and node.value.id == mod)


def _const(node, typ):
    return isinstance(node, ast.Constant) and type(node.value) is typ


def _full_slice(s):
    return isinstance(s, ast.Slice) and s.lower is None and s.upper is None and s.step is None


class Fn:
    def __init__(self, spec):
        self.spec = spec
        self.monad = spec["monad"]
        self.env = dict(spec["params"])          # python name -> Lean type, in scope
        self.immutable = {p for p, _ in spec["params"]}
        self.locals = spec["locals"]
        self.tmp = 0
        self.loops = 0

    # ---------------------------------------------------------------- helpers
    def fresh(self, prefix="t"):
        self.tmp += 1
        return f"{prefix}{self.tmp}"

    def bind(self, binds, action, ty, monad="Res"):
        if monad != self.monad:
            raise Unsupported(f"`{action.split()[0]}` is not available inside {self.spec['lean']}")
        t = self.fresh()
        binds.append(f"let {t} ← {action}")
        return t, ty

    # ---------------------------------------------------------------- expressions
    def expr(self, n, binds, want=None):
        """-> (lean text, lean type); operations that can raise are appended to `binds`"""
        if isinstance(n, ast.Name):
            if n.id not in self.env:
                raise Unsupported(f"unknown variable {n.id}")
            return camel(n.id), self.env[n.id]
        if isinstance(n, ast.Constant):
            if isinstance(n.value, bool):
                return ("true" if n.value else "false"), "Bool"
            if isinstance(n.value, int) and n.value >= 0:
                return str(n.value), "Nat"
            if isinstance(n.value, str):
                return lean_str(n.value), "String"
            raise Unsupported(f"constant {n.value!r}")
        if isinstance(n, (ast.List, ast.Dict)) and not (n.elts if isinstance(n, ast.List) else n.keys):
            ok = want is not None and (want.startswith("List ") if isinstance(n, ast.List) else want == T_DICT)
            if not ok:
                raise Unsupported(f"empty {'list' if isinstance(n, ast.List) else 'dict'} of unknown type")
            return "[]", want
        if isinstance(n, ast.List) and all(_const(e, str) for e in n.elts):
            return "[" + ", ".join(lean_str(e.value) for e in n.elts) + "]", "List String"
        if isinstance(n, ast.List) and n.elts and not any(isinstance(e, ast.Starred) for e in n.elts):
            parts = [self.expr(e, binds) for e in n.elts]
            t0 = parts[0][1]
            if any(t != t0 for _, t in parts) or "?" in t0:
                raise Unsupported(f"list of mixed types {ast.unparse(n)[:40]}")
            return "[" + ", ".join(e for e, _ in parts) + "]", (f"List {t0}" if t0.isidentifier() else f"List ({t0})")
        if isinstance(n, ast.JoinedStr):
            parts = []
            for p in n.values:
                if _const(p, str):
                    parts.append(lean_str(p.value))
                elif isinstance(p, ast.FormattedValue) and p.conversion == -1 and p.format_spec is None:
                    e, t = self.expr(p.value, binds)
                    if t == "String":
                        parts.append(atom(e))
                    elif t == "Nat":
                        parts.append(f"toString {atom(e)}")
                    else:
                        raise Unsupported(f"f-string interpolation of {t}")
                else:
                    raise Unsupported("f-string with a conversion or a format specification")
            return (" ++ ".join(parts) if parts else '""'), "String"
        if isinstance(n, ast.UnaryOp) and isinstance(n.op, ast.Not):
            e, t = self.expr(n.operand, binds)
            if t == "Bool":
                return f"!{atom(e)}", "Bool"
            if t == "Prop":
                return f"¬ {atom(e)}", "Prop"
            raise Unsupported(f"not on {t}")
        if isinstance(n, ast.BoolOp):
            parts = [self.expr(v, binds) for v in n.values]
            if not all(t in ("Bool", "Prop") for _, t in parts):
                raise Unsupported("boolean operator on non-boolean operands")
            op = " || " if isinstance(n.op, ast.Or) else " && "
            return "(" + op.join(e if t == "Bool" else f"decide ({e})" for e, t in parts) + ")", "Bool"
        if isinstance(n, ast.Compare) and len(n.ops) == 1:
            op, l, r = n.ops[0], n.left, n.comparators[0]
            if isinstance(op, (ast.Is, ast.IsNot)) and isinstance(r, ast.Constant) and r.value is None:
                e, t = self.expr(l, binds)
                if not t.startswith("Option "):
                    raise Unsupported(f"`is None` on {t}")
                return (f"{atom(e)}.isNone" if isinstance(op, ast.Is) else f"{atom(e)}.isSome"), "Bool"
            a, ta = self.expr(l, binds)
            b, tb = self.expr(r, binds)
            if isinstance(op, (ast.Eq, ast.NotEq)) and ta == tb and ta in ("String", "Nat", "Bool"):
                return f"{a} {'==' if isinstance(op, ast.Eq) else '!='} {b}", "Bool"
            sym = {ast.Lt: "<", ast.LtE: "≤", ast.Gt: ">", ast.GtE: "≥"}.get(type(op))
            if sym and ta == tb == "Nat":
                return f"{a} {sym} {b}", "Prop"
            raise Unsupported(f"comparison {ast.unparse(n)} ({ta}, {tb})")
        if isinstance(n, ast.BinOp) and isinstance(n.op, ast.Add):
            a, ta = self.expr(n.left, binds)
            b, tb = self.expr(n.right, binds)
            if ta == tb == "Nat":
                return f"{a} + {b}", "Nat"
            if ta == tb and (ta == "String" or ta.startswith("List ")):
                return f"{a} ++ {b}", ta
            raise Unsupported(f"+ on {ta}, {tb}")
        if isinstance(n, ast.IfExp):
            c, tc = self.expr(n.test, binds)
            sub: list[str] = []
            a, ta = self.expr(n.body, sub)
            b, tb = self.expr(n.orelse, sub)
            if sub:
                raise Unsupported("raising operation inside a conditional expression")
            if ta != tb or tc not in ("Bool", "Prop"):
                raise Unsupported("conditional expression types")
            return f"(if {c} then {a} else {b})", ta
        if isinstance(n, ast.Attribute):
            e, t = self.expr(n.value, binds)
            if t == T_ARR and n.attr == "shape":
                return f"{atom(e)}.shape", T_SHAPE
            if t == T_ARR and n.attr == "ndim":
                return f"{atom(e)}.shape.length", "Nat"
            raise Unsupported(f"attribute .{n.attr} of {t}")
        if isinstance(n, ast.Subscript):
            return self.subscript(n, binds)
        if isinstance(n, ast.Call):
            return self.call(n, binds)
        raise Unsupported(f"expression {ast.unparse(n)}")

    def subscript(self, n, binds):
        e, t = self.expr(n.value, binds)
        s = n.slice
        if t == T_MG and _const(s, str) and s.value in MG_KEYS:
            f, ty = MG_KEYS[s.value]
            return f"{f} {atom(e)}", ty
        if t == T_PROP and _const(s, str) and s.value in PROP_KEYS:
            f, ty = PROP_KEYS[s.value]
            return f"{f} {atom(e)}", ty
        if isinstance(s, ast.Tuple) and len(s.elts) == 2 and _full_slice(s.elts[0]):     # e[:, k]
            if isinstance(s.elts[1], ast.Slice):
                raise Unsupported(f"subscript {ast.unparse(n)}")
            k, tk = self.expr(s.elts[1], binds)
            if tk != "Nat":
                raise Unsupported(f"column index of type {tk}")
            if t == T_PAIRS:
                return self.bind(binds, f"pairCol {atom(e)} {atom(k)}", T_IDS)
            if t == T_ARR:
                return self.bind(binds, f"sliceCol {atom(e)} {atom(k)}", T_IDS)
            raise Unsupported(f"[:, k] on {t}")
        if t == T_SHAPE and isinstance(s, ast.Slice) and s.step is None:
            lo, up = s.lower, s.upper
            if lo is None and up is not None and _const(up, int) and up.value >= 0:
                return f"{atom(e)}.take {up.value}", T_SHAPE
            if up is None and lo is not None and _const(lo, int) and lo.value >= 0:
                return f"{atom(e)}.drop {lo.value}", T_SHAPE
            raise Unsupported(f"slice {ast.unparse(n)}")
        if t == T_SHAPE and not isinstance(s, (ast.Slice, ast.Tuple)):
            k, tk = self.expr(s, binds)
            if tk != "Nat":
                raise Unsupported(f"shape index of type {tk}")
            return self.bind(binds, f"shapeAt {atom(e)} {atom(k)}", "Nat")
        raise Unsupported(f"subscript {ast.unparse(n)} on {t}")

    def call(self, n, binds):
        f = n.func
        src = ast.unparse(n)
        nargs, kws = len(n.args), n.keywords
        if any(isinstance(a, ast.Starred) for a in n.args) or any(k.arg is None for k in kws):
            raise Unsupported(f"call {src}")
        if isinstance(f, ast.Name) and not kws and nargs == 1:
            if f.id == "read_to_memory":
                e, t = self.expr(n.args[0], binds)
                if t == T_STORE:
                    return self.bind(binds, f"readToMemory {atom(e)}", T_MG)
                raise Unsupported(f"read_to_memory of {t}")
            if f.id == "len":
                e, t = self.expr(n.args[0], binds)
                if t.startswith("List "):
                    return f"{atom(e)}.length", "Nat"
                raise Unsupported(f"len of {t}")
            if f.id == "any":
                e, t = self.expr(n.args[0], binds)
                if t == T_MISS:
                    return self.bind(binds, f"anyOpt {atom(e)}", "Bool")
                raise Unsupported(f"any of {t}")
            if f.id == "str":
                e, t = self.expr(n.args[0], binds)
                if t == "Nat":
                    return f"toString {atom(e)}", "String"
                if t == "String":
                    return e, "String"
                raise Unsupported(f"str of {t}")
            if f.id == "tuple":
                a = n.args[0]
                if isinstance(a, ast.GeneratorExp):
                    return self.filter_gen(a, binds)
                e, t = self.expr(a, binds)
                if t.startswith("List "):
                    return f"tupleOf {atom(e)}", t
                raise Unsupported(f"tuple of {t}")
            if f.id in FUNCS and FUNCS[f.id]["monad"] == "Res":
                spec = FUNCS[f.id]
                e, t = self.expr(n.args[0], binds)
                if [t] != [ty for _, ty in spec["params"]]:
                    raise Unsupported(f"call {src}: argument type {t}")
                if self.monad != "IOM":
                    raise Unsupported(f"call of {f.id} inside {self.spec['lean']}")
                return self.bind(binds, f"callDataframes ({spec['lean']} {atom(e)})", spec["pyret"], monad="IOM")
        if _attr_of(f, "pd", "Series") and nargs == 1 and not kws:
            e, t = self.expr(n.args[0], binds)
            if t == T_IDS:
                return f"pdSeries1 {atom(e)}", T_SER
            if t == T_ARR:
                return self.bind(binds, f"pdSeries {atom(e)}", T_SER)
            raise Unsupported(f"pd.Series of {t}")
        if _attr_of(f, "pd", "DataFrame") and nargs == 1 and not kws:
            e, t = self.expr(n.args[0], binds)
            if t == T_DICT:
                return f"pdDataFrame {atom(e)}", T_DICT
            raise Unsupported(f"pd.DataFrame of {t}")
        if isinstance(f, ast.Attribute) and not kws:
            # Path(p).with_suffix(s)
            if (f.attr == "with_suffix" and nargs == 1 and isinstance(f.value, ast.Call) and isinstance(f.value.func, ast.Name)
                    and f.value.func.id == "Path" and len(f.value.args) == 1 and not f.value.keywords):
                p, tp = self.expr(f.value.args[0], binds)
                s, ts = self.expr(n.args[0], binds)
                if (tp, ts) == ("String", "String"):
                    return self.bind(binds, f"pathWithSuffix env {atom(p)} {atom(s)}", "String", monad="IOM")
                raise Unsupported(src)
            if f.attr in ("reshape", "squeeze", "mask"):
                e, t = self.expr(f.value, binds)
                if f.attr == "reshape" and t == T_ARR and nargs == 1:
                    s, ts = self.expr(n.args[0], binds)
                    if ts == T_SHAPE:
                        return self.bind(binds, f"reshape {atom(e)} {atom(s)}", T_ARR)
                if f.attr == "squeeze" and t == T_ARR and nargs == 0:
                    return self.bind(binds, f"squeeze {atom(e)}", T_ARR)
                if f.attr == "mask" and t == T_SER and nargs == 1:
                    m, tm = self.expr(n.args[0], binds)
                    if tm == T_MISS:
                        return self.bind(binds, f"seriesMask {atom(e)} {atom(m)}", T_SER)
                raise Unsupported(f"call {src} on {t}")
        raise Unsupported(f"call {src}")

    def filter_gen(self, g, binds):
        """`tuple(d for d in s if c)` -> `s.filter (fun d => c)`"""
        if len(g.generators) != 1:
            raise Unsupported("nested generator")
        c = g.generators[0]
        if (c.is_async or not isinstance(c.target, ast.Name) or not isinstance(g.elt, ast.Name) or g.elt.id != c.target.id
                or len(c.ifs) != 1):
            raise Unsupported(f"generator {ast.unparse(g)}")
        s, ts = self.expr(c.iter, binds)
        if ts != T_SHAPE:
            raise Unsupported(f"generator over {ts}")
        v = c.target.id
        if v in self.env:
            raise Unsupported(f"generator variable {v} shadows a local")
        self.env[v] = "Nat"
        try:
            sub: list[str] = []
            cond, tc = self.expr(c.ifs[0], sub)
        finally:
            del self.env[v]
        if sub or tc not in ("Bool", "Prop"):
            raise Unsupported("generator condition")
        return f"{atom(s)}.filter (fun {camel(v)} => {cond})", T_SHAPE

    # ---------------------------------------------------------------- statements
    def declare(self, name, ty, top):
        want = self.locals.get(name)
        if name in self.env:
            want = self.env[name]
        elif want is None:
            if "?" in ty or not ty:
                raise Unsupported(f"variable {name} is not in the typing table and its type cannot be inferred")
            want = ty
        if ty != want:
            raise Unsupported(f"variable {name}: expected {want}, got {ty}")
        first = name not in self.env
        if name in self.immutable:
            if name not in {p for p, _ in self.spec["params"]} or not top:
                raise Unsupported(f"assignment to {name} (a loop variable, or a parameter inside a block)")
            self.immutable.discard(name)
            first = True
        self.env[name] = want
        return first, want

    def assign(self, name, value, out, ind, top):
        binds: list[str] = []
        want = self.env.get(name, self.locals.get(name))
        e, t = self.expr(value, binds, want=want)
        if t == T_IDS and want == T_SER:                       # a 1-D array stored where a column is expected
            e, t = f"arr1Column {atom(e)}", T_SER
        out.extend(ind + b for b in binds)
        first, ty = self.declare(name, t, top)
        out.append(ind + (f"let mut {camel(name)} : {ty} := {e}" if first else f"{camel(name)} := {e}"))

    def cond(self, test, out, ind):
        """condition of an `if`; `A and B` / `A or B` whose later operands contain operations that can
        raise are evaluated with Python's short circuit"""
        if isinstance(test, ast.BoolOp):
            probe: list[str] = []
            saved = self.tmp
            for v in test.values[1:]:
                self.expr(v, probe)
            self.tmp = saved
            if probe:
                is_and = isinstance(test.op, ast.And)

                def mon(k):
                    sub: list[str] = []
                    e, t = self.expr(test.values[k], sub)
                    if t not in ("Bool", "Prop"):
                        raise Unsupported(f"condition operand of type {t}")
                    e = f"decide ({e})" if t == "Prop" else e
                    if k == len(test.values) - 1:
                        tail = f"pure {atom(e)}"
                    else:
                        nsub, ntail = mon(k + 1)
                        nxt = ntail if not nsub else "(do " + "; ".join(nsub) + f"; {ntail})"
                        tail = f"if {e} then {nxt} else pure false" if is_and else f"if {e} then pure true else {nxt}"
                    return sub, tail
                sub, tail = mon(0)
                out.extend(ind + b for b in sub)
                c = self.fresh("c")
                out.append(ind + f"let {c} : Bool ← ({tail})")
                return c
        binds: list[str] = []
        c, tc = self.expr(test, binds)
        if tc not in ("Bool", "Prop"):
            raise Unsupported(f"condition of type {tc}")
        out.extend(ind + b for b in binds)
        return c

    def block(self, stmts, out, ind, top=False):
        before = set(self.env)
        for k, s in enumerate(stmts):
            last = top and k == len(stmts) - 1
            if isinstance(s, ast.Expr) and _const(s.value, str):
                continue                                                     # docstring
            if isinstance(s, ast.Assign) and len(s.targets) == 1 and isinstance(s.targets[0], ast.Name):
                self.assign(s.targets[0].id, s.value, out, ind, top)
            elif (isinstance(s, ast.Assign) and len(s.targets) == 1 and isinstance(s.targets[0], ast.Tuple)
                  and len(s.targets[0].elts) == 2 and all(isinstance(e, ast.Name) for e in s.targets[0].elts)):
                binds: list[str] = []                                        # a, b = e
                e, t = self.expr(s.value, binds)
                if not t.startswith("List "):
                    raise Unsupported(f"unpacking of {t}")
                el = t[5:][1:-1] if t[5:].startswith("(") else t[5:]
                out.extend(ind + b for b in binds)
                u = self.fresh()
                if self.monad != "IOM":
                    raise Unsupported("tuple unpacking outside geff_to_csv")
                out.append(ind + f"let {u} ← unpack2 {atom(e)}")
                for j, tg in enumerate(s.targets[0].elts):
                    first, ty = self.declare(tg.id, el, top)
                    proj = f"{u}.{j + 1}"
                    out.append(ind + (f"let mut {camel(tg.id)} : {ty} := {proj}" if first else f"{camel(tg.id)} := {proj}"))
            elif (isinstance(s, ast.Assign) and len(s.targets) == 1 and isinstance(s.targets[0], ast.Subscript)
                  and isinstance(s.targets[0].value, ast.Name)):
                tgt = s.targets[0]                                           # d[k] = v
                binds = []
                d, td = self.expr(tgt.value, binds)
                if td != T_DICT or tgt.value.id in self.immutable:
                    raise Unsupported(f"item assignment {ast.unparse(s)[:60]}")
                kx, tk = self.expr(tgt.slice, binds)
                v, tv = self.expr(s.value, binds)
                if tv == T_IDS:
                    v, tv = f"arr1Column {atom(v)}", T_SER
                if (tk, tv) != ("String", T_SER):
                    raise Unsupported(f"item assignment {ast.unparse(s)[:60]}: key {tk}, value {tv}")
                out.extend(ind + b for b in binds)
                out.append(ind + f"{d} := dictSet {d} {atom(kx)} {atom(v)}")
            elif isinstance(s, ast.AugAssign) and isinstance(s.op, ast.Add) and isinstance(s.target, ast.Name):
                self.assign(s.target.id, ast.BinOp(left=ast.Name(id=s.target.id, ctx=ast.Load()), op=ast.Add(), right=s.value),
                            out, ind, top)
            elif isinstance(s, ast.Expr) and isinstance(s.value, ast.Call):
                self.call_stmt(s.value, out, ind)
            elif isinstance(s, ast.Continue):
                if not self.loops:
                    raise Unsupported("continue outside a loop")
                out.append(ind + "continue")
            elif isinstance(s, ast.Return):
                if not last or s.value is None or self.spec["pyret"] is None:
                    raise Unsupported("return that is not the last statement of the function / in a function without result")
                binds = []
                e, t = self.expr(s.value, binds)
                if t != self.spec["pyret"]:
                    raise Unsupported(f"return type {t}, expected {self.spec['pyret']}")
                out.extend(ind + b for b in binds)
                out.append(ind + f"return ({e}, {WARN})")
            elif isinstance(s, ast.If):
                self.if_(s, out, ind, top)
            elif isinstance(s, ast.For) and not s.orelse:
                self.for_(s, out, ind)
            else:
                raise Unsupported(f"statement {type(s).__name__}: {ast.unparse(s)[:60]}")
        if not top:
            for v in set(self.env) - before:                                 # block-local variables
                del self.env[v]

    def call_stmt(self, c, out, ind):
        f = c.func
        src = ast.unparse(c)
        binds: list[str] = []
        if (isinstance(f, ast.Attribute) and f.attr == "append" and isinstance(f.value, ast.Name)
                and len(c.args) == 1 and not c.keywords):
            name = f.value.id
            ty = self.env.get(name, "")
            if not ty.startswith("List ") or name in self.immutable:
                raise Unsupported(f"append on {name} : {ty}")
            e, t = self.expr(c.args[0], binds)
            if ty not in (f"List {t}", f"List ({t})"):
                raise Unsupported(f"append of {t} to {ty}")
            out.extend(ind + b for b in binds)
            out.append(ind + f"{camel(name)} := {camel(name)} ++ [{e}]")
            return
        if _attr_of(f, "warnings", "warn") and len(c.args) == 1 and {k.arg for k in c.keywords} <= {"stacklevel"}:
            if self.monad != "Res":
                raise Unsupported("warnings.warn inside geff_to_csv")
            e, t = self.expr(c.args[0], binds)
            if t != "String":
                raise Unsupported(f"warning of type {t}")
            out.extend(ind + b for b in binds)
            out.append(ind + f"{WARN} := {WARN} ++ [{e}]")
            return
        if isinstance(f, ast.Attribute) and f.attr == "to_csv" and len(c.args) == 1:
            if self.monad != "IOM":
                raise Unsupported("to_csv outside geff_to_csv")
            kw = {k.arg: k.value for k in c.keywords}
            if not set(kw) <= {"mode", "index"}:
                raise Unsupported(f"to_csv keywords {sorted(kw)}")
            df, tdf = self.expr(f.value, binds)
            p, tp = self.expr(c.args[0], binds)
            mode, tm = self.expr(kw["mode"], binds) if "mode" in kw else ('"w"', "String")
            if "index" in kw and not _const(kw["index"], bool):
                raise Unsupported("to_csv index= that is not a literal")
            idx = "true" if "index" not in kw or kw["index"].value else "false"
            if (tdf, tp, tm) != (T_DICT, "String", "String"):
                raise Unsupported(f"{src}: types {tdf}, {tp}, {tm}")
            out.extend(ind + b for b in binds)
            out.append(ind + f"dfToCsv env {atom(df)} {atom(p)} {atom(mode)} {idx}")
            return
        raise Unsupported(f"statement {src[:60]}")

    def for_(self, s, out, ind):
        binds: list[str] = []
        it, tg = s.iter, s.target
        if (isinstance(it, ast.Call) and isinstance(it.func, ast.Name) and it.func.id == "range"
                and len(it.args) == 1 and not it.keywords and isinstance(tg, ast.Name)):
            e, t = self.expr(it.args[0], binds)
            if t != "Nat":
                raise Unsupported(f"range of {t}")
            coll, names, tys = f"List.range {atom(e)}", [tg.id], ["Nat"]
        elif (isinstance(it, ast.Call) and isinstance(it.func, ast.Attribute) and it.func.attr == "items" and not it.args
              and not it.keywords and isinstance(tg, ast.Tuple) and len(tg.elts) == 2
              and all(isinstance(e, ast.Name) for e in tg.elts)):
            e, t = self.expr(it.func.value, binds)
            if t != T_PROPS:
                raise Unsupported(f".items() of {t}")
            coll, names, tys = f"propsItems {atom(e)}", [x.id for x in tg.elts], ["String", T_PROP]
        elif isinstance(tg, ast.Name):
            e, t = self.expr(it, binds)
            if not t.startswith("List "):
                raise Unsupported(f"iteration over {t}")
            if isinstance(it, ast.Name) and it.id not in self.immutable:
                # Lean lists are values: a body that appends to what it iterates over would differ
                for sub in ast.walk(s):
                    if isinstance(sub, ast.Name) and sub.id == it.id and isinstance(sub.ctx, ast.Store):
                        raise Unsupported(f"loop body assigns to the iterated list {it.id}")
            el = t[5:]
            coll, names, tys = e, [tg.id], [el[1:-1] if el.startswith("(") else el]
        else:
            raise Unsupported(f"for {ast.unparse(tg)} in {ast.unparse(it)[:40]}")
        out.extend(ind + b for b in binds)
        if len(set(names)) != len(names):
            raise Unsupported("repeated loop variable")
        for nm, ty in zip(names, tys, strict=True):
            if nm in self.env:
                raise Unsupported(f"loop variable {nm} is already a variable of the function")
            if self.locals.get(nm, ty) != ty:
                raise Unsupported(f"loop variable {nm}: {ty}")
        for nm, ty in zip(names, tys, strict=True):
            self.env[nm] = ty
            self.immutable.add(nm)
        pat = camel(names[0]) if len(names) == 1 else "(" + ", ".join(camel(x) for x in names) + ")"
        out.append(ind + f"for {pat} in {coll} do")
        self.loops += 1
        self.block(s.body, out, ind + "  ")
        self.loops -= 1
        for nm in names:
            self.env.pop(nm, None)
            self.immutable.discard(nm)

    @staticmethod
    def _first_assigned(stmts):
        return [s.targets[0].id for s in stmts
                if isinstance(s, ast.Assign) and len(s.targets) == 1 and isinstance(s.targets[0], ast.Name)]

    def if_(self, s, out, ind, top):
        if s.orelse:
            both = [v for v in self._first_assigned(s.body) if v in self._first_assigned(s.orelse) and v not in self.env]
            for v in dict.fromkeys(both):
                ty = self.locals.get(v)
                if ty not in DEFAULTABLE:
                    raise Unsupported(f"variable {v} first assigned in both branches of a conditional: type {ty}")
                self.env[v] = ty
                out.append(ind + f"let mut {camel(v)} : {ty} := default")
        c = self.cond(s.test, out, ind)
        out.append(ind + f"if {c} then")
        self.block(s.body, out, ind + "  ")
        if s.orelse:
            out.append(ind + "else")
            self.block(s.orelse, out, ind + "  ")


def translate_function(fn: ast.FunctionDef, spec) -> str:
    tr = Fn(spec)
    a = fn.args
    if ([x.arg for x in a.args] != [p for p, _ in spec["params"]] or a.vararg or a.kwarg or a.kwonlyargs or a.posonlyargs
            or fn.decorator_list):
        raise Unsupported(f"signature of {fn.name} changed: {[x.arg for x in a.args]}")
    if [d.value if isinstance(d, ast.Constant) else "?" for d in a.defaults] != spec["defaults"]:
        raise Unsupported(f"defaults of {fn.name} changed: {[ast.unparse(d) for d in a.defaults]}")
    body: list[str] = []
    if spec["monad"] == "Res":
        body.append(f"  let mut {WARN} : List String := []")
    tr.block(fn.body, body, "  ", top=True)
    ends_with_return = bool(fn.body) and isinstance(fn.body[-1], ast.Return)
    if spec["pyret"] is None:
        body.append("  return ()")
    elif not ends_with_return:
        raise Unsupported(f"{fn.name} can fall off its end")
    return "\n".join([head(spec), *body])


def head(spec, underscore="") -> str:
    params = " ".join(f"({underscore}{camel(p)} : {t})" for p, t in spec["params"])
    env = f"({underscore}env : CsvEnv α) " if spec["monad"] == "IOM" else ""
    return f"def {spec['lean']} {{α : Type}} {env}{params} : {spec['monad']} ({spec['ret']}) := " + ("do" if not underscore else "")


def stub(spec) -> str:
    val = '.unmodelled "untranslated"' if spec["monad"] == "Res" else 'fun w => (.unmodelled "untranslated", w)'
    return head(spec, "_") + val


def run(repo: Path, out: Path):
    errors = {}
    defs = []
    try:
        tree = ast.parse((repo / SRC).read_text())
        fns = {n.name: n for n in tree.body if isinstance(n, ast.FunctionDef)}
    except Exception as e:  # noqa: BLE001
        fns = {}
        errors["parse"] = f"{type(e).__name__}: {e}"
    for name in ["geff_to_dataframes", "geff_to_csv"]:
        spec = FUNCS[name]
        try:
            if name not in fns:
                raise Unsupported(f"function {name} not found")
            text = translate_function(fns[name], spec)
            defs.append(f"/-- `{name}` ({SRC}:{fns[name].lineno}) -/\n" + text)
        except Unsupported as e:
            errors[name] = str(e)
            defs.append(f"/-- `{name}`: NOT TRANSLATED ({e}) -/\n" + stub(spec))
    ok = not errors
    body = "import GeffModel.PyDoDataframe\n" + HEADER
    body += "/-! `geff/convert/_dataframe.py`, statement by statement (translator T18). -/\n"
    body += "namespace Gen.Dataframe\nopen Geff.Dataframe Geff.PyDoDf\n\n"
    body += f"def translationOk : Bool := {'true' if ok else 'false'}\n\n"
    body += "\n\n".join(defs) + "\n\nend Gen.Dataframe\n"
    write_if_changed(out / "Dataframe.lean", body)
    return {"ok": ok, **({"error": "; ".join(f"{k}: {v}" for k, v in errors.items())} if errors else {})}
