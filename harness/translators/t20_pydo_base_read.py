"""T20: geff/core_io/_base_read.py (class GeffReader) -> lean/Gen/BaseRead.lean  (Python -> Lean `do`-notation).

The methods of the partial reader

    _mask_to_indices, _load_zarr_subset, _load_prop_to_memory, build, read_node_props, read_edge_props

are translated *statement by statement* from the AST of the working tree (parsed, never imported)
into Lean `do`-blocks, in the style of T12 (`t12_pydo_serialization.py`): `x = e` -> `let mut` /
`x := e`, `d[k] = v` -> `d := dictSet d k v`, `del o.f[k]` -> `dictDel` + structure update,
`for k, v in d.items():` / `for k in ks:` -> `for … in … do`, `if/else`, `raise X(…)` -> the failing
action, `return e`.  `if x is None: return …` followed by the rest of the block, and
`if x is not None: … else: …` whose branch reads `x`, become a `match x with | none => … | some xV => …`
(Python's narrowing of an Optional).  Expressions go through a small *typed, closed* table of the
zarr / numpy / dict operations these methods use; each is a primitive of `GeffModel/PyDoRead.lean`
(defined from the primitives of the hand-written model `GeffModel/PartialRead.lean`, with Python's
exceptions as outcomes), and an operation that can raise is bound with `let t ← …` at the place
Python evaluates it.  `self._read_prop` (zarr group opening) is a primitive (`readProp`);
`_as_dtype` / `np.array(…, dtype=…)` is the element-wise cast parameter `cast` of the model.
The two methods that assign to `self.…` run in the state monad `RdM` (the reader survives an exception).

Anything outside the subset — another statement kind, an unknown call / attribute / keyword argument
(`assume_unique=True`), an unknown variable, a type the table does not predict, a dict that is
mutated while it is iterated — makes the translation of that method fail: the Gen file then carries a
stub of the same signature and `translationOk := false`, which `GeffProps.C09Gen.translated` requires to
be `true`.  A translation that succeeds but computes something else leaves the equalities of
`GeffProofs/BaseReadGen.lean` (generated = hand-written model) unprovable and `lake build
GeffProps.C09Gen` fails.  Either way the C09 check then searches for a concrete failing input with its
model-independent oracles.

Consumer: C09 (`GeffProps/C09Gen.lean`)."""
from __future__ import annotations

import ast
import re
from pathlib import Path

from harness.translate import HEADER, write_if_changed
from harness.translators.t12_pydo_serialization import Unsupported, camel

NAME = "T20_pydo_base_read"
PROPS = ["C09"]
SRC = "packages/geff/src/geff/core_io/_base_read.py"

MASK = "Option (List Bool)"
DICT_ZP = "List (String × ZarrProp)"
DICT_PM = "List (String × PropMeta)"
DICT_GP = "List (String × GMemProp)"
FLAT = "FlatData"            # `zarr_prop[_path.DATA][...]`: the flat data array as read (List Val)
VLEN = "VlenDict"            # what `deserialize_vlen_property_data` returns

FUNCS = {
    "_mask_to_indices": {
        "lean": "maskToIndices", "tparams": "", "cast": False, "self": False, "monad": "Res",
        "params": [("mask", MASK), ("length", "Nat")], "ret": "Option (List Nat)", "locals": {},
    },
    "_load_zarr_subset": {
        "lean": "loadZarrSubset", "tparams": "{α : Type} ", "cast": False, "self": False, "monad": "Res",
        "params": [("zarr_arr", "ZArr α"), ("indices", "Option (List Nat)")], "ret": "NArr α", "locals": {},
    },
    "_load_prop_to_memory": {
        "lean": "loadPropToMemory", "tparams": "", "cast": True, "self": False, "monad": "Res",
        "params": [("zarr_prop", "ZarrProp"), ("mask", MASK), ("prop_metadata", "PropMeta")], "ret": "GMemProp",
        "locals": {"missing": "Option (List Bool)", "data": "Option NdArr", "in_memory_dict": "GMemProp"},
    },
    "build": {
        "lean": "build", "tparams": "", "cast": True, "self": True, "monad": "Res",
        "params": [("node_mask", MASK), ("edge_mask", MASK)], "ret": "GInMem",
        "locals": {"node_props": DICT_GP, "edge_props": DICT_GP},
    },
    "read_node_props": {
        "lean": "readNodeProps", "tparams": "", "cast": False, "self": False, "monad": "RdM",
        "params": [("names", "Option (List String)")], "ret": "Unit", "locals": {},
    },
    "read_edge_props": {
        "lean": "readEdgeProps", "tparams": "", "cast": False, "self": False, "monad": "RdM",
        "params": [("names", "Option (List String)")], "ret": "Unit", "locals": {},
    },
}
ORDER = ["_mask_to_indices", "_load_zarr_subset", "_load_prop_to_memory", "build", "read_node_props", "read_edge_props"]
EXC = {"ValueError": "raiseValueError", "IndexError": "raiseIndexError"}

SELF_ATTRS = {
    "nodes": ("(selfNodes self)", "ZArr Int"),
    "edges": ("(selfEdges self)", "ZArr (Int × Int)"),
    "node_props": ("self.nodeProps", DICT_ZP),
    "edge_props": ("self.edgeProps", DICT_ZP),
    "metadata": ("(selfMetadata self)", "GMeta"),
    "node_prop_names": ("(selfNodePropNames self)", "List String"),
    "edge_prop_names": ("(selfEdgePropNames self)", "List String"),
}
FIELDS = {
    ("GMeta", "node_props_metadata"): ("nodePropsMetadata", DICT_PM),
    ("GMeta", "edge_props_metadata"): ("edgePropsMetadata", DICT_PM),
    ("PropMeta", "dtype"): ("dtype", "Dtype"),
    ("PropMeta", "varlength"): ("varlength", "Bool"),
}
GINMEM = [("metadata", "metadata", "GMeta"), ("node_ids", "nodeIds", "NArr Int"), ("node_props", "nodeProps", DICT_GP),
          ("edge_ids", "edgeIds", "NArr (Int × Int)"), ("edge_props", "edgeProps", DICT_GP)]


def _np(node, attr=None):
    ok = isinstance(node, ast.Attribute) and isinstance(node.value, ast.Name) and node.value.id == "np"
    return ok and (attr is None or node.attr == attr)


def _path(node):
    """`_path.VALUES` -> "VALUES" """
    if isinstance(node, ast.Attribute) and isinstance(node.value, ast.Name) and node.value.id == "_path":
        return node.attr
    return None


def _is_none(n):
    return isinstance(n, ast.Constant) and n.value is None


def _none_test(test):
    """`x is None` -> (x, True); `x is not None` -> (x, False)"""
    if (isinstance(test, ast.Compare) and len(test.ops) == 1 and isinstance(test.ops[0], (ast.Is, ast.IsNot))
            and _is_none(test.comparators[0]) and isinstance(test.left, ast.Name)):
        return test.left.id, isinstance(test.ops[0], ast.Is)
    return None


def _reads(stmts, name):
    return any(isinstance(x, ast.Name) and x.id == name and isinstance(x.ctx, ast.Load)
               for s in stmts for x in ast.walk(s))


def _assigned(stmts):
    out = set()
    for s in stmts:
        for x in ast.walk(s):
            if isinstance(x, ast.Name) and isinstance(x.ctx, ast.Store):
                out.add(x.id)
    return out


def _exits(stmts):
    return bool(stmts) and isinstance(stmts[-1], (ast.Return, ast.Raise))


def paren(e):
    return e if re.fullmatch(r"[\w.]+|\(.*\)|\[.*\]", e) and e.count("(") == e.count(")") and not (
        e.startswith("(") and _closes_early(e)) else f"({e})"


def _closes_early(e):
    d = 0
    for i, c in enumerate(e):
        d += c == "("
        d -= c == ")"
        if d == 0 and i < len(e) - 1:
            return True
    return False


def elem(t, head):
    """`ZArr (Int × Int)` -> `Int × Int` for head = "ZArr" """
    if not t.startswith(head + " "):
        return None
    x = t[len(head) + 1:]
    return x[1:-1] if x.startswith("(") and x.endswith(")") and not _closes_early(x) else x


def mk(head, el):
    return f"{head} {el}" if re.fullmatch(r"\w+", el) else f"{head} ({el})"


class RFn:
    def __init__(self, spec):
        self.spec = spec
        self.env = {p: (camel(p), t) for p, t in spec["params"]}        # python name -> (lean text, lean type)
        self.locals = spec["locals"]
        self.tmp = 0
        self.rdm = spec["monad"] == "RdM"
        self.self_fresh = False          # RdM: is the local `self` the current state?
        self.uses_self = False
        self.key_views: dict[str, str] = {}     # local holding `D.keys()` -> source text of D

    # ---------------------------------------------------------------- helpers
    def fresh(self):
        self.tmp += 1
        return f"t{self.tmp}"

    def bind(self, binds, action, ty):
        t = self.fresh()
        binds.append(f"let {t} ← " + (f"liftRes ({action})" if self.rdm else action))
        return t, ty

    def self_(self, binds):
        self.uses_self = True
        if self.rdm and not self.self_fresh:
            binds.append("let self ← getSelf")
            self.self_fresh = True
        return "self"

    # ---------------------------------------------------------------- expressions
    def expr(self, n, binds, want=None):
        """-> (lean text, lean type); operations that can raise are appended to `binds`"""
        if isinstance(n, ast.Name):
            if n.id not in self.env:
                raise Unsupported(f"unknown variable {n.id}")
            return self.env[n.id]
        if isinstance(n, ast.Constant):
            if n.value is None:
                return "none", "Option ?"
            if isinstance(n.value, bool):
                return ("true" if n.value else "false"), "Bool"
            if isinstance(n.value, int) and n.value >= 0:
                return str(n.value), "Nat"
            raise Unsupported(f"constant {n.value!r}")
        if isinstance(n, ast.Tuple) and n.elts and not any(isinstance(e, ast.Starred) for e in n.elts):
            parts = [self.expr(e, binds) for e in n.elts]
            if all(t == "Nat" for _, t in parts):                      # a shape: `(length,)`
                return "[" + ", ".join(p for p, _ in parts) + "]", "List Nat"
            raise Unsupported(f"tuple {ast.unparse(n)}")
        if isinstance(n, ast.Dict):
            return self.dict_(n, binds, want)
        if isinstance(n, ast.IfExp):
            c, tc = self.expr(n.test, binds)
            sub: list[str] = []
            a, ta = self.expr(n.body, sub)
            b, tb = self.expr(n.orelse, sub)
            if sub:
                raise Unsupported("raising operation inside a conditional expression")
            if ta != tb or tc != "Bool":
                raise Unsupported(f"conditional expression of types {tc} ? {ta} : {tb}")
            return f"(if {c} then {a} else {b})", ta
        if isinstance(n, ast.UnaryOp) and isinstance(n.op, ast.Not):
            e, t = self.expr(n.operand, binds)
            if t != "Bool":
                raise Unsupported(f"not on {t}")
            return f"!({e})", "Bool"
        if isinstance(n, ast.Compare) and len(n.ops) == 1:
            return self.compare(n, binds)
        if isinstance(n, ast.Attribute):
            return self.attribute(n, binds)
        if isinstance(n, ast.Subscript):
            return self.subscript(n, binds)
        if isinstance(n, ast.Call):
            return self.call(n, binds)
        raise Unsupported(f"expression {ast.unparse(n)}")

    def dict_(self, n, binds, want):
        keys = [k.value if isinstance(k, ast.Constant) else None for k in n.keys]
        if not keys:
            if want and want.startswith("List (String × "):
                return "[]", want
            raise Unsupported("empty dict of unknown type")
        parts = [self.expr(v, binds) for v in n.values]
        if keys == ["values", "missing"]:
            if [t for _, t in parts] != ["RowArr", "Option (List Bool)"]:
                raise Unsupported(f"property dict of types {[t for _, t in parts]}")
            return f"{{ values := GValues.dense {parts[0][0]}, missing := {parts[1][0]} }}", "GMemProp"
        if sorted(keys, key=str) == sorted(k for k, _, _ in GINMEM) and len(keys) == len(GINMEM):
            fields = {k: (f, t) for k, f, t in GINMEM}
            out = []
            for k, (e, t) in zip(keys, parts):
                if t != fields[k][1]:
                    raise Unsupported(f"InMemoryGeff[{k!r}] of type {t}")
                out.append(f"{fields[k][0]} := {e}")
            return "{ " + ", ".join(out) + " }", "GInMem"
        raise Unsupported(f"dict with keys {keys}")

    def compare(self, n, binds):
        op, l, r = n.ops[0], n.left, n.comparators[0]
        if isinstance(op, (ast.Is, ast.IsNot)) and _is_none(r):
            e, t = self.expr(l, binds)
            if not t.startswith("Option "):
                raise Unsupported(f"`is None` on {t}")
            return (f"{e}.isNone" if isinstance(op, ast.Is) else f"{e}.isSome"), "Bool"
        if isinstance(op, (ast.In, ast.NotIn)):
            key = _path(l)
            if key is not None:
                d, td = self.expr(r, binds)
                prim = {"MISSING": "hasMissing", "DATA": "hasData"}.get(key)
                if td != "ZarrProp" or prim is None:
                    raise Unsupported(f"membership {ast.unparse(n)}")
                e = f"{prim} {d}"
                return (e if isinstance(op, ast.In) else f"!({e})"), "Bool"
            a, ta = self.expr(l, binds)
            b, tb = self.expr(r, binds)
            if ta == "String" and tb == "List String":
                e = f"({b}).contains {a}" if not re.fullmatch(r"\w+", b) else f"{b}.contains {a}"
                return (e if isinstance(op, ast.In) else f"!({e})"), "Bool"
            raise Unsupported(f"membership of {ta} in {tb}")
        a, ta = self.expr(l, binds)
        b, tb = self.expr(r, binds)
        if isinstance(op, (ast.Eq, ast.NotEq)) and ta == tb and ta in ("Nat", "List Nat", "String"):
            return f"{a} {'==' if isinstance(op, ast.Eq) else '!='} {b}", "Bool"
        raise Unsupported(f"comparison {ast.unparse(n)} ({ta}, {tb})")

    def attribute(self, n, binds):
        if isinstance(n.value, ast.Name) and n.value.id == "self":
            if n.attr not in SELF_ATTRS:
                raise Unsupported(f"attribute self.{n.attr}")
            self.self_(binds)
            return SELF_ATTRS[n.attr]
        if _np(n, "uint64"):
            return "Dtype.u64", "Dtype"
        e, t = self.expr(n.value, binds)
        if (t, n.attr) in FIELDS:
            f, ty = FIELDS[(t, n.attr)]
            return f"{e}.{f}", ty
        if n.attr == "shape":
            if t.startswith("ZArr ") or t.startswith("NArr "):
                return f"{e}.shape", "List Nat"
            if t == "List Bool":
                return f"maskShape {e}", "List Nat"
        raise Unsupported(f"attribute .{n.attr} of {t}")

    def subscript(self, n, binds):
        v, sl = n.value, n.slice
        full = (isinstance(sl, ast.Constant) and sl.value is Ellipsis) or (
            isinstance(sl, ast.Slice) and sl.lower is None and sl.upper is None and sl.step is None)
        # zarr_prop[_path.DATA][...]
        if (full and isinstance(v, ast.Subscript) and _path(v.slice) == "DATA"):
            d, td = self.expr(v.value, binds)
            if td == "ZarrProp":
                return self.bind(binds, f"propDataAll {d}", FLAT)
        # np.where(mask)[0]
        if (isinstance(v, ast.Call) and _np(v.func, "where") and len(v.args) == 1 and not v.keywords
                and isinstance(sl, ast.Constant) and sl.value == 0):
            m, tm = self.expr(v.args[0], binds)
            if tm != "List Bool":
                raise Unsupported(f"np.where of {tm}")
            return f"npWhere0 {m}", "List Nat"
        # x.shape[k]
        if (isinstance(v, ast.Attribute) and v.attr == "shape" and isinstance(sl, ast.Constant)
                and isinstance(sl.value, int) and sl.value >= 0):
            s, ts = self.expr(v, binds)
            if ts == "List Nat":
                return self.bind(binds, f"shapeAt {s} {sl.value}", "Nat")
        # z.oindex[indices]
        if isinstance(v, ast.Attribute) and v.attr == "oindex":
            z, tz = self.expr(v.value, binds)
            i, ti = self.expr(sl, binds)
            if elem(tz, "ZArr") is None or ti != "List Nat":
                raise Unsupported(f"oindex of {tz} with {ti}")
            return self.bind(binds, f"oindex {z} {i}", mk("NArr", elem(tz, "ZArr")))
        # zarr_prop[_path.VALUES] / zarr_prop[_path.MISSING]
        key = _path(sl)
        if key is not None:
            d, td = self.expr(v, binds)
            if td == "ZarrProp" and key == "VALUES":
                return f"(propValues {d})", "ZArr (List Val)"
            if td == "ZarrProp" and key == "MISSING":
                return self.bind(binds, f"propMissing {d}", "ZArr Bool")
            raise Unsupported(f"subscript {ast.unparse(n)}")
        e, t = self.expr(v, binds)
        if full and elem(t, "ZArr") is not None:                    # z[...] / z[:]
            return f"zarrGetAll {e}", mk("NArr", elem(t, "ZArr"))
        # a[m if m is not None else ...]
        if (isinstance(sl, ast.IfExp) and _none_test(sl.test) is not None and not _none_test(sl.test)[1]
                and isinstance(sl.body, ast.Name) and sl.body.id == _none_test(sl.test)[0]
                and isinstance(sl.orelse, ast.Constant) and sl.orelse.value is Ellipsis):
            m, tm = self.expr(sl.body, binds)
            if elem(t, "NArr") is None or tm != MASK:
                raise Unsupported(f"selection of {t} by {tm}")
            return self.bind(binds, f"getSel {e} {m}", t)
        # d[k]
        if t.startswith("List (String × "):
            k, tk = self.expr(sl, binds)
            if tk != "String":
                raise Unsupported(f"dict key of type {tk}")
            return self.bind(binds, f"dictGet {e} {k}", t[len("List (String × "):-1])
        raise Unsupported(f"subscript {ast.unparse(n)}")

    def kwargs(self, n, allowed):
        kw = {k.arg: k.value for k in n.keywords}
        if None in kw or not set(kw) <= set(allowed):
            raise Unsupported(f"keyword arguments of {ast.unparse(n)}")
        return kw

    def dtype_arg(self, node, binds):
        if isinstance(node, ast.Name) and node.id == "bool" and "bool" not in self.env:
            return "bool", "PyBool"
        return self.expr(node, binds)

    def call(self, n, binds):
        f = n.func
        src = ast.unparse(n)
        # self.<translated method>(…)
        if (isinstance(f, ast.Attribute) and isinstance(f.value, ast.Name) and f.value.id == "self"):
            if f.attr == "_read_prop" and self.rdm and len(n.args) == 2 and not n.keywords:
                slf = self.self_(binds)
                a, ta = self.expr(n.args[0], binds)
                kind = n.args[1].value if isinstance(n.args[1], ast.Constant) else None
                if ta != "String" or kind not in ("node", "edge"):
                    raise Unsupported(f"call {src}")
                return self.bind(binds, f"readProp {slf} {a} PropType.{kind}", "ZarrProp")
            spec = FUNCS.get(f.attr)
            if spec is None or spec["monad"] != "Res" or self.rdm or n.keywords:
                raise Unsupported(f"call {src}")
            args = [self.expr(a, binds) for a in n.args]
            if len(args) != len(spec["params"]):
                raise Unsupported(f"call {src}: arity")
            alpha = None
            for (a, ta), (_, tp) in zip(args, spec["params"]):
                if "α" in tp:
                    head = tp.split(" ")[0]
                    alpha = elem(ta, head)
                    if alpha is None:
                        raise Unsupported(f"call {src}: argument of type {ta} for {tp}")
                elif ta != tp and not (ta == "Option ?" and tp.startswith("Option ")):
                    raise Unsupported(f"call {src}: argument of type {ta} for {tp}")
            ret = spec["ret"] if alpha is None else mk(spec["ret"].split(" ")[0], alpha)
            pre = [spec["lean"]] + (["cast"] if spec["cast"] else []) + (["self"] if spec["self"] else [])
            return self.bind(binds, " ".join(pre + [paren(a) for a, _ in args]), ret)
        if isinstance(f, ast.Name) and f.id == "len" and len(n.args) == 1 and not n.keywords:
            e, t = self.expr(n.args[0], binds)
            if t.startswith("List "):
                return f"{e}.length", "Nat"
            raise Unsupported(f"len of {t}")
        if _np(f, "asarray") and len(n.args) == 1 and not n.keywords:
            e, t = self.expr(n.args[0], binds)
            if t == "List Bool":
                return f"npAsarrayMask {e}", t
            if elem(t, "NArr") is not None:
                return f"npAsarray {paren(e)}", t
            raise Unsupported(f"np.asarray of {t}")
        if _np(f, "array") and len(n.args) == 1:
            kw = self.kwargs(n, ["dtype"])
            e, t = self.expr(n.args[0], binds)
            if "dtype" not in kw:
                if elem(t, "NArr") is not None:
                    return f"npAsarray {paren(e)}", t
                raise Unsupported(f"np.array of {t}")
            d, td = self.dtype_arg(kw["dtype"], binds)
            if td == "PyBool" and t == "NArr Bool":
                return f"npArrayBool {e}", "List Bool"
            if td == "Dtype" and t == FLAT:
                return f"npArrayFlat cast {e} {d}", "NdArr"
            raise Unsupported(f"np.array of {t} with dtype {td}")
        if isinstance(f, ast.Name) and f.id == "_as_dtype" and len(n.args) == 1:
            kw = self.kwargs(n, ["dtype"])
            e, t = self.expr(n.args[0], binds)
            d, td = self.expr(kw["dtype"], binds) if "dtype" in kw else (None, None)
            if t == "NArr (List Val)" and td == "Dtype":
                return f"asDtype cast {e} {d}", "RowArr"
            raise Unsupported(f"_as_dtype of {t} with dtype {td}")
        if _np(f, "dtype") and len(n.args) == 1 and not n.keywords:
            e, t = self.expr(n.args[0], binds)
            if t == "Dtype":
                return f"npDtype {e}", "Dtype"
            raise Unsupported(f"np.dtype of {t}")
        # np.empty((0, *z.shape[1:]), dtype=z.dtype)
        if _np(f, "empty") and len(n.args) == 1:
            kw = self.kwargs(n, ["dtype"])
            sh = n.args[0]
            if (isinstance(sh, ast.Tuple) and len(sh.elts) == 2 and isinstance(sh.elts[0], ast.Constant)
                    and sh.elts[0].value == 0 and isinstance(sh.elts[1], ast.Starred)):
                tail = sh.elts[1].value
                if (isinstance(tail, ast.Subscript) and isinstance(tail.slice, ast.Slice) and tail.slice.upper is None
                        and tail.slice.step is None and isinstance(tail.slice.lower, ast.Constant)
                        and tail.slice.lower.value == 1 and isinstance(tail.value, ast.Attribute)
                        and tail.value.attr == "shape" and "dtype" in kw and isinstance(kw["dtype"], ast.Attribute)
                        and kw["dtype"].attr == "dtype"
                        and ast.dump(kw["dtype"].value) == ast.dump(tail.value.value)):
                    z, tz = self.expr(tail.value.value, binds)
                    if elem(tz, "ZArr") is not None:
                        return self.bind(binds, f"npEmpty (0 :: {z}.shape.drop 1)", mk("NArr", elem(tz, "ZArr")))
            raise Unsupported(f"call {src}")
        # np.isin(edges, nodes).all(axis=1)
        if (isinstance(f, ast.Attribute) and f.attr == "all" and isinstance(f.value, ast.Call) and _np(f.value.func, "isin")):
            kw = self.kwargs(n, ["axis"])
            inner = f.value
            if (n.args or not isinstance(kw.get("axis"), ast.Constant) or kw["axis"].value != 1
                    or inner.keywords or len(inner.args) != 2):
                raise Unsupported(f"call {src}")
            a, ta = self.expr(inner.args[0], binds)
            b, tb = self.expr(inner.args[1], binds)
            if (ta, tb) != ("NArr (Int × Int)", "NArr Int"):
                raise Unsupported(f"np.isin of {ta}, {tb}")
            return f"isinAllAxis1 {a} {b}", "List Bool"
        if _np(f, "logical_and") and len(n.args) == 2 and not n.keywords:
            a, ta = self.expr(n.args[0], binds)
            b, tb = self.expr(n.args[1], binds)
            if ta == tb == "List Bool":
                return self.bind(binds, f"npLogicalAnd {a} {b}", "List Bool")
            raise Unsupported(f"np.logical_and of {ta}, {tb}")
        if (isinstance(f, ast.Attribute) and f.attr == "deepcopy" and isinstance(f.value, ast.Name)
                and f.value.id == "copy" and len(n.args) == 1 and not n.keywords):
            e, t = self.expr(n.args[0], binds)
            return f"deepcopy {e}", t
        if isinstance(f, ast.Attribute) and f.attr == "keys" and not n.args and not n.keywords:
            e, t = self.expr(f.value, binds)
            if t.startswith("List (String × "):
                return f"dictKeys {e}", "List String"
            raise Unsupported(f"keys of {t}")
        if isinstance(f, ast.Name) and f.id == "deserialize_vlen_property_data" and len(n.args) == 3 and not n.keywords:
            args = [self.expr(a, binds) for a in n.args]
            if [t for _, t in args] != ["RowArr", "Option (List Bool)", "NdArr"]:
                raise Unsupported(f"call {src}: argument types {[t for _, t in args]}")
            return self.bind(binds, "ofVlen (Gen.Serialization.deserializeVlenPropertyData "
                             f"{args[0][0]}.toNdArr {args[1][0]} {args[2][0]})", VLEN)
        raise Unsupported(f"call {src}")

    # ---------------------------------------------------------------- statements
    def coerce(self, e, t, want):
        if t == want:
            return e
        if want == f"Option {t}" or want == f"Option ({t})":
            return f"some {paren(e)}"
        if t == "Option ?" and want.startswith("Option "):
            return e
        if t == VLEN and want == "GMemProp":
            return f"GMemProp.ofVlenDict {e}"
        raise Unsupported(f"expected {want}, got {t}")

    def assign(self, name, value, out, ind):
        binds: list[str] = []
        want = self.locals.get(name) or (self.env[name][1] if name in self.env and self.env[name][0] == camel(name) else None)
        e, t = self.expr(value, binds, want=want)
        out += [ind + b for b in binds]
        if want is None:
            if "?" in t or t in (FLAT, VLEN):
                raise Unsupported(f"variable {name}: type {t} cannot be inferred")
            want = t
        e = self.coerce(e, t, want)
        first = not (name in self.env and self.env[name] == (camel(name), want) and name in self.declared)
        self.env[name] = (camel(name), want)
        self.declared.add(name)
        out.append(ind + (f"let mut {camel(name)} : {want} := {e}" if first else f"{camel(name)} := {e}"))
        if (isinstance(value, ast.Call) and isinstance(value.func, ast.Attribute) and value.func.attr == "keys"):
            self.key_views[name] = ast.unparse(value.func.value)
        else:
            self.key_views.pop(name, None)

    def predeclare(self, s, out, ind):
        """`if c: … x = a …  else: x = b` with `x` new: declare `x` before the `if` with the value of the
        else-branch (which must be a pure expression)"""
        if not (isinstance(s, ast.If) and len(s.orelse) == 1 and isinstance(s.orelse[0], ast.Assign)
                and len(s.orelse[0].targets) == 1 and isinstance(s.orelse[0].targets[0], ast.Name)):
            return
        name = s.orelse[0].targets[0].id
        if name in self.declared or name not in _assigned(s.body):
            return
        sub: list[str] = []
        saved = self.tmp
        try:
            self.expr(s.orelse[0].value, sub, want=self.locals.get(name))
        finally:
            self.tmp = saved
        if sub:
            raise Unsupported(f"variable {name} first assigned inside a conditional by a raising operation")
        self.assign(name, s.orelse[0].value, out, ind)

    def block(self, stmts, out, ind, top=False):
        stmts = [s for s in stmts if not (isinstance(s, ast.Expr) and isinstance(s.value, ast.Constant)
                                           and isinstance(s.value.value, str))]
        stmts = [s for s in stmts if not (isinstance(s, ast.AnnAssign) and s.value is None
                                           and isinstance(s.target, ast.Name))]
        for k, s in enumerate(stmts):
            rest = stmts[k + 1:]
            if isinstance(s, ast.AnnAssign) and isinstance(s.target, ast.Name) and s.value is not None:
                self.assign(s.target.id, s.value, out, ind)
            elif isinstance(s, ast.Assign) and len(s.targets) == 1 and isinstance(s.targets[0], ast.Name):
                self.assign(s.targets[0].id, s.value, out, ind)
            elif isinstance(s, ast.Assign) and len(s.targets) == 1 and isinstance(s.targets[0], ast.Subscript):
                self.set_item(s.targets[0], s.value, out, ind)
            elif isinstance(s, ast.Delete) and len(s.targets) == 1:
                self.delete(s.targets[0], out, ind)
            elif isinstance(s, ast.Expr) and isinstance(s.value, ast.Call):
                binds: list[str] = []
                e, _ = self.expr(s.value, binds)
                if not binds or binds[-1] != f"let {e} ← " + binds[-1].split(" ← ", 1)[1]:
                    raise Unsupported(f"expression statement {ast.unparse(s)[:60]}")
                binds[-1] = "let _ ← " + binds[-1].split(" ← ", 1)[1]
                out += [ind + b for b in binds]
            elif isinstance(s, ast.Raise):
                exc = s.exc.func.id if isinstance(s.exc, ast.Call) and isinstance(s.exc.func, ast.Name) else None
                if exc not in EXC or self.rdm:
                    raise Unsupported(f"raise {ast.unparse(s.exc) if s.exc else ''}")
                out.append(ind + EXC[exc])
                if rest:
                    raise Unsupported("statement after raise")
            elif isinstance(s, ast.Return):
                if s.value is None or self.rdm:
                    raise Unsupported("return without value / in a state-monad method")
                binds = []
                e, t = self.expr(s.value, binds)
                e = self.coerce(e, t, self.spec["ret"])
                out += [ind + b for b in binds]
                out.append(ind + f"return {e}")
                if rest:
                    raise Unsupported("statement after return")
            elif isinstance(s, ast.If):
                if self.if_(s, rest, out, ind, last_block=top):
                    return                       # the rest of the block was consumed by a `match`
            elif isinstance(s, ast.For) and not s.orelse:
                self.for_(s, out, ind)
            else:
                raise Unsupported(f"statement {type(s).__name__}: {ast.unparse(s)[:60]}")

    def set_item(self, tgt, value, out, ind):
        binds: list[str] = []
        # self.node_props[name] = v     (state monad)
        if (isinstance(tgt.value, ast.Attribute) and isinstance(tgt.value.value, ast.Name) and tgt.value.value.id == "self"
                and tgt.value.attr in ("node_props", "edge_props") and self.rdm):
            k, tk = self.expr(tgt.slice, binds)
            v, tv = self.expr(value, binds)           # Python evaluates the value first; the key is a plain name
            if not isinstance(tgt.slice, ast.Name) or tk != "String" or tv != "ZarrProp":
                raise Unsupported(f"item assignment {ast.unparse(tgt)}")
            slf = self.self_(binds)
            setter = "setNodeProps" if tgt.value.attr == "node_props" else "setEdgeProps"
            out += [ind + b for b in binds]
            out.append(ind + f"{setter} (dictSet {slf}.{camel(tgt.value.attr)} {k} {v})")
            self.self_fresh = False
            return
        if not isinstance(tgt.value, ast.Name) or not isinstance(tgt.slice, ast.Name):
            raise Unsupported(f"item assignment {ast.unparse(tgt)}")
        d, td = self.expr(tgt.value, binds)
        k, tk = self.expr(tgt.slice, binds)
        v, tv = self.expr(value, binds)
        if not td.startswith("List (String × ") or tk != "String":
            raise Unsupported(f"item assignment on {td}")
        v = self.coerce(v, tv, td[len("List (String × "):-1])
        if tgt.value.id not in self.declared:
            raise Unsupported(f"item assignment on {tgt.value.id}, which is not a local")
        out += [ind + b for b in binds]
        out.append(ind + f"{d} := dictSet {d} {k} {v}")

    def delete(self, tgt, out, ind):
        # del obj.field[key]
        if not (isinstance(tgt, ast.Subscript) and isinstance(tgt.value, ast.Attribute)
                and isinstance(tgt.value.value, ast.Name) and tgt.value.value.id in self.declared):
            raise Unsupported(f"del {ast.unparse(tgt)}")
        binds: list[str] = []
        o, to = self.expr(tgt.value.value, binds)
        if (to, tgt.value.attr) not in FIELDS:
            raise Unsupported(f"del {ast.unparse(tgt)}")
        fld, tf = FIELDS[(to, tgt.value.attr)]
        k, tk = self.expr(tgt.slice, binds)
        if tk != "String" or not tf.startswith("List (String × "):
            raise Unsupported(f"del {ast.unparse(tgt)}")
        t, _ = self.bind(binds, f"dictDel {o}.{fld} {k}", tf)
        out += [ind + b for b in binds]
        out.append(ind + f"{o} := {{ {o} with {fld} := {t} }}")

    def for_(self, s, out, ind):
        binds: list[str] = []
        it = s.iter
        src_dict = None
        if (isinstance(it, ast.Call) and isinstance(it.func, ast.Attribute) and it.func.attr == "items"
                and not it.args and not it.keywords and isinstance(s.target, ast.Tuple) and len(s.target.elts) == 2
                and all(isinstance(x, ast.Name) for x in s.target.elts)):
            e, t = self.expr(it.func.value, binds)
            if not t.startswith("List (String × "):
                raise Unsupported(f"items of {t}")
            src_dict = ast.unparse(it.func.value)
            names = [x.id for x in s.target.elts]
            types = ["String", t[len("List (String × "):-1]]
            pat = "(" + ", ".join(camel(x) for x in names) + ")"
        elif isinstance(s.target, ast.Name):
            e, t = self.expr(it, binds)
            if not t.startswith("List "):
                raise Unsupported(f"iteration over {t}")
            if isinstance(it, ast.Name):
                src_dict = self.key_views.get(it.id)
            elif isinstance(it, ast.Call) and isinstance(it.func, ast.Attribute) and it.func.attr == "keys":
                src_dict = ast.unparse(it.func.value)
            names, types, pat = [s.target.id], [elem(t, "List")], camel(s.target.id)
        else:
            raise Unsupported(f"loop target {ast.unparse(s.target)}")
        # a dict must not change while it is iterated (Python: RuntimeError)
        if src_dict is not None:
            for x in (y for b in s.body for y in ast.walk(b)):
                tg = []
                if isinstance(x, ast.Delete):
                    tg = x.targets
                elif isinstance(x, ast.Assign):
                    tg = x.targets
                for g in tg:
                    if isinstance(g, ast.Subscript) and ast.unparse(g.value) == src_dict:
                        raise Unsupported(f"{src_dict} is modified while it is iterated")
        if self.rdm and src_dict is not None and src_dict.startswith("self."):
            raise Unsupported("iteration over reader state in a state-monad method")
        out += [ind + b for b in binds]
        saved = {x: self.env.get(x) for x in names}
        saved_decl = set(self.declared)
        for x, tx in zip(names, types):
            if x in self.declared:
                raise Unsupported(f"loop variable {x} shadows a local")
            self.env[x] = (camel(x), tx)
        out.append(ind + f"for {pat} in {e} do")
        self.self_fresh = False
        self.scoped(s.body, out, ind + "  ")
        self.self_fresh = False
        for x, v in saved.items():
            if v is None:
                del self.env[x]
            else:
                self.env[x] = v
        self.declared = saved_decl

    def scoped(self, stmts, out, ind):
        """a nested block: locals first assigned inside are not visible after it"""
        env, decl = dict(self.env), set(self.declared)
        self.block(stmts, out, ind)
        for k in list(self.env):
            if k not in env:
                del self.env[k]
            elif k not in decl and k in self.declared:
                self.env[k] = env[k]
        self.declared = decl

    def narrowed(self, name, stmts, out, ind, top=False):
        """translate `stmts` where the Optional `name` is known to be present"""
        lean, t = self.env[name]
        saved, was_decl = self.env[name], name in self.declared
        inner_t = t[len("Option "):]
        inner_t = inner_t[1:-1] if inner_t.startswith("(") and not _closes_early(inner_t) else inner_t
        self.env[name] = (lean + "V", inner_t)
        self.declared.discard(name)
        if top:
            self.block(stmts, out, ind, top=True)
        else:
            self.scoped(stmts, out, ind)
            # an assignment `name = <Option>` inside keeps the outer variable; restore the binding
        if not top:
            self.env[name] = saved
            if was_decl:
                self.declared.add(name)

    def if_(self, s, rest, out, ind, last_block):
        nt = _none_test(s.test)
        if nt is not None and nt[0] in self.env and self.env[nt[0]][1].startswith("Option "):
            name, is_none = nt
            lean = self.env[name][0]
            # RdM: `if x is None: x = default`  ->  x := x.getD default
            if (is_none and not s.orelse and len(s.body) == 1 and isinstance(s.body[0], ast.Assign)
                    and len(s.body[0].targets) == 1 and isinstance(s.body[0].targets[0], ast.Name)
                    and s.body[0].targets[0].id == name and name not in self.declared):
                binds: list[str] = []
                e, t = self.expr(s.body[0].value, binds)
                inner = self.env[name][1][len("Option "):]
                inner = inner[1:-1] if inner.startswith("(") else inner
                if t != inner:
                    raise Unsupported(f"default of type {t} for {self.env[name][1]}")
                out += [ind + b for b in binds]
                out.append(ind + f"let mut {camel(name)} : {inner} := {lean}.getD {e}")
                self.env[name] = (camel(name), inner)
                self.declared.add(name)
                return False
            # `if x is None: …return/raise` + rest  ->  match x with | none => … | some xV => rest
            if is_none and not s.orelse and _exits(s.body):
                out.append(ind + f"match {lean} with")
                out.append(ind + "| none =>")
                self.block_exit(s.body, out, ind + "  ")
                out.append(ind + f"| some {lean}V =>")
                if not rest:
                    raise Unsupported("`if x is None: return` at the end of a block")
                self.narrowed(name, rest, out, ind + "  ", top=last_block)
                return True
            # `if x is not None: A else: B` where A reads x  ->  match
            if not is_none and s.orelse and _reads(s.body, name):
                out.append(ind + f"match {lean} with")
                out.append(ind + f"| some {lean}V =>")
                self.branch_narrowed(name, s.body, out, ind + "  ")
                out.append(ind + "| none =>")
                self.scoped(s.orelse, out, ind + "  ")
                return False
        self.predeclare(s, out, ind)
        binds = []
        c, tc = self.expr(s.test, binds)
        if tc != "Bool":
            raise Unsupported(f"condition of type {tc}")
        out += [ind + b for b in binds]
        out.append(ind + f"if {c} then")
        if _exits(s.body) and isinstance(s.body[-1], ast.Return) and not s.orelse and last_block:
            self.block_exit(s.body, out, ind + "  ")
        else:
            self.scoped(s.body, out, ind + "  ")
        if s.orelse:
            out.append(ind + "else")
            self.scoped(s.orelse, out, ind + "  ")
        return False

    def block_exit(self, stmts, out, ind):
        """a branch that ends in `return` / `raise` (early exit)"""
        env, decl = dict(self.env), set(self.declared)
        self.block(stmts, out, ind, top=True)
        self.env, self.declared = env, decl

    def branch_narrowed(self, name, stmts, out, ind):
        """branch `x is not None` of an if/else: reads of `x` see the value, `x = e` assigns the outer
        Optional variable (and ends the narrowing)"""
        lean, t = self.env[name]
        saved, was_decl = self.env[name], name in self.declared
        inner_t = t[len("Option "):]
        inner_t = inner_t[1:-1] if inner_t.startswith("(") and not _closes_early(inner_t) else inner_t
        env, decl = dict(self.env), set(self.declared)
        self.env[name] = (lean + "V", inner_t)
        for k, s in enumerate(stmts):
            if (isinstance(s, ast.Assign) and len(s.targets) == 1 and isinstance(s.targets[0], ast.Name)
                    and s.targets[0].id == name):
                binds: list[str] = []
                e, te = self.expr(s.value, binds)
                out += [ind + b for b in binds]
                out.append(ind + f"{lean} := {self.coerce(e, te, t)}")
                self.env[name] = saved
            else:
                self.block([s], out, ind)
        for k in list(self.env):
            if k not in env:
                del self.env[k]
        self.env.update({k: v for k, v in env.items()})
        self.declared = decl
        self.env[name] = saved
        if was_decl:
            self.declared.add(name)

    declared: set


def translate_method(fn: ast.FunctionDef, spec) -> str:
    tr = RFn(spec)
    tr.declared = set()
    static = any(isinstance(d, ast.Name) and d.id == "staticmethod" for d in fn.decorator_list)
    want = [p for p, _ in spec["params"]] if static else ["self"] + [p for p, _ in spec["params"]]
    if [a.arg for a in fn.args.args] != want or fn.args.vararg or fn.args.kwarg or fn.args.kwonlyargs:
        raise Unsupported(f"signature of {fn.name} changed: {[a.arg for a in fn.args.args]}")
    for d in fn.args.defaults:
        if not _is_none(d):
            raise Unsupported(f"default argument {ast.unparse(d)}")
    body: list[str] = []
    stmts = [s for s in fn.body]
    # a parameter that is re-assigned (and not only narrowed by `if p is None: return`) becomes a `let mut`
    first = next((s for s in stmts if not (isinstance(s, ast.Expr) and isinstance(s.value, ast.Constant))), None)
    for p, t in spec["params"]:
        if p in _assigned(stmts):
            nt = _none_test(first.test) if isinstance(first, ast.If) else None
            if nt is not None and nt[0] == p and nt[1]:
                continue
            body.append(f"  let mut {camel(p)} : {t} := {camel(p)}")
            tr.declared.add(p)
    tr.block(stmts, body, "  ", top=True)
    if tr.uses_self != spec["self"] and not tr.rdm:
        raise Unsupported(f"{fn.name} {'reads' if tr.uses_self else 'no longer reads'} attributes of self")
    return "\n".join([head(spec), *body])


def head(spec, underscore=""):
    ps = ([("cast", "Dtype → Val → Val")] if spec["cast"] else []) + ([("self", "Reader")] if spec["self"] else []) \
        + [(camel(p), t) for p, t in spec["params"]]
    params = " ".join(f"({underscore}{p} : {t})" for p, t in ps)
    ret = spec["ret"] if re.fullmatch(r"\w+", spec["ret"]) else f"({spec['ret']})"
    if spec["monad"] == "RdM":
        return f"def {spec['lean']} {spec['tparams']}{params} : RdM {ret} := do"
    return f"def {spec['lean']} {spec['tparams']}{params} : Res {ret} := do"


def stub(spec) -> str:
    h = head(spec, "_")[:-len(" do")]
    if spec["monad"] == "RdM":
        return h + ' fun r => (.error (.other "untranslated"), r)'
    return h + ' .error (.other "untranslated")'


def run(repo: Path, out: Path):
    errors = {}
    defs = []
    fns = {}
    try:
        tree = ast.parse((repo / SRC).read_text())
        cls = next(n for n in tree.body if isinstance(n, ast.ClassDef) and n.name == "GeffReader")
        fns = {n.name: n for n in cls.body if isinstance(n, ast.FunctionDef)}
    except Exception as e:  # noqa: BLE001
        errors["parse"] = f"{type(e).__name__}: {e}"
    for name in ORDER:
        spec = FUNCS[name]
        try:
            if name not in fns:
                raise Unsupported(f"method {name} not found")
            text = translate_method(fns[name], spec)
            defs.append(f"/-- `GeffReader.{name}` ({SRC}) -/\n" + text)
        except Unsupported as e:
            errors[name] = str(e)
            defs.append(f"/-- `GeffReader.{name}`: NOT TRANSLATED ({e}) -/\n" + stub(spec))
        except (KeyError, AttributeError, IndexError, TypeError, NotImplementedError) as e:
            errors[name] = f"translator error {type(e).__name__}: {e}"
            defs.append(f"/-- `GeffReader.{name}`: NOT TRANSLATED (translator error) -/\n" + stub(spec))
    ok = not errors
    body = "import GeffModel.PyDoRead\nimport Gen.Serialization\n" + HEADER
    body += "/-! `geff/core_io/_base_read.py` (class `GeffReader`), statement by statement (translator T20). -/\n"
    body += "namespace Gen.BaseRead\nopen Geff.Np Geff.PRead Geff.PyDoRead\n\n"
    body += f"def translationOk : Bool := {'true' if ok else 'false'}\n\n"
    body += "\n\n".join(defs) + "\n\nend Gen.BaseRead\n"
    write_if_changed(out / "BaseRead.lean", body)
    return {"ok": ok, **({"error": "; ".join(f"{k}: {v}" for k, v in errors.items())} if errors else {})}
