"""T21: geff/validate/tracks.py -> lean/Gen/Tracks.lean  (Python -> Lean `do`-notation).

`validate_lineages` and `validate_tracklets` are translated *statement by statement* from the AST of
the working tree (parsed, never imported) into Lean `do`-blocks in the monad
`Geff.PyDoTracks.Outcome = Except PyExc`, in the style of T12/T13/T14 (`Unsupported`, `camel`,
`atom`, `template` are imported from them).  The operations the source uses become the primitives of
`GeffModel/PyDoTracks.lean`, which are DEFINED FROM the graph library of the hand-written models.

Supported subset (anything else -> the function becomes a stub and `translationOk := false`):

* `X = np.int64` (a name assigned ONCE): a dtype alias, resolved at translation time;
* `x = e`, `x: T = e` -> `let x : T := e` (`let mut` when the function assigns or edits `x` again);
  `[]` is a `list[str]` when annotated so or when the function appends strings to the name;
  `{}` is the `dict[int, list[int]]` of the grouping loop;
* `np.asarray(p, dtype=np.int64)` on a parameter (1-D id array / `(m, 2)` edge array);
* `for a, b in zip(x, y, strict=False):` (also without the keyword; `strict=True` is refused),
  `for k, v in d.items():`, `for v in xs:`;
* `d.setdefault(k, []).append(v)` — and the spelling `if k not in d: d[k] = []` followed by
  `d[k].append(v)`, which is normalised to it;
* `nx.DiGraph(tuple(edge) for edge in edges)`, `G.add_nodes_from(nodes)`,
  `nx.weakly_connected_components(G)`, `G.subgraph(x)`, `cast("…", e)` (= `e`), `S.in_degree`,
  `S.out_degree`, `S.edges`, `G.in_degree(v)`, `G.out_degree(u)`, `G.predecessors(v)`,
  `G.successors(u)`, `nx.is_directed_acyclic_graph(S)`, `nx.is_weakly_connected(S)` (can raise: bound
  with `let t ← …`), `frozenset(x)`, `x in s` / `x not in s` for a frozenset and a set of frozensets;
* generator expressions / set comprehensions with ONE `for` (target a name or a tuple of names, `_`
  allowed) and at most one `if`: `(xs.filter (fun pat => c)).map (fun pat => e)`; consumed by
  `max(gen, default=0)`, `any(gen)`, `next(gen)` (can raise), `{… for …}`;
* `len(l)`, `list(l)`, `l[0]` (can raise), `not l` (empty test), `not b`, `a or b`, `a and b` on
  operands that cannot raise, `==`, `!=`, `>`, `<`, `>=`, `<=` on naturals;
* `errors.append(<str or f-string>)`: the text is rendered literally, every `{e}` (e an integer) as
  `pyStr e`; `if / elif / else`; `continue`; `return not errors, errors` as the last statement.

Consumers: C14 (`GeffProps/C14Gen.lean`), C13 (`GeffProps/C13Gen.lean`): the generated functions are
proved equal to the hand-written models, so an edit of tracks.py that changes what is computed
breaks a proof obligation."""
from __future__ import annotations

import ast
from pathlib import Path

from harness.translate import HEADER, lean_str, write_if_changed
from harness.translators.t12_pydo_serialization import Unsupported, camel
from harness.translators.t13_pydo_segmentation import atom, template

NAME = "T21_pydo_tracks"
PROPS = ["C14"]          # validate_tracklets is reported by t21b_pydo_tracklets.py (PROPS = ["C13"])
SRC = "packages/geff/src/geff/validate/tracks.py"

INT, NAT, BOOL, STR = "Int", "Nat", "Bool", "String"
LI, LP, LS, LN = "List Int", "List (Int × Int)", "List String", "List Nat"
DICT, GRAPH, FS, SFS, LLI, DV = "PyDict", "DiGraph", "FrozenSet", "SetOfFrozenSets", "List (List Int)", "List (Int × Nat)"
# element type of an iterable: a tuple of component types, or a single type
ELEM = {LI: INT, LP: (INT, INT), DICT: (INT, LI), LLI: LI, DV: (INT, NAT), LN: NAT, FS: INT}
RET = "Bool × List String"
FUNCS = {
    "validate_lineages": [("node_ids", LI), ("edge_ids", LP), ("lineage_ids", LI)],
    "validate_tracklets": [("node_ids", LI), ("edge_ids", LP), ("tracklet_ids", LI)],
}
GRAPH_ATTR = {"in_degree": ("inDegreeView", DV), "out_degree": ("outDegreeView", DV), "edges": ("edgesView", LP)}
GRAPH_CALL = {"in_degree": ("inDegree", NAT), "out_degree": ("outDegree", NAT),
              "predecessors": ("predecessors", LI), "successors": ("successors", LI)}


def _attr(node, mod):
    return (isinstance(node, ast.Attribute) and isinstance(node.value, ast.Name) and node.value.id == mod) and node.attr


def _is_append(s):
    return (isinstance(s, ast.Expr) and isinstance(s.value, ast.Call) and isinstance(s.value.func, ast.Attribute)
            and s.value.func.attr == "append" and len(s.value.args) == 1 and not s.value.keywords)


def _setdefault_split(stmts):
    """`if k not in d: d[k] = []` directly followed by `d[k].append(v)`  ->  `d.setdefault(k, []).append(v)`"""
    out, i = [], 0
    while i < len(stmts):
        s = stmts[i]
        nxt = stmts[i + 1] if i + 1 < len(stmts) else None
        if (isinstance(s, ast.If) and not s.orelse and len(s.body) == 1 and isinstance(s.test, ast.Compare)
                and len(s.test.ops) == 1 and isinstance(s.test.ops[0], ast.NotIn) and isinstance(s.test.left, ast.Name)
                and isinstance(s.test.comparators[0], ast.Name) and isinstance(s.body[0], ast.Assign)
                and len(s.body[0].targets) == 1 and isinstance(s.body[0].targets[0], ast.Subscript)
                and isinstance(s.body[0].value, ast.List) and not s.body[0].value.elts and nxt is not None and _is_append(nxt)):
            k, d, tgt, app = s.test.left.id, s.test.comparators[0].id, s.body[0].targets[0], nxt.value.func.value
            same = lambda x: (isinstance(x, ast.Subscript) and isinstance(x.value, ast.Name) and x.value.id == d  # noqa: E731
                              and isinstance(x.slice, ast.Name) and x.slice.id == k)
            if same(tgt) and same(app):
                sd = ast.Call(func=ast.Attribute(value=ast.Name(id=d, ctx=ast.Load()), attr="setdefault", ctx=ast.Load()),
                              args=[ast.Name(id=k, ctx=ast.Load()), ast.List(elts=[], ctx=ast.Load())], keywords=[])
                call = ast.Call(func=ast.Attribute(value=sd, attr="append", ctx=ast.Load()), args=nxt.value.args, keywords=[])
                out.append(ast.copy_location(ast.Expr(value=call), s))
                i += 2
                continue
        out.append(s)
        i += 1
    return out


class Tr:
    def __init__(self, fn: ast.FunctionDef, params):
        self.env = dict(params)
        self.params = {p for p, _ in params}
        self.frozen: set[str] = set()
        self.dtypes: dict[str, str] = {}
        self.tmp = 0
        self.loop = 0
        # names the function changes after their first assignment -> `let mut`
        stores: dict[str, int] = {}
        self.edited: set[str] = set()
        self.str_lists: set[str] = set()
        for n in ast.walk(fn):
            if isinstance(n, ast.Name) and isinstance(n.ctx, ast.Store):
                stores[n.id] = stores.get(n.id, 0) + 1
            if isinstance(n, ast.Call) and isinstance(n.func, ast.Attribute):
                root = n.func.value
                while isinstance(root, (ast.Call, ast.Attribute, ast.Subscript)):
                    root = root.func if isinstance(root, ast.Call) else root.value
                if isinstance(root, ast.Name) and n.func.attr in ("append", "add_nodes_from", "setdefault"):
                    self.edited.add(root.id)
                if (n.func.attr == "append" and isinstance(n.func.value, ast.Name) and len(n.args) == 1
                        and (isinstance(n.args[0], ast.JoinedStr) or (isinstance(n.args[0], ast.Constant) and isinstance(n.args[0].value, str)))):
                    self.str_lists.add(n.func.value.id)
            if isinstance(n, ast.Subscript) and isinstance(n.ctx, ast.Store) and isinstance(n.value, ast.Name):
                self.edited.add(n.value.id)
        self.stores = stores

    # ---------------------------------------------------------------- helpers
    def fresh(self):
        self.tmp += 1
        return f"t{self.tmp}"

    def bind(self, binds, action, ty):
        if binds is None:
            raise Unsupported(f"an operation that can raise inside a generator / condition operand: {action}")
        t = self.fresh()
        binds.append(f"let {t} ← {action}")
        return t, ty

    def ln(self, name):
        c = camel(name) if name.strip("_") else "_"
        if c and (c[0] == "t" or c[0] == "c") and c[1:].isdigit():
            raise Unsupported(f"variable {name}: the name is reserved for generated temporaries")
        return c

    def is_int64(self, n):
        return _attr(n, "np") == "int64" or (isinstance(n, ast.Name) and self.dtypes.get(n.id) == "int64")

    def pattern(self, tg, ty):
        """loop / comprehension target against the element type -> (Lean pattern, {name: type})"""
        el = ELEM.get(ty)
        if el is None:
            raise Unsupported(f"iteration over {ty}")
        if isinstance(tg, ast.Name):
            t = el if isinstance(el, str) else " × ".join(el)
            return self.ln(tg.id), ({} if tg.id == "_" else {tg.id: t})
        if isinstance(tg, ast.Tuple) and isinstance(el, tuple) and len(tg.elts) == len(el) and all(isinstance(x, ast.Name) for x in tg.elts):
            names = [x.id for x in tg.elts]
            real = [n for n in names if n != "_"]
            if len(set(real)) != len(real):
                raise Unsupported("repeated name in a tuple target")
            return "(" + ", ".join(self.ln(n) for n in names) + ")", {n: t for n, t in zip(names, el, strict=True) if n != "_"}
        raise Unsupported(f"target {ast.unparse(tg)} for elements of {ty}")

    def scoped(self, binders):
        for v in binders:
            if v in self.env:
                raise Unsupported(f"variable {v} shadows another variable")
        return binders

    # ---------------------------------------------------------------- expressions
    def expr(self, n, binds, want=None):
        """-> (Lean text, type).  Operations that can raise are appended to `binds` (`None`: not allowed here)."""
        if isinstance(n, ast.Name):
            if n.id not in self.env:
                raise Unsupported(f"unknown variable {n.id}")
            return self.ln(n.id), self.env[n.id]
        if isinstance(n, ast.Constant):
            if isinstance(n.value, bool):
                return ("true" if n.value else "false"), BOOL
            if isinstance(n.value, int) and n.value >= 0:
                return str(n.value), NAT
            raise Unsupported(f"constant {n.value!r}")
        if isinstance(n, ast.List) and not n.elts:
            if want != LS:
                raise Unsupported("an empty list whose element type is not known to be str")
            return "[]", LS
        if isinstance(n, ast.Dict) and not n.keys:
            return "[]", DICT
        if isinstance(n, (ast.JoinedStr,)) or (isinstance(n, ast.Constant) and isinstance(n.value, str)):
            return self.fstring(n, binds), STR
        if isinstance(n, ast.UnaryOp) and isinstance(n.op, ast.Not):
            e, t = self.expr(n.operand, binds)
            if t == BOOL:
                return f"!{atom(e)}", BOOL
            if t in (LS, LI, LP, FS, DICT):
                return f"{atom(e)}.isEmpty", BOOL
            raise Unsupported(f"`not` on {t}")
        if isinstance(n, ast.BoolOp):
            parts = [self.expr(v, binds if k == 0 else None) for k, v in enumerate(n.values)]
            if any(t != BOOL for _, t in parts):
                raise Unsupported(f"Boolean operands expected in {ast.unparse(n)}")
            return "(" + (" || " if isinstance(n.op, ast.Or) else " && ").join(e for e, _ in parts) + ")", BOOL
        if isinstance(n, ast.Compare) and len(n.ops) == 1:
            op = n.ops[0]
            a, ta = self.expr(n.left, binds)
            b, tb = self.expr(n.comparators[0], binds)
            if isinstance(op, (ast.In, ast.NotIn)):
                if (ta, tb) != (FS, SFS):
                    raise Unsupported(f"membership of {ta} in {tb}")
                e = f"frozensetIn {atom(a)} {atom(b)}"
                return (e if isinstance(op, ast.In) else f"!({e})"), BOOL
            sym = {ast.Eq: "==", ast.NotEq: "!=", ast.Gt: ">", ast.Lt: "<", ast.GtE: "≥", ast.LtE: "≤"}.get(type(op))
            if sym and ta == tb == NAT:
                return (f"({a} {sym} {b})" if sym in ("==", "!=") else f"decide ({a} {sym} {b})"), BOOL
            raise Unsupported(f"comparison {ast.unparse(n)} on {ta}, {tb}")
        if isinstance(n, ast.Attribute):
            e, t = self.expr(n.value, binds)
            if t == GRAPH and n.attr in GRAPH_ATTR:
                f, ty = GRAPH_ATTR[n.attr]
                return f"{atom(e)}.{f}", ty
            raise Unsupported(f"attribute .{n.attr} of {t}")
        if isinstance(n, ast.Subscript):
            e, t = self.expr(n.value, binds)
            if t == LI and isinstance(n.slice, ast.Constant) and n.slice.value == 0 and not isinstance(n.slice.value, bool):
                return self.bind(binds, f"pyGetItem0 {atom(e)}", INT)
            raise Unsupported(f"subscript {ast.unparse(n)} on {t}")
        if isinstance(n, ast.SetComp):
            e, t = self.comprehension(n, binds)
            if t != "List FrozenSet":
                raise Unsupported(f"set comprehension of {t}")
            return e, SFS
        if isinstance(n, ast.Call):
            return self.call(n, binds)
        raise Unsupported(f"expression {ast.unparse(n)}")

    def fstring(self, node, binds):
        tpl = template(node)
        if tpl is None:
            raise Unsupported(f"string {ast.unparse(node)}")
        text, interp = tpl
        lits = text.split("{}")
        if len(lits) != len(interp) + 1:
            raise Unsupported("literal braces in a message")
        parts = []
        for k, lit in enumerate(lits):
            if lit or not parts:
                parts.append(lean_str(lit))
            if k < len(interp):
                e, t = self.expr(interp[k], binds)
                if t != INT:
                    raise Unsupported(f"interpolation of {t} in a message")
                parts.append(f"pyStr {atom(e)}")
        return " ++ ".join(parts)

    def comprehension(self, n, binds):
        """generator / set comprehension -> (list expression, `List <elt type>`)"""
        g = n.generators
        if len(g) != 1 or len(g[0].ifs) > 1 or g[0].is_async:
            raise Unsupported(f"comprehension {ast.unparse(n)}")
        it, ti = self.expr(g[0].iter, binds)
        pat, names = self.pattern(g[0].target, ti)
        self.scoped(names)
        self.env.update(names)
        self.frozen |= set(names)
        try:
            if g[0].ifs:
                c, tc = self.expr(g[0].ifs[0], None)
                if tc != BOOL:
                    raise Unsupported(f"filter of type {tc}")
                it = f"({atom(it)}.filter (fun {pat} => {c}))"
            e, te = self.expr(n.elt, None)
        finally:
            for v in names:
                self.env.pop(v, None)
                self.frozen.discard(v)
        return f"{atom(it)}.map (fun {pat} => {e})", f"List {te}" if " " not in te else f"List ({te})"

    def call(self, n, binds):
        f, src = n.func, ast.unparse(n)
        kw = {k.arg: k.value for k in n.keywords}
        fname = f.id if isinstance(f, ast.Name) else None
        if _attr(f, "np") == "asarray" and len(n.args) == 1 and set(kw) == {"dtype"} and self.is_int64(kw["dtype"]):
            a = n.args[0]
            if not (isinstance(a, ast.Name) and a.id in self.params):
                raise Unsupported(f"{src}: np.asarray of something that is not a parameter")
            e, t = self.expr(a, binds)
            if t == LI:
                return f"npAsarrayInt64 {e}", LI
            if t == LP:
                return f"npAsarrayInt64Pairs {e}", LP
        elif _attr(f, "nx") == "DiGraph" and len(n.args) == 1 and not kw and isinstance(n.args[0], ast.GeneratorExp):
            g = n.args[0]
            gg = g.generators
            if (len(gg) == 1 and not gg[0].ifs and isinstance(gg[0].target, ast.Name) and isinstance(g.elt, ast.Call)
                    and isinstance(g.elt.func, ast.Name) and g.elt.func.id == "tuple" and len(g.elt.args) == 1 and not g.elt.keywords
                    and isinstance(g.elt.args[0], ast.Name) and g.elt.args[0].id == gg[0].target.id):
                e, t = self.expr(gg[0].iter, binds)
                if t == LP:
                    return f"nxDiGraph {atom(e)}", GRAPH
        elif _attr(f, "nx") in ("weakly_connected_components", "is_directed_acyclic_graph", "is_weakly_connected") and len(n.args) == 1 and not kw:
            e, t = self.expr(n.args[0], binds)
            if t == GRAPH:
                what = _attr(f, "nx")
                if what == "weakly_connected_components":
                    return f"nxWeaklyConnectedComponents {atom(e)}", LLI
                if what == "is_directed_acyclic_graph":
                    return f"nxIsDirectedAcyclicGraph {atom(e)}", BOOL
                return self.bind(binds, f"nxIsWeaklyConnected {atom(e)}", BOOL)
        elif fname == "cast" and len(n.args) == 2 and not kw and isinstance(n.args[0], ast.Constant) and isinstance(n.args[0].value, str):
            return self.expr(n.args[1], binds)
        elif fname == "frozenset" and len(n.args) == 1 and not kw:
            e, t = self.expr(n.args[0], binds)
            if t == LI:
                return f"frozenset {atom(e)}", FS
        elif fname == "len" and len(n.args) == 1 and not kw:
            e, t = self.expr(n.args[0], binds)
            if t in (LI, LP, LS):
                return f"{atom(e)}.length", NAT
        elif fname == "list" and len(n.args) == 1 and not kw:
            e, t = self.expr(n.args[0], binds)
            if t == LI:
                return e, LI
        elif fname == "max" and len(n.args) == 1 and set(kw) == {"default"} and isinstance(n.args[0], ast.GeneratorExp):
            d = kw["default"]
            e, t = self.comprehension(n.args[0], binds)
            if t == LN and isinstance(d, ast.Constant) and d.value == 0 and not isinstance(d.value, bool):
                return f"pyMaxDefault0 ({e})", NAT
        elif fname == "any" and len(n.args) == 1 and not kw and isinstance(n.args[0], ast.GeneratorExp):
            e, t = self.comprehension(n.args[0], binds)
            if t == "List Bool":
                return f"({e}).any id", BOOL
        elif fname == "next" and len(n.args) == 1 and not kw and isinstance(n.args[0], ast.GeneratorExp):
            e, t = self.comprehension(n.args[0], binds)
            if t == LI:
                return self.bind(binds, f"pyNext ({e})", INT)
        elif isinstance(f, ast.Attribute) and f.attr in GRAPH_CALL and len(n.args) == 1 and not kw:
            g, tg = self.expr(f.value, binds)
            a, ta = self.expr(n.args[0], binds)
            if (tg, ta) == (GRAPH, INT):
                m, ty = GRAPH_CALL[f.attr]
                return f"{atom(g)}.{m} {atom(a)}", ty
        elif isinstance(f, ast.Attribute) and f.attr == "subgraph" and len(n.args) == 1 and not kw:
            g, tg = self.expr(f.value, binds)
            a, ta = self.expr(n.args[0], binds)
            if (tg, ta) == (GRAPH, LI):
                return f"{atom(g)}.subgraph {atom(a)}", GRAPH
        elif isinstance(f, ast.Attribute) and f.attr == "items" and not n.args and not kw:
            e, t = self.expr(f.value, binds)
            if t == DICT:
                return f"dictItems {atom(e)}", DICT
        elif fname == "zip" and len(n.args) == 2 and set(kw) <= {"strict"}:
            if "strict" in kw and not (isinstance(kw["strict"], ast.Constant) and kw["strict"].value is False):
                raise Unsupported(f"{src}: only strict=False is modelled")
            (a, ta), (b, tb) = self.expr(n.args[0], binds), self.expr(n.args[1], binds)
            if ta == tb == LI:
                return f"pyZip {atom(a)} {atom(b)}", LP + "#zip"
        raise Unsupported(f"call {src}")

    # ---------------------------------------------------------------- statements
    def assign(self, name, value, ann, out, ind):
        if name in self.frozen or name in self.params:
            raise Unsupported(f"assignment to the loop variable / parameter {name}")
        if _attr(value, "np") == "int64":
            if self.stores.get(name) != 1 or self.loop or name in self.env:
                raise Unsupported(f"dtype alias {name} is assigned more than once")
            self.dtypes[name] = "int64"
            return
        want = None
        if isinstance(value, ast.List) and not value.elts:
            annotated = ann is not None and ast.unparse(ann).replace(" ", "") in ("list[str]", "List[str]")
            if annotated or name in self.str_lists:
                want = LS
        binds: list[str] = []
        e, t = self.expr(value, binds, want=want)
        if "#" in t:
            raise Unsupported(f"{name} = {ast.unparse(value)}: an iterator stored in a variable")
        if isinstance(value, ast.Name) and t in (LS, DICT, GRAPH):
            raise Unsupported(f"{name} = {value.id}: a second name for a mutable object")
        x = self.ln(name)
        out += [ind + b for b in binds]
        if name in self.env:
            if self.env[name] != t:
                raise Unsupported(f"variable {name}: {self.env[name]} reassigned with {t}")
            out.append(ind + f"{x} := {e}")
        else:
            mut = "mut " if (self.stores.get(name, 0) > 1 or name in self.edited) else ""
            self.env[name] = t
            out.append(ind + f"let {mut}{x} : {t} := {e}")

    def mutable(self, name, ty):
        if name not in self.env or name in self.frozen or name in self.params or self.env[name] != ty:
            raise Unsupported(f"{name} is not an editable local of type {ty} here")
        return self.ln(name)

    def block(self, stmts, out, ind, top=False):
        before = set(self.env)
        stmts = _setdefault_split(stmts)
        for k, s in enumerate(stmts):
            binds: list[str] = []
            if isinstance(s, ast.Expr) and isinstance(s.value, ast.Constant) and isinstance(s.value.value, str):
                continue
            if isinstance(s, ast.Assign) and len(s.targets) == 1 and isinstance(s.targets[0], ast.Name):
                self.assign(s.targets[0].id, s.value, None, out, ind)
            elif isinstance(s, ast.AnnAssign) and isinstance(s.target, ast.Name) and s.value is not None:
                self.assign(s.target.id, s.value, s.annotation, out, ind)
            elif _is_append(s) and isinstance(s.value.func.value, ast.Name):
                x = self.mutable(s.value.func.value.id, LS)
                e, t = self.expr(s.value.args[0], binds)
                if t != STR:
                    raise Unsupported(f"append of {t} to a list of str")
                out += [ind + b for b in binds] + [ind + f"{x} := {x} ++ [{e}]"]
            elif (_is_append(s) and isinstance(s.value.func.value, ast.Call) and isinstance(s.value.func.value.func, ast.Attribute)
                  and s.value.func.value.func.attr == "setdefault" and isinstance(s.value.func.value.func.value, ast.Name)):
                sd = s.value.func.value
                d = self.mutable(sd.func.value.id, DICT)
                if len(sd.args) != 2 or sd.keywords or not (isinstance(sd.args[1], ast.List) and not sd.args[1].elts):
                    raise Unsupported(f"{ast.unparse(sd)}: setdefault(k, []) expected")
                key, tk = self.expr(sd.args[0], binds)
                v, tv = self.expr(s.value.args[0], binds)
                if (tk, tv) != (INT, INT):
                    raise Unsupported(f"{ast.unparse(s)} with {tk}, {tv}")
                out += [ind + b for b in binds] + [ind + f"{d} := dictSetdefaultAppend {d} {atom(key)} {atom(v)}"]
            elif (isinstance(s, ast.Expr) and isinstance(s.value, ast.Call) and isinstance(s.value.func, ast.Attribute)
                  and s.value.func.attr == "add_nodes_from" and isinstance(s.value.func.value, ast.Name)
                  and len(s.value.args) == 1 and not s.value.keywords):
                g = self.mutable(s.value.func.value.id, GRAPH)
                e, t = self.expr(s.value.args[0], binds)
                if t != LI:
                    raise Unsupported(f"add_nodes_from of {t}")
                out += [ind + b for b in binds] + [ind + f"{g} := {g}.addNodesFrom {atom(e)}"]
            elif isinstance(s, ast.Continue):
                if not self.loop:
                    raise Unsupported("continue outside a loop")
                out.append(ind + "continue")
                if k != len(stmts) - 1:
                    raise Unsupported("statements after continue")
            elif isinstance(s, ast.Return):
                v = s.value
                if not (top and k == len(stmts) - 1):
                    raise Unsupported("a return that is not the last statement of the function")
                if not (isinstance(v, ast.Tuple) and len(v.elts) == 2):
                    raise Unsupported(f"return value {ast.unparse(s)}")
                b, tb = self.expr(v.elts[0], binds)
                e, te = self.expr(v.elts[1], binds)
                if (tb, te) != (BOOL, LS):
                    raise Unsupported(f"return of ({tb}, {te})")
                out += [ind + x for x in binds] + [ind + f"return ({b}, {e})"]
            elif isinstance(s, ast.If):
                c, tc = self.expr(s.test, binds)
                if tc != BOOL:
                    raise Unsupported(f"condition of type {tc}: {ast.unparse(s.test)}")
                out += [ind + x for x in binds] + [ind + f"if {c} then"]
                self.block(s.body, out, ind + "  ")
                if s.orelse:
                    out.append(ind + "else")
                    self.block(s.orelse, out, ind + "  ")
            elif isinstance(s, ast.For) and not s.orelse:
                it, ti = self.expr(s.iter, binds)
                pat, names = self.pattern(s.target, ti.split("#")[0])
                self.scoped(names)
                edited_here = {m.id for b in s.body for m in ast.walk(b) if isinstance(m, ast.Name)} & self.edited
                if edited_here & {m.id for m in ast.walk(s.iter) if isinstance(m, ast.Name)}:
                    raise Unsupported("the loop body edits what the loop iterates over")
                out += [ind + x for x in binds] + [ind + f"for {pat} in {it} do"]
                self.env.update(names)
                self.frozen |= set(names)
                self.loop += 1
                try:
                    self.block(s.body, out, ind + "  ")
                finally:
                    self.loop -= 1
                    for v in names:
                        self.env.pop(v, None)
                        self.frozen.discard(v)
            else:
                raise Unsupported(f"statement {type(s).__name__}: {ast.unparse(s)[:70]}")
        if not top:
            for v in set(self.env) - before:
                del self.env[v]


def head(name, underscore="") -> str:
    params = " ".join(f"({underscore}{camel(p)} : {t})" for p, t in FUNCS[name])
    return f"def {camel(name)} {params} : Outcome ({RET}) := "


def translate_function(fn: ast.FunctionDef) -> str:
    params = FUNCS[fn.name]
    a = fn.args
    if ([x.arg for x in a.args] != [p for p, _ in params] or a.vararg or a.kwarg or a.kwonlyargs or a.posonlyargs
            or a.defaults or fn.decorator_list):
        raise Unsupported(f"signature of {fn.name} changed: {ast.unparse(a)}")
    if not (fn.body and isinstance(fn.body[-1], ast.Return)):
        raise Unsupported("the function does not end in a return")
    for n in ast.walk(fn):
        if isinstance(n, (ast.Global, ast.Nonlocal, ast.Try, ast.With, ast.While, ast.Lambda, ast.FunctionDef)) and n is not fn:
            raise Unsupported(f"statement {type(n).__name__}")
    body: list[str] = []
    Tr(fn, params).block(fn.body, body, "  ", top=True)
    return "\n".join([head(fn.name) + "do", *body])


def generate(repo: Path, out: Path) -> dict:
    """translate both functions, write Gen/Tracks.lean, -> {python function name: reason it was refused}"""
    errors, defs, fns, unparsed = {}, [], {}, None
    try:
        tree = ast.parse((repo / SRC).read_text())
        fns = {n.name: n for n in tree.body if isinstance(n, ast.FunctionDef)}
    except Exception as e:  # noqa: BLE001
        unparsed = f"the source does not parse: {type(e).__name__}: {e}"
    for name in FUNCS:
        try:
            if name not in fns:
                raise Unsupported(unparsed or f"function {name} not found")
            defs.append(f"/-- `{name}` ({SRC}:{fns[name].lineno}) -/\n" + translate_function(fns[name]))
        except Exception as e:  # noqa: BLE001
            why = str(e) if isinstance(e, Unsupported) else f"{type(e).__name__}: {e}"
            errors[name] = why = " ".join(why.replace("-/", "- /").split())
            defs.append(f"/-- `{name}`: NOT TRANSLATED ({why}) -/\n" + head(name, "_") + 'throw (.other "untranslated")')
    body = "import GeffModel.PyDoTracks\n" + HEADER
    body += "/-! `geff/validate/tracks.py`, statement by statement (translator T21). -/\n"
    body += "set_option linter.unusedVariables false\nnamespace Gen.Tracks\nopen Geff.PyDoTracks\n\n"
    body += f"def lineagesOk : Bool := {'true' if 'validate_lineages' not in errors else 'false'}\n"
    body += f"def trackletsOk : Bool := {'true' if 'validate_tracklets' not in errors else 'false'}\n"
    body += "def translationOk : Bool := lineagesOk && trackletsOk\n\n"
    body += "\n\n".join(defs) + "\n\nend Gen.Tracks\n"
    write_if_changed(out / "Tracks.lean", body)
    return errors


def run(repo: Path, out: Path):
    """T21 proper: the item of C14 — `validate_lineages` (the file is written with both functions)"""
    errors = generate(repo, out)
    mine = errors.get("validate_lineages")
    return {"ok": mine is None, **({"error": f"validate_lineages: {mine}"} if mine else {}),
            "validate_tracklets": errors.get("validate_tracklets", "translated")}
