"""T11 — bodies of `geff/validate/graph.py` and of `validate_sphere` -> lean/Gen/ValidateGraph.lean (C12).

What is translated (parsed with `ast`, never imported): the *bodies* of

    geff.validate.graph.validate_unique_node_ids(node_ids)            node_ids : 1-D integer array
    geff.validate.graph.validate_nodes_for_edges(node_ids, edge_ids)  edge_ids : (E, 2) integer array
    geff.validate.graph.validate_no_self_edges(edge_ids)
    geff.validate.graph.validate_no_repeated_edges(edge_ids)
    geff.validate.shapes.validate_sphere(radius, missing=None)        radius : array of any rank (int / binary64
                                                                      entries), missing : None | boolean array

statement by statement into Lean definitions `Gen.ValidateGraph.<same name>` in the monad
`Geff.NpPrim.Py = Except Exc` over the numpy primitive library lean/GeffModel/NpPrim.lean: one
`let` / bind per Python statement, same variable names, every constant (the `1` of `counts > 1`,
the column numbers, the `0` of `radius < 0`, the messages) taken from the AST.
GeffProps.C12Gen proves every generated function EQUAL, for all inputs, to the hand-written model
`Geff.Validate.*` that the C12 theorems are about; so a source change that alters the behaviour
makes the translation differ and the equality proof fail, and a change that leaves the subset is
refused here (`translationOk := false`, which the theorems of C12Gen require to be `true`).

The parameter kinds above are the INPUT DOMAIN (docstrings of the functions / InMemoryGeff: node ids
1-D, edge ids (E, 2), same integer dtype); they are declared in ENTRY, everything else is inferred.

Supported subset — anything else is refused with a message naming the line:
  module      only imports, `if TYPE_CHECKING:` imports, function definitions, a docstring; `import numpy as np`
  signature   exactly the parameters above (no decorators, *args, **kwargs, keyword-only), `missing=None`
  statements  x = e | a, b[, c] = np.unique(…, return_…=True) (`_` allowed) |
              if <bool>: … return/raise   (no else; the rest of the block is the else branch) |
              if <opt> is not None: x = e …   (re-assignments of already bound names of the same kind) |
              return a, b | raise ValueError("…" | f"…{x.ndim}…") | docstring
              `if x.ndim != 1: raise …` narrows x from "array of unknown rank" to 1-D for the rest
  expressions np.asarray(a) | np.asarray(m, dtype=bool) | np.array([]) | np.ascontiguousarray(a) |
              np.ascontiguousarray(e).view([("", e.dtype)] * e.shape[1])   (e an (E, 2) array) |
              np.unique(a) | np.unique(a, return_counts=True) |
              np.unique(view, return_index=True, return_counts=True) | np.isin(a, b) |
              any(m) | np.any(m) | np.all(m) | len(a) | a.ndim |
              a <op> b, a <op> k, len/ndim <op> k  with <op> in < <= > >= == !=  and k an integer literal |
              ~m | not b | m1 & m2 | m1 | m2 | m1 ^ m2 |
              e[:, k] | a[m] | e[m, k] | a[idx]  (m boolean array, idx index array from np.unique, k literal >= 0) |
              True | False | names
  kinds       ints (1-D int), rows ((E,2) int), rowsview (structured row view: only np.unique accepts it),
              bools, nats (counts / indices from np.unique), nums (1-D radius), ndnum (radius of unknown rank),
              optbools, bool, int, empty (np.array([])); every operator is kind-checked.
"""
from __future__ import annotations

import ast
from pathlib import Path

from harness.translate import lean_str, write_if_changed

NAME = "T11_validate_graph"
PROPS = ["C12"]

GRAPH_SRC = "packages/geff/src/geff/validate/graph.py"
SHAPES_SRC = "packages/geff/src/geff/validate/shapes.py"

# the input domain: (function, file, [(parameter, kind, default)], result)
ENTRY = [
    ("validate_unique_node_ids", GRAPH_SRC, [("node_ids", "ints", None)], ("pair", "ints")),
    ("validate_nodes_for_edges", GRAPH_SRC, [("node_ids", "ints", None), ("edge_ids", "rows", None)], ("pair", "rows")),
    ("validate_no_self_edges", GRAPH_SRC, [("edge_ids", "rows", None)], ("pair", "ints")),
    ("validate_no_repeated_edges", GRAPH_SRC, [("edge_ids", "rows", None)], ("pair", "rows")),
    ("validate_sphere", SHAPES_SRC, [("radius", "ndnum", None), ("missing", "optbools", "None")], "none"),
]

LEAN_TY = {"ints": "List Int", "rows": "List (Int × Int)", "bools": "List Bool", "nats": "List Nat",
           "nums": "List Num", "ndnum": "NpPrim.NdArr Num", "optbools": "Option (List Bool)", "bool": "Bool",
           "int": "Int"}
ARRAYS_1D = ("ints", "nats", "nums", "bools")
CMP = {ast.Lt: ".lt", ast.LtE: ".le", ast.Gt: ".gt", ast.GtE: ".ge", ast.Eq: ".eq", ast.NotEq: ".ne"}
LEAN_KEYWORDS = {"at", "from", "end", "fun", "show", "have", "let", "do", "then", "else", "if", "match", "with", "in",
                 "open", "def", "theorem", "by", "where", "import", "namespace", "section", "variable", "example",
                 "instance", "structure", "class", "inductive", "deriving", "mutual", "private", "protected", "macro",
                 "syntax", "notation", "universe", "set_option", "return", "for", "unless", "try", "catch", "finally",
                 "mut", "using", "from", "Type", "Prop", "Sort", "true", "false", "pure", "throw", "some", "none"}

HEADER = ("/-! GENERATED by harness/translators/t11_validate_graph.py from the working tree — do not edit.\n"
          "Statement-by-statement transliteration of geff/validate/graph.py and validate_sphere over the numpy\n"
          "primitives of GeffModel/NpPrim.lean (the Python source of each statement is quoted above its translation). -/\n")


class Unsupported(Exception):
    pass


def _where(n):
    return f"line {getattr(n, 'lineno', '?')}"


def _refuse(n, what):
    try:
        src = ast.unparse(n)
    except Exception:  # noqa: BLE001
        src = type(n).__name__
    raise Unsupported(f"{what}: `{src[:90]}` ({_where(n)})")


def _ident(name: str) -> str:
    if name in LEAN_KEYWORDS or not name.isidentifier() or not name.isascii():
        return f"«{name}»"
    return name


class T:
    """a translated expression: Lean term, kind, and whether the term is a `Py` action (numpy can raise)"""

    def __init__(self, lean, ty, fallible=False, atomic=False):
        self.lean, self.ty, self.fallible, self.atomic = lean, ty, fallible, atomic

    def arg(self):
        if self.fallible:
            return f"(← {self.lean})"
        return self.lean if self.atomic else f"({self.lean})"


def _int_literal(e):
    """integer literal (possibly negated); bools are not integers here"""
    if isinstance(e, ast.Constant) and type(e.value) is int:
        return e.value
    if (isinstance(e, ast.UnaryOp) and isinstance(e.op, ast.USub) and isinstance(e.operand, ast.Constant)
            and type(e.operand.value) is int):
        return -e.operand.value
    return None


def _lean_int(k: int) -> str:
    return str(k) if k >= 0 else f"({k})"


def _is_np(e, attr=None):
    return (isinstance(e, ast.Attribute) and isinstance(e.value, ast.Name) and e.value.id == "np"
            and (attr is None or e.attr == attr))


def _is_full_slice(s):
    return isinstance(s, ast.Slice) and s.lower is None and s.upper is None and s.step is None


class FnTranslator:
    def __init__(self, fn: ast.FunctionDef, params, result):
        self.fn, self.params, self.result = fn, params, result

    # ------------------------------------------------------------------ expressions
    def expr(self, e, env) -> T:
        if isinstance(e, ast.Name):
            if e.id not in env:
                _refuse(e, "name not bound in the translated function")
            return T(_ident(e.id), env[e.id], atomic=True)
        if isinstance(e, ast.Constant) and isinstance(e.value, bool):
            return T("true" if e.value else "false", "bool", atomic=True)
        if isinstance(e, ast.Compare):
            return self.compare(e, env)
        if isinstance(e, ast.UnaryOp):
            if isinstance(e.op, ast.Invert):
                a = self.expr(e.operand, env)
                if a.ty != "bools":
                    _refuse(e, f"`~` on a {a.ty}")
                return T(f"NpPrim.notMask {a.arg()}", "bools")
            if isinstance(e.op, ast.Not):
                a = self.expr(e.operand, env)
                if a.ty != "bool":
                    _refuse(e, f"`not` on a {a.ty}")
                return T(f"!{a.arg()}", "bool")
            _refuse(e, "unary operator")
        if isinstance(e, ast.BinOp):
            op = {ast.BitAnd: "andMask", ast.BitOr: "orMask", ast.BitXor: "xorMask"}.get(type(e.op))
            if op is None:
                _refuse(e, "binary operator")
            a, b = self.expr(e.left, env), self.expr(e.right, env)
            if a.ty != "bools" or b.ty != "bools":
                _refuse(e, f"`{type(e.op).__name__}` on {a.ty}, {b.ty}")
            return T(f"NpPrim.{op} {a.arg()} {b.arg()}", "bools", fallible=True)
        if isinstance(e, ast.Subscript):
            return self.subscript(e, env)
        if isinstance(e, ast.Attribute):
            if e.attr == "ndim" and isinstance(e.value, ast.Name):
                a = self.expr(e.value, env)
                if a.ty == "ndnum":
                    return T(f"NpPrim.ndim {a.arg()}", "int")
            _refuse(e, "attribute")
        if isinstance(e, ast.Call):
            return self.call(e, env)
        _refuse(e, "expression")

    def compare(self, e: ast.Compare, env) -> T:
        if len(e.ops) != 1 or type(e.ops[0]) not in CMP:
            _refuse(e, "comparison")
        op = CMP[type(e.ops[0])]
        a = self.expr(e.left, env)
        k = _int_literal(e.comparators[0])
        if k is not None:
            prim = {"ints": "cmpScalar", "nats": "cmpScalarNat", "nums": "cmpScalarNum", "int": "cmp"}.get(a.ty)
            if prim is None:
                _refuse(e, f"comparison of a {a.ty} with an integer")
            return T(f"NpPrim.{prim} {op} {a.arg()} {_lean_int(k)}", "bool" if a.ty == "int" else "bools")
        b = self.expr(e.comparators[0], env)
        if a.ty == "ints" and b.ty == "ints":
            return T(f"NpPrim.cmpArr {op} {a.arg()} {b.arg()}", "bools", fallible=True)
        if a.ty == "int" and b.ty == "int":
            return T(f"NpPrim.cmp {op} {a.arg()} {b.arg()}", "bool")
        _refuse(e, f"comparison of {a.ty} with {b.ty}")

    def subscript(self, e: ast.Subscript, env) -> T:
        a = self.expr(e.value, env)
        s = e.slice
        if isinstance(s, ast.Tuple):
            if len(s.elts) != 2 or a.ty != "rows":
                _refuse(e, f"index on a {a.ty}")
            k = _int_literal(s.elts[1])
            if k is None or k < 0:
                _refuse(e, "column index is not a literal >= 0")
            if _is_full_slice(s.elts[0]):
                return T(f"NpPrim.col {a.arg()} {k}", "ints", fallible=True)
            if isinstance(s.elts[0], ast.Slice):
                _refuse(e, "row slice")
            m = self.expr(s.elts[0], env)
            if m.ty != "bools":
                _refuse(e, f"row index of kind {m.ty}")
            return T(f"NpPrim.maskCol {a.arg()} {m.arg()} {k}", "ints", fallible=True)
        if isinstance(s, ast.Slice) or _int_literal(s) is not None:
            _refuse(e, "slice / scalar index")
        i = self.expr(s, env)
        if i.ty == "bools" and a.ty in ARRAYS_1D + ("rows",):
            return T(f"NpPrim.maskIndex {a.arg()} {i.arg()}", a.ty, fallible=True)
        if i.ty == "nats" and a.ty in ("ints", "rows"):
            return T(f"NpPrim.take {a.arg()} {i.arg()}", a.ty, fallible=True)
        _refuse(e, f"index of kind {i.ty} on a {a.ty}")

    def call(self, e: ast.Call, env) -> T:
        f = e.func
        kw = {k.arg: k.value for k in e.keywords}
        if None in kw:
            _refuse(e, "**kwargs")
        if isinstance(f, ast.Name) and f.id in ("any", "len") and not kw and len(e.args) == 1:
            a = self.expr(e.args[0], env)
            if f.id == "any":
                if a.ty != "bools":
                    _refuse(e, f"any() of a {a.ty}")
                return T(f"NpPrim.any {a.arg()}", "bool")
            if a.ty not in ARRAYS_1D + ("rows",):
                _refuse(e, f"len() of a {a.ty}")
            return T(f"NpPrim.len {a.arg()}", "int")
        if isinstance(f, ast.Attribute) and f.attr == "view":
            return self.row_view(e, env)
        if not _is_np(f):
            _refuse(e, "call")
        name = f.attr
        if name == "asarray" and len(e.args) == 1:
            a = self.expr(e.args[0], env)
            if not kw and a.ty in ARRAYS_1D + ("rows",):
                return T(f"NpPrim.asarray {a.arg()}", a.ty)
            if (set(kw) == {"dtype"} and isinstance(kw["dtype"], ast.Name) and kw["dtype"].id == "bool"
                    and a.ty == "bools"):
                return T(f"NpPrim.asarrayBool {a.arg()}", "bools")
            _refuse(e, f"np.asarray of a {a.ty}")
        if name == "ascontiguousarray" and len(e.args) == 1 and not kw:
            a = self.expr(e.args[0], env)
            if a.ty in ARRAYS_1D + ("rows",):
                return T(f"NpPrim.ascontiguousarray {a.arg()}", a.ty)
            _refuse(e, f"np.ascontiguousarray of a {a.ty}")
        if name == "array" and len(e.args) == 1 and not kw and isinstance(e.args[0], ast.List) and not e.args[0].elts:
            return T("NpPrim.emptyArray", "empty", atomic=True)
        if name in ("any", "all") and len(e.args) == 1 and not kw:
            a = self.expr(e.args[0], env)
            if a.ty != "bools":
                _refuse(e, f"np.{name} of a {a.ty}")
            return T(f"NpPrim.{name} {a.arg()}", "bool")
        if name == "isin" and len(e.args) == 2 and not kw:
            a, b = self.expr(e.args[0], env), self.expr(e.args[1], env)
            if a.ty != "ints" or b.ty != "ints":
                _refuse(e, f"np.isin of {a.ty}, {b.ty}")
            return T(f"NpPrim.isin {a.arg()} {b.arg()}", "bools")
        if name == "unique" and len(e.args) == 1:
            for k, v in kw.items():
                if k not in ("return_counts", "return_index") or not (isinstance(v, ast.Constant) and v.value is True):
                    _refuse(e, f"np.unique keyword {k}")
            a = self.expr(e.args[0], env)
            flags = set(kw)
            if not flags and a.ty == "ints":
                return T(f"NpPrim.unique {a.arg()}", "ints")
            if flags == {"return_counts"} and a.ty == "ints":
                return T(f"NpPrim.uniqueCounts {a.arg()}", ("tuple", "ints", "nats"))
            if flags == {"return_counts", "return_index"} and a.ty == "rowsview":
                return T(f"NpPrim.uniqueRowsIndexCounts {a.arg()}", ("tuple", "rows", "nats", "nats"))
            _refuse(e, f"np.unique({a.ty}, {sorted(flags)})")
        _refuse(e, "numpy call")

    def row_view(self, e: ast.Call, env) -> T:
        """np.ascontiguousarray(X).view([("", X.dtype)] * X.shape[1]) with X an (E, 2) array"""
        base = e.func.value
        ok = (not e.keywords and len(e.args) == 1 and isinstance(base, ast.Call) and _is_np(base.func, "ascontiguousarray")
              and len(base.args) == 1 and not base.keywords and isinstance(base.args[0], ast.Name))
        if ok:
            x = base.args[0].id
            a = e.args[0]
            ok = (isinstance(a, ast.BinOp) and isinstance(a.op, ast.Mult) and isinstance(a.left, ast.List)
                  and len(a.left.elts) == 1 and isinstance(a.left.elts[0], ast.Tuple) and len(a.left.elts[0].elts) == 2)
            if ok:
                nm, dt = a.left.elts[0].elts
                sh = a.right
                ok = (isinstance(nm, ast.Constant) and nm.value == ""
                      and isinstance(dt, ast.Attribute) and dt.attr == "dtype" and isinstance(dt.value, ast.Name) and dt.value.id == x
                      and isinstance(sh, ast.Subscript) and isinstance(sh.value, ast.Attribute) and sh.value.attr == "shape"
                      and isinstance(sh.value.value, ast.Name) and sh.value.value.id == x and _int_literal(sh.slice) == 1)
        if not ok:
            _refuse(e, "`.view(...)` other than the structured row view of an (E, 2) array")
        t = self.expr(base.args[0], env)
        if t.ty != "rows":
            _refuse(e, f"structured row view of a {t.ty}")
        return T(f"NpPrim.rowView (NpPrim.ascontiguousarray {t.arg()})", "rowsview")

    # ------------------------------------------------------------------ statements
    def message(self, a, env) -> str:
        if isinstance(a, ast.Constant) and isinstance(a.value, str):
            return lean_str(a.value)
        if isinstance(a, ast.JoinedStr):
            parts = []
            for p in a.values:
                if isinstance(p, ast.Constant) and isinstance(p.value, str):
                    parts.append(lean_str(p.value))
                elif isinstance(p, ast.FormattedValue) and p.conversion == -1 and p.format_spec is None:
                    t = self.expr(p.value, env)
                    if t.ty != "int" or t.fallible:
                        _refuse(p, f"formatted value of kind {t.ty}")
                    parts.append(f"toString {t.arg()}")
                else:
                    _refuse(a, "f-string part")
            return "(" + " ++ ".join(parts) + ")" if parts else '""'
        _refuse(a, "exception message")

    def bind(self, target: str, t: T, ind: str) -> str:
        return f"{ind}let {target} {'←' if t.fallible else ':='} {t.lean}"

    def assign(self, s: ast.Assign, env, ind) -> list[str]:
        if len(s.targets) != 1:
            _refuse(s, "chained assignment")
        tgt = s.targets[0]
        t = self.expr(s.value, env)
        if isinstance(tgt, ast.Name):
            if isinstance(t.ty, tuple):
                _refuse(s, "tuple value bound to one name")
            if t.ty == "empty":
                _refuse(s, "np.array([]) bound to a name (its kind is only known in a return)")
            env[tgt.id] = t.ty
            return [self.bind(_ident(tgt.id), t, ind)]
        if isinstance(tgt, ast.Tuple) and all(isinstance(x, ast.Name) for x in tgt.elts):
            if not isinstance(t.ty, tuple) or len(t.ty) - 1 != len(tgt.elts):
                _refuse(s, "tuple unpacking of a value that is not a tuple of that length")
            names = []
            for x, ty in zip(tgt.elts, t.ty[1:]):
                if x.id == "_":
                    names.append("_")
                else:
                    env[x.id] = ty
                    names.append(_ident(x.id))
            return [self.bind("(" + ", ".join(names) + ")", t, ind)]
        _refuse(s, "assignment target")

    def block(self, stmts, env, ind, top) -> list[str]:
        lines: list[str] = []
        for i, s in enumerate(stmts):
            if isinstance(s, ast.Expr) and isinstance(s.value, ast.Constant) and isinstance(s.value.value, str):
                continue  # docstring
            first = ast.unparse(s).split("\n")[0]
            lines.append(f"{ind}-- {first}")
            if isinstance(s, ast.Assign):
                lines += self.assign(s, env, ind)
            elif isinstance(s, ast.Return):
                if i != len(stmts) - 1:
                    _refuse(stmts[i + 1], "statement after return")
                lines.append(self.ret(s, env, ind))
                return lines
            elif isinstance(s, ast.Raise):
                if i != len(stmts) - 1:
                    _refuse(stmts[i + 1], "statement after raise")
                lines.append(self.raise_(s, env, ind))
                return lines
            elif isinstance(s, ast.If):
                if s.orelse:
                    _refuse(s, "if with else")
                t = s.test
                if (isinstance(t, ast.Compare) and len(t.ops) == 1 and isinstance(t.ops[0], ast.IsNot)
                        and isinstance(t.comparators[0], ast.Constant) and t.comparators[0].value is None):
                    lines += self.if_not_none(s, env, ind)
                    continue
                if not isinstance(s.body[-1], (ast.Return, ast.Raise)):
                    _refuse(s, "if whose body does not end in return / raise")
                c = self.expr(t, env)
                if c.ty != "bool":
                    _refuse(t, f"condition of kind {c.ty}")
                lines.append(f"{ind}if {c.arg() if c.fallible else c.lean} then do")
                lines += self.block(s.body, dict(env), ind + "  ", top=False)
                lines.append(f"{ind}else do")
                env2 = dict(env)
                ind2 = ind + "  "
                # `if x.ndim != 1: raise …`  =>  x is 1-D from here on
                if (isinstance(t, ast.Compare) and len(t.ops) == 1 and isinstance(t.ops[0], ast.NotEq)
                        and isinstance(t.left, ast.Attribute) and t.left.attr == "ndim" and isinstance(t.left.value, ast.Name)
                        and env.get(t.left.value.id) == "ndnum" and _int_literal(t.comparators[0]) == 1):
                    x = _ident(t.left.value.id)
                    lines.append(f"{ind2}-- ({t.left.value.id}.ndim == 1 here: from now on the 1-D array of its entries)")
                    lines.append(f"{ind2}let {x} := NpPrim.flat1 {x}")
                    env2[t.left.value.id] = "nums"
                lines += self.block(stmts[i + 1:], env2, ind2, top=top)
                return lines
            else:
                _refuse(s, f"statement {type(s).__name__}")
        # fell off the end of the block
        if top and self.result == "none":
            lines.append(f"{ind}pure ()")
            return lines
        if top:
            raise Unsupported(f"{self.fn.name}: control can reach the end of the function without a return")
        raise Unsupported(f"{self.fn.name}: an if body that does not end in return / raise")

    def if_not_none(self, s: ast.If, env, ind) -> list[str]:
        t = s.test
        if not (isinstance(t.left, ast.Name) and env.get(t.left.id) == "optbools"):
            _refuse(t, "`is not None` test on something that is not an optional mask parameter")
        opt = t.left.id
        inner = dict(env)
        inner[opt] = "bools"
        body, assigned = [], []
        for b in s.body:
            if not (isinstance(b, ast.Assign) and len(b.targets) == 1 and isinstance(b.targets[0], ast.Name)):
                _refuse(b, "statement other than `x = e` under `is not None`")
            x = b.targets[0].id
            if x not in env or x == opt:
                _refuse(b, "assignment of a name not bound before the `if`")
            body.append(f"{ind}    -- {ast.unparse(b)}")
            body += self.assign(b, inner, ind + "    ")
            if inner[x] != env[x]:
                _refuse(b, f"re-assignment changes the kind of {x} from {env[x]} to {inner[x]}")
            if x not in assigned:
                assigned.append(x)
        pat = _ident(assigned[0]) if len(assigned) == 1 else "(" + ", ".join(_ident(x) for x in assigned) + ")"
        out = [f"{ind}let {pat} ← match {_ident(opt)} with",
               f"{ind}  | none => pure {pat}",
               f"{ind}  | some {_ident(opt)} => do"]
        out += body
        out.append(f"{ind}    pure {pat}")
        return out

    def ret(self, s: ast.Return, env, ind) -> str:
        if self.result == "none":
            if s.value is None or (isinstance(s.value, ast.Constant) and s.value.value is None):
                return f"{ind}pure ()"
            _refuse(s, "return with a value in a function that returns None")
        v = s.value
        if not (isinstance(v, ast.Tuple) and len(v.elts) == 2):
            _refuse(s, "return value that is not a pair")
        a, b = self.expr(v.elts[0], env), self.expr(v.elts[1], env)
        if a.ty != "bool" or b.ty not in (self.result[1], "empty"):
            _refuse(s, f"return of ({a.ty}, {b.ty}), expected (bool, {self.result[1]})")
        return f"{ind}pure ({a.arg() if a.fallible else a.lean}, {b.arg() if b.fallible else b.lean})"

    def raise_(self, s: ast.Raise, env, ind) -> str:
        e = s.exc
        if not (s.cause is None and isinstance(e, ast.Call) and isinstance(e.func, ast.Name) and e.func.id == "ValueError"
                and len(e.args) == 1 and not e.keywords):
            _refuse(s, "raise other than `raise ValueError(<message>)`")
        return f"{ind}throw (NpPrim.Exc.valueError {self.message(e.args[0], env)})"

    def translate(self) -> list[str]:
        fn = self.fn
        a = fn.args
        if fn.decorator_list or a.vararg or a.kwarg or a.kwonlyargs or a.posonlyargs:
            raise Unsupported(f"{fn.name}: decorators / *args / **kwargs / keyword-only / positional-only parameters")
        if [x.arg for x in a.args] != [p for p, _, _ in self.params]:
            raise Unsupported(f"{fn.name}: parameters {[x.arg for x in a.args]}, expected {[p for p, _, _ in self.params]}")
        want = [d for _, _, d in self.params if d is not None]
        got = [ast.unparse(d) for d in a.defaults]
        if got != want or any(d is None for _, _, d in self.params[len(self.params) - len(want):]):
            raise Unsupported(f"{fn.name}: parameter defaults {got}, expected {want}")
        env = {p: ty for p, ty, _ in self.params}
        return self.block(fn.body, env, "  ", top=True)


def _signature(name, params, result) -> str:
    ps = " ".join(f"({_ident(p)} : {LEAN_TY[ty]})" for p, ty, _ in params)
    res = "Unit" if result == "none" else f"(Bool × {LEAN_TY[result[1]]})"
    return f"def {name} {ps} : NpPrim.Py {res} :="


def _module_functions(path: Path) -> dict[str, ast.FunctionDef]:
    tree = ast.parse(path.read_text())
    fns: dict[str, ast.FunctionDef] = {}
    has_np = False
    for node in tree.body:
        if isinstance(node, ast.Import):
            for al in node.names:
                if al.name == "numpy" and al.asname == "np":
                    has_np = True
                elif (al.asname or al.name) == "np":
                    raise Unsupported(f"`np` is not numpy ({_where(node)})")
        elif isinstance(node, ast.ImportFrom):
            if any((al.asname or al.name) in ("np", "any", "len") for al in node.names):
                raise Unsupported(f"import rebinding np / any / len ({_where(node)})")
        elif isinstance(node, ast.If) and ast.unparse(node.test) == "TYPE_CHECKING" and not node.orelse and all(
                isinstance(b, (ast.Import, ast.ImportFrom)) for b in node.body):
            pass
        elif isinstance(node, ast.Expr) and isinstance(node.value, ast.Constant) and isinstance(node.value.value, str):
            pass
        elif isinstance(node, ast.FunctionDef):
            if node.name in fns or node.name in ("any", "len", "np"):
                raise Unsupported(f"function {node.name} defined twice / shadows a builtin ({_where(node)})")
            fns[node.name] = node
        else:
            raise Unsupported(f"module-level statement {type(node).__name__} ({_where(node)})")
    if not has_np:
        raise Unsupported("`import numpy as np` not found")
    return fns


def run(repo: Path, out: Path):
    errors: list[str] = []
    modules: dict[str, dict] = {}
    for src in (GRAPH_SRC, SHAPES_SRC):
        try:
            modules[src] = _module_functions(repo / src)
        except Exception as e:  # noqa: BLE001
            errors.append(f"{src}: {type(e).__name__}: {e}")
            modules[src] = {}
    defs: list[str] = []
    translated: list[str] = []
    for name, src, params, result in ENTRY:
        sig = _signature(name, params, result)
        doc = f"/-- `{src.split('/src/')[1][:-3].replace('/', '.')}.{name}` -/"
        try:
            fn = modules[src].get(name)
            if fn is None:
                raise Unsupported(f"function {name} not found in {src}")
            # local rebinding of np / any / len inside the function would change what the calls mean
            for n in ast.walk(fn):
                if isinstance(n, (ast.Name, ast.arg)) and (getattr(n, "id", None) or getattr(n, "arg", None)) in ("np", "any", "len") \
                        and not isinstance(getattr(n, "ctx", ast.Load()), ast.Load):
                    raise Unsupported(f"{name}: rebinds np / any / len ({_where(n)})")
                if isinstance(n, ast.arg) and n.arg in ("np", "any", "len"):
                    raise Unsupported(f"{name}: parameter named {n.arg}")
            body = FnTranslator(fn, params, result).translate()
            defs.append(doc + "\n" + sig + " do\n" + "\n".join(body) + "\n")
            translated.append(name)
        except Exception as e:  # noqa: BLE001
            errors.append(f"{name}: {e}" if isinstance(e, Unsupported) else f"{name}: {type(e).__name__}: {e}")
            defs.append(doc + "\n" + sig + '\n  throw (NpPrim.Exc.valueError "T11: not translated")\n')
    err = "; ".join(errors) if errors else None
    b = "import GeffModel.NpPrim\n" + HEADER
    b += "namespace Gen.ValidateGraph\nopen Geff Geff.Validate\n\n"
    b += f"def translationOk : Bool := {'true' if err is None else 'false'}\n"
    b += f"def translationError : String := {lean_str(err or '')}\n"
    b += "/-- the functions that were translated -/\n"
    b += "def translated : List String := [" + ", ".join(lean_str(n) for n in translated) + "]\n\n"
    b += "\n".join(defs)
    b += "\nend Gen.ValidateGraph\n"
    write_if_changed(out / "ValidateGraph.lean", b)
    return {"ok": err is None, **({"error": err} if err else {}), "translated": translated}
