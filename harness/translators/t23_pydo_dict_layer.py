"""T23: the dict layer of geff/core_io/_base_write.py -> lean/Gen/DictLayer.lean  (Python -> Lean `do`).

    _determine_default_value, dict_props_to_arr, write_dicts      (core_io/_base_write.py)

(`write_dicts` up to its trailing call of `write_arrays`, which stays a parameter of the generated
function, as does `remove_tilde`) are translated *statement by statement* from the AST of the working tree (parsed, never imported)
into Lean `do`-blocks in the monad `Except Geff.Dicts.Err`, over the value / column types of the
hand-written C03 model (`GeffModel/Dicts.lean`: `PyVal`, `Attrs`, `Col`) and the primitives of
`GeffModel/PyDoDicts.lean` (each defined from the model's own primitives, Python's exceptions
explicit).  Same family as T12/T13/T14/T19 (typed, closed expression table; `Unsupported` -> stub +
`translationOk := false`); the engine base class is T12's `Fn` (imported, not edited).  Subset:

* `x = e`, `x: T = e`, `l.append(e)`, `d[k] = {"missing": m, "values": v}` on a local dict,
  `for v in xs:` and `for _, v in pairs:` (the second component of each pair), `if / elif / else`,
  `return e` anywhere (Lean's `do` supports early return from a loop), `warnings.warn(…)` (dropped:
  a warning does not raise under the default filters), docstrings;
* `try: … except ValueError: …` -> `tryExceptValueError (do … ; pure (x, y, …)) (do … ; pure (x, y, …))`
  where `x, y, …` are the locals either block assigns; both blocks start from the state before the
  `try` (refused if the handler reads a local the body assigns, so a partially executed body is never
  observable); a local first assigned by the statement must be assigned at the top level of both
  blocks;
* `if c: x = a … else: x = b …` where `x` is first assigned by the statement -> the conditional as an
  expression `let r ← (if c then (do …; pure x) else (do …; pure x))` (no `return` inside); `raise
  ValueError(…)`; reassigned parameters (`node_data = list(node_data)`); the trailing
  `write_arrays(…)`: positional and keyword arguments are bound to the callee's parameter NAMES through
  its signature parsed from the same file and packed into `PyDoDicts.WriteArraysArgs` (a dropped,
  swapped or renamed argument changes the record; the omitted parameters must be
  `node_props_unsquish=None, edge_props_unsquish=None, overwrite=False`);
* for the id arrays: `[idx for idx, _ in data]`, `list(x)`, `len(x) > 0`, `np.asarray(ids)` of Python
  ints (`npAsarrayInts`: int64 / uint64 / float64 for a mix / object), `any(arr < 0)`,
  `_exact_int_array(ids, arr)`, `np.issubdtype(arr.dtype, np.integer)`, `arr.astype("uint")`,
  `np.empty((0,), dtype=np.uint64)`, `np.empty((0, 2), dtype=arr.dtype)`,
  `np.asarray(edge_ids, dtype=arr.dtype)`, `remove_tilde(store)`;
* expressions: names; the constants `None`, `""`, `0`, `True`, `False`, `[]`, `{}` (typed by the
  variable they go to); `k in d`; `d[k]` (`KeyError`); `x is None` / `x is not None`;
  `isinstance(x, A | B)` / `isinstance(x, A)` / `isinstance(x, (A, B))` for the builtin classes
  bool, int, float, str (`bool` is a subclass of `int`: `PyDoDicts.instOf`); `type(x)(0)`;
  `np.asarray(values)` (numpy's "inhomogeneous shape" ValueError and dtype inference:
  `PyDoDicts.npAsarray`); `_exact_int_array(values, arr)`; `construct_var_len_props(values)`;
  `r["values"]`, `r["missing"]`; `[m or bool(n) for m, n in zip(a, b, strict=True)]`;
  `np.asarray(mask, dtype=bool)`; `a if c else None`; a call of an earlier translated function.

Locals are typed by the table `FUNCS[…]["locals"]`; a local that is NOT in the table (a renamed or new
one) gets the type of the expression first assigned to it (`None` is the value `PyVal.none`; for `[]`
/ `{}` the element type is fixed by the first `.append(e)` / `d[k] = e`; a loop target by the
iterable), so renaming locals does not break the translation.

Anything else makes the translation of that function fail: the Gen file then carries a stub with the
same signature and `translationOk := false`, which `GeffProps.C03Gen.translated` requires to be
`true`.  A translation that succeeds but does not type-check, or that no longer equals the
hand-written model, breaks `lake build GeffProps.C03Gen`.

Consumer: C03 (`GeffProps/C03Gen.lean`)."""
from __future__ import annotations

import ast
from pathlib import Path

from harness.translate import HEADER, lean_str, write_if_changed
from harness.translators.t12_pydo_serialization import Fn, Unsupported, camel

NAME = "T23_pydo_dict_layer"
PROPS = ["C03"]
SRC = "packages/geff/src/geff/core_io/_base_write.py"

DATA = "List (ι × Attrs)"
COLS = "List (String × Col)"
OMASK = "Option (List Bool)"

FUNCS = {
    "_determine_default_value": {
        "lean": "determineDefaultValue", "tparams": "{ι : Type} ",
        "params": [("data", DATA), ("prop_name", "String")], "ret": "PyVal",
        "locals": {"data_dict": "Attrs", "value": "PyVal"},
    },
    "dict_props_to_arr": {
        "lean": "dictPropsToArr", "tparams": "{ι : Type} ",
        "params": [("data", DATA), ("prop_names", "List String")], "ret": COLS,
        "locals": {"props_dict": COLS, "name": "String", "values": "List PyVal", "missing": "List Bool",
                   "missing_any": "Bool", "default_val": "PyVal", "data_dict": "Attrs", "values_arr": "NArr",
                   "var_len_props": "VarLenProps", "missing_arr": OMASK},
    },
}
FUNCS["write_dicts"] = {
    "lean": "writeDicts", "tparams": "{σ μ φ ρ : Type} ",
    "extra": "(removeTilde : σ → σ) (writeArrays : WriteArraysArgs σ μ φ → Except Err ρ) ",
    "params": [("geff_store", "σ"), ("node_data", "List (Int × Attrs)"), ("edge_data", "List ((Int × Int) × Attrs)"),
               ("node_prop_names", "List String"), ("edge_prop_names", "List String"), ("metadata", "μ"),
               ("zarr_format", "φ"), ("structure_validation", "Bool")],
    "ret": "ρ", "reassigned": ["geff_store", "node_data", "edge_data"], "defaults_ok": True, "tail_call": "write_arrays",
    "locals": {"node_ids": "List Int", "edge_ids": "List (Int × Int)", "nodes_arr": "IdArr", "edges_arr": "EdgeArr",
               "node_props_dict": COLS, "edge_props_dict": COLS},
}
ORDER = ["_determine_default_value", "dict_props_to_arr", "write_dicts"]
# write_arrays(...) parameter -> field of PyDoDicts.WriteArraysArgs and its type; the other parameters must be
# omitted by the call and have the recorded defaults
WA_FIELDS = {"geff_store": ("geffStore", "σ"), "node_ids": ("nodeIds", "IdArr"), "node_props": ("nodeProps", COLS),
             "edge_ids": ("edgeIds", "EdgeArr"), "edge_props": ("edgeProps", COLS), "metadata": ("metadata", "μ"),
             "zarr_format": ("zarrFormat", "φ"), "structure_validation": ("structureValidation", "Bool")}
WA_DEFAULTS = {"node_props_unsquish": None, "edge_props_unsquish": None, "overwrite": False}
CLASSES = {"bool": "PyClass.bool", "int": "PyClass.int", "float": "PyClass.float", "str": "PyClass.str"}
# callees that are primitives of GeffModel/PyDoDicts.lean: python name -> (primitive, argument types, result type)
PRIM_CALLS = {
    "_exact_int_array": [("exactIntArray", ["List PyVal", "NArr"], "NArr"),
                         ("exactIntArrayIds", ["List Int", "IdArr"], "IdArr")],
    "construct_var_len_props": [("constructVarLenPropsModel", ["List PyVal"], "VarLenProps")],
}
IDS_OF = {"List (Int × Attrs)": "List Int", "List ((Int × Int) × Attrs)": "List (Int × Int)"}


def _is_mod(node, mod, attr):
    return (isinstance(node, ast.Attribute) and node.attr == attr and isinstance(node.value, ast.Name)
            and node.value.id == mod)


def _elt(t):
    x = t[5:]
    return x[1:-1] if x.startswith("(") and x.endswith(")") else x


def _proj(k, n):
    """projection `k` of a right-nested `n`-tuple"""
    if n == 1:
        return ""
    return ".2" * k + (".1" if k < n - 1 else "")


class DFn(Fn):
    def __init__(self, spec, done, fdefs=None):
        super().__init__(spec)
        self.fdefs = fdefs or {}
        self.resolved: dict[str, str] = {}
        self.reassigned = set(spec.get("reassigned", []))
        self.locals = dict(spec["locals"])
        self.locals.update(dict(spec["params"]))
        self.done = done                     # python names of the functions already translated
        self.params = {p for p, _ in spec["params"]}

    # ------------------------------------------------------------ expressions
    def bind(self, binds, action, ty):
        t = self.fresh()
        binds.append(f"let {t} : {ty} ← {action}")
        return t, ty

    def const(self, n, want):
        v = n.value
        if v is None:
            if want in (None, "PyVal"):
                # Python's `None` is a value of the model (`PyVal.none`); where an `Option` is meant the
                # expected type says so
                return "PyVal.none", "PyVal"
            if want and want.startswith("Option "):
                return "none", want
            raise Unsupported(f"None where {want} is expected")
        if isinstance(v, bool):
            if want in (None, "Bool"):
                return ("true" if v else "false"), "Bool"
            raise Unsupported(f"bool constant where {want} is expected")
        if isinstance(v, int):
            if want == "PyVal":
                return f"(PyVal.sc (.i {v}))" if v >= 0 else f"(PyVal.sc (.i ({v})))", "PyVal"
            if want in (None, "Nat") and v >= 0:
                return str(v), "Nat"
            raise Unsupported(f"int constant where {want} is expected")
        if isinstance(v, str):
            if want == "PyVal":
                return f"(PyVal.sc (.s {lean_str(v)}))", "PyVal"
            if want in (None, "String"):
                return lean_str(v), "String"
            raise Unsupported(f"str constant where {want} is expected")
        raise Unsupported(f"constant {v!r}")

    def expr(self, n, binds, want=None):
        if isinstance(n, ast.Constant):
            return self.const(n, want)
        if isinstance(n, ast.Name):
            if n.id not in self.env:
                raise Unsupported(f"unknown variable {n.id}")
            t = self.env[n.id]
            if "?" in t:
                if "?" in self.locals.get(n.id, "?"):
                    raise Unsupported(f"variable {n.id} is read before its element type is known")
                t = self.env[n.id] = self.locals[n.id]
            return camel(n.id), t
        if isinstance(n, (ast.List, ast.Dict)) and not (n.elts if isinstance(n, ast.List) else n.keys):
            if want is None or not want.startswith("List "):
                raise Unsupported("empty list / dict of unknown type")
            if isinstance(n, ast.Dict) != want.startswith("List (String × "):
                raise Unsupported(f"empty {type(n).__name__} where {want} is expected")
            return "[]", want
        if isinstance(n, ast.Dict):
            keys = [k.value if isinstance(k, ast.Constant) else None for k in n.keys]
            if sorted(map(str, keys)) != ["missing", "values"]:
                raise Unsupported(f"dict with keys {keys}")
            parts = {}
            for k, v in zip(keys, n.values):          # source order of evaluation
                parts[k] = self.expr(v, binds)
            if (parts["missing"][1], parts["values"][1]) != (OMASK, "NArr"):
                raise Unsupported(f"property dict of {parts['missing'][1]} / {parts['values'][1]}")
            return self.bind(binds, f"mkPropDict {parts['missing'][0]} {parts['values'][0]}", "Col")
        if isinstance(n, ast.UnaryOp) and isinstance(n.op, ast.Not):
            e, t = self.expr(n.operand, binds)
            if t != "Bool":
                raise Unsupported(f"not on {t}")
            return f"!({e})", "Bool"
        if isinstance(n, ast.BoolOp):
            parts = []
            for k, v in enumerate(n.values):
                sub: list[str] = []
                parts.append(self.expr(v, sub))
                if sub and k > 0:
                    raise Unsupported("raising operation in a later operand of and/or")
                binds.extend(sub)
            if any(t != "Bool" for _, t in parts):
                raise Unsupported("and/or on non-Booleans")
            op = " || " if isinstance(n.op, ast.Or) else " && "
            return "(" + op.join(p[0] for p in parts) + ")", "Bool"
        if isinstance(n, ast.Compare) and len(n.ops) == 1:
            op, l, r = n.ops[0], n.left, n.comparators[0]
            if isinstance(op, (ast.Is, ast.IsNot)) and isinstance(r, ast.Constant) and r.value is None:
                e, t = self.expr(l, binds)
                if t == "PyVal":
                    return (f"isNone {e}" if isinstance(op, ast.Is) else f"!(isNone {e})"), "Bool"
                if t.startswith("Option "):
                    return (f"{e}.isNone" if isinstance(op, ast.Is) else f"{e}.isSome"), "Bool"
                raise Unsupported(f"`is None` on {t}")
            if isinstance(op, (ast.In, ast.NotIn)):
                k, tk = self.expr(l, binds)
                d, td = self.expr(r, binds)
                if tk != "String" or not (td == "Attrs" or td.startswith("List (String × ")):
                    raise Unsupported(f"`in` on {tk}, {td}")
                e = f"dictContains {d} {k}"
                return (e if isinstance(op, ast.In) else f"!({e})"), "Bool"
            if (isinstance(op, ast.Gt) and isinstance(l, ast.Call) and isinstance(l.func, ast.Name) and l.func.id == "len"
                    and len(l.args) == 1 and not l.keywords and isinstance(r, ast.Constant) and r.value == 0
                    and type(r.value) is int):
                e, t = self.expr(l.args[0], binds)
                if not t.startswith("List "):
                    raise Unsupported(f"len of {t}")
                return f"decide ({e}.length > 0)", "Bool"
            raise Unsupported(f"comparison {ast.unparse(n)}")
        if isinstance(n, ast.Attribute) and n.attr == "dtype" and isinstance(n.value, ast.Name):
            e, t = self.expr(n.value, binds)
            if t not in ("IdArr", "EdgeArr"):
                raise Unsupported(f".dtype of {t}")
            return f"{e}.dtype", "Dtype"
        if isinstance(n, ast.IfExp):
            c, tc = self.expr(n.test, binds)
            sub: list[str] = []
            if want is None and isinstance(n.orelse, ast.Constant) and n.orelse.value is None:
                a, ta = self.expr(n.body, sub)
                b, tb = "none", (f"Option ({ta})" if " " in ta else f"Option {ta}")
            elif want is None and isinstance(n.body, ast.Constant) and n.body.value is None:
                b, tb = self.expr(n.orelse, sub)
                a, ta = "none", (f"Option ({tb})" if " " in tb else f"Option {tb}")
            else:
                a, ta = self.expr(n.body, sub, want)
                b, tb = self.expr(n.orelse, sub, want)
            if sub:
                raise Unsupported("raising operation inside a conditional expression")
            if tc != "Bool":
                raise Unsupported("condition of a conditional expression")
            if tb == f"Option {ta}" or tb == f"Option ({ta})":
                a, ta = f"some ({a})", tb
            elif ta == f"Option {tb}" or ta == f"Option ({tb})":
                b, tb = f"some ({b})", ta
            if ta != tb:
                raise Unsupported(f"conditional expression of types {ta} / {tb}")
            return f"(if {c} then {a} else {b})", ta
        if isinstance(n, ast.Subscript):
            e, t = self.expr(n.value, binds)
            if t == "VarLenProps" and isinstance(n.slice, ast.Constant) and n.slice.value in ("values", "missing"):
                return f"{e}.{n.slice.value}", {"values": "NArr", "missing": OMASK}[n.slice.value]
            if isinstance(n.slice, ast.Slice):
                raise Unsupported(f"slice {ast.unparse(n)}")
            i, ti = self.expr(n.slice, binds)
            if t == "Attrs" and ti == "String":
                return self.bind(binds, f"dictGetItem {e} {i}", "PyVal")
            raise Unsupported(f"subscript {ast.unparse(n)} ({t}[{ti}])")
        if isinstance(n, ast.ListComp):
            return self.listcomp(n, binds)
        if isinstance(n, ast.Call):
            return self.call(n, binds)
        raise Unsupported(f"expression {ast.unparse(n)}")

    def listcomp(self, n, binds):
        """[m or bool(n) for m, n in zip(a, b, strict=True)]"""
        src = ast.unparse(n)
        if len(n.generators) != 1:
            raise Unsupported(src)
        g = n.generators[0]
        it = g.iter
        # [idx for idx, _ in data]
        if (not g.ifs and not g.is_async and isinstance(g.target, ast.Tuple) and len(g.target.elts) == 2
                and all(isinstance(x, ast.Name) for x in g.target.elts) and g.target.elts[1].id == "_"
                and isinstance(n.elt, ast.Name) and n.elt.id == g.target.elts[0].id and n.elt.id != "_"):
            e, t = self.expr(it, binds)
            if t not in IDS_OF:
                raise Unsupported(f"{src}: iteration over {t}")
            return f"idsOf {e}", IDS_OF[t]
        if (g.ifs or g.is_async or not isinstance(g.target, ast.Tuple) or len(g.target.elts) != 2
                or not all(isinstance(x, ast.Name) for x in g.target.elts)
                or not (isinstance(it, ast.Call) and isinstance(it.func, ast.Name) and it.func.id == "zip"
                        and len(it.args) == 2 and len(it.keywords) == 1 and it.keywords[0].arg == "strict"
                        and isinstance(it.keywords[0].value, ast.Constant) and it.keywords[0].value.value is True)):
            raise Unsupported(src)
        m, k = (x.id for x in g.target.elts)
        e = n.elt
        if not (isinstance(e, ast.BoolOp) and isinstance(e.op, ast.Or) and len(e.values) == 2
                and isinstance(e.values[0], ast.Name) and e.values[0].id == m
                and isinstance(e.values[1], ast.Call) and isinstance(e.values[1].func, ast.Name)
                and e.values[1].func.id == "bool" and len(e.values[1].args) == 1 and not e.values[1].keywords
                and isinstance(e.values[1].args[0], ast.Name) and e.values[1].args[0].id == k and m != k):
            raise Unsupported(src)
        a, ta = self.expr(it.args[0], binds)
        b, tb = self.expr(it.args[1], binds)
        if (ta, tb) != ("List Bool", OMASK):
            raise Unsupported(f"{src}: zip of {ta}, {tb}")
        return self.bind(binds, f"zipStrictOr {a} {b}", "List Bool")

    def classes(self, x):
        if isinstance(x, ast.BinOp) and isinstance(x.op, ast.BitOr):
            return self.classes(x.left) + self.classes(x.right)
        if isinstance(x, ast.Tuple):
            return [c for e in x.elts for c in self.classes(e)]
        if isinstance(x, ast.Name) and x.id in CLASSES:
            return [CLASSES[x.id]]
        raise Unsupported(f"isinstance class {ast.unparse(x)}")

    def call(self, n, binds):
        f = n.func
        src = ast.unparse(n)
        if isinstance(f, ast.Name) and f.id == "isinstance" and len(n.args) == 2 and not n.keywords:
            e, t = self.expr(n.args[0], binds)
            if t != "PyVal":
                raise Unsupported(f"isinstance on {t}")
            return f"pyIsInstance {e} [{', '.join(self.classes(n.args[1]))}]", "Bool"
        # type(x)(0)
        if (isinstance(f, ast.Call) and isinstance(f.func, ast.Name) and f.func.id == "type" and len(f.args) == 1
                and not f.keywords and len(n.args) == 1 and not n.keywords
                and isinstance(n.args[0], ast.Constant) and n.args[0].value == 0
                and not isinstance(n.args[0].value, bool) and isinstance(n.args[0].value, int)):
            e, t = self.expr(f.args[0], binds)
            if t != "PyVal":
                raise Unsupported(f"type(…) of {t}")
            return self.bind(binds, f"typeCallZero {e}", "PyVal")
        if isinstance(f, ast.Name) and f.id == "remove_tilde" and len(n.args) == 1 and not n.keywords:
            e, t = self.expr(n.args[0], binds)
            if t != "σ":
                raise Unsupported(f"remove_tilde of {t}")
            return f"removeTilde {e}", "σ"
        if isinstance(f, ast.Name) and f.id == "list" and len(n.args) == 1 and not n.keywords:
            e, t = self.expr(n.args[0], binds)
            if not t.startswith("List "):
                raise Unsupported(f"list(…) of {t}")
            return f"pyList {e}", t
        # any(arr < 0)
        if (isinstance(f, ast.Name) and f.id == "any" and len(n.args) == 1 and not n.keywords
                and isinstance(n.args[0], ast.Compare) and len(n.args[0].ops) == 1 and isinstance(n.args[0].ops[0], ast.Lt)
                and isinstance(n.args[0].comparators[0], ast.Constant) and n.args[0].comparators[0].value == 0
                and type(n.args[0].comparators[0].value) is int):
            e, t = self.expr(n.args[0].left, binds)
            if t != "IdArr":
                raise Unsupported(f"{src} ({t})")
            return f"anyLtZero {e}", "Bool"
        if _is_mod(f, "np", "issubdtype") and len(n.args) == 2 and not n.keywords and _is_mod(n.args[1], "np", "integer"):
            e, t = self.expr(n.args[0], binds)
            if t != "Dtype":
                raise Unsupported(f"{src} ({t})")
            return f"isIntegerDtype {e}", "Bool"
        if (isinstance(f, ast.Attribute) and f.attr == "astype" and len(n.args) == 1 and not n.keywords
                and isinstance(n.args[0], ast.Constant) and n.args[0].value == "uint"):
            e, t = self.expr(f.value, binds)
            if t != "IdArr":
                raise Unsupported(f"{src} ({t})")
            return self.bind(binds, f"astypeUint {e}", "IdArr")
        if (_is_mod(f, "np", "empty") and len(n.args) == 1 and isinstance(n.args[0], ast.Tuple)
                and len(n.keywords) == 1 and n.keywords[0].arg == "dtype"):
            dims = [x.value if isinstance(x, ast.Constant) and type(x.value) is int else None for x in n.args[0].elts]
            if dims == [0] and _is_mod(n.keywords[0].value, "np", "uint64"):
                return "emptyIds", "IdArr"
            if dims == [0, 2]:
                d, td = self.expr(n.keywords[0].value, binds)
                if td == "Dtype":
                    return f"emptyPairs {d}", "EdgeArr"
            raise Unsupported(src)
        if _is_mod(f, "np", "asarray") and len(n.args) == 1:
            e, t = self.expr(n.args[0], binds)
            if not n.keywords and t == "List PyVal":
                return self.bind(binds, f"npAsarray {e}", "NArr")
            if not n.keywords and t == "List Int":
                return f"npAsarrayInts {e}", "IdArr"
            if (len(n.keywords) == 1 and n.keywords[0].arg == "dtype" and t == "List (Int × Int)"
                    and not (isinstance(n.keywords[0].value, ast.Name) and n.keywords[0].value.id == "bool")):
                d, td = self.expr(n.keywords[0].value, binds)
                if td == "Dtype":
                    return self.bind(binds, f"asarrayPairs {e} {d}", "EdgeArr")
            if (len(n.keywords) == 1 and n.keywords[0].arg == "dtype" and isinstance(n.keywords[0].value, ast.Name)
                    and n.keywords[0].value.id == "bool" and t == "List Bool"):
                return f"asarrayBool {e}", "List Bool"
            raise Unsupported(f"{src} ({t})")
        if isinstance(f, ast.Name) and f.id in PRIM_CALLS and not n.keywords:
            args = [self.expr(a, binds) for a in n.args]
            for prim, ptys, rty in PRIM_CALLS[f.id]:
                if [t for _, t in args] == ptys:
                    return self.bind(binds, f"{prim} " + " ".join(a for a, _ in args), rty)
            raise Unsupported(f"call {src}: argument types {[t for _, t in args]}")
        if isinstance(f, ast.Name) and f.id in FUNCS and not n.keywords:
            if f.id not in self.done:
                raise Unsupported(f"call of {f.id}, which is not translated (yet)")
            spec = FUNCS[f.id]
            args = [self.expr(a, binds) for a in n.args]
            got = [t for _, t in args]
            if not any(got == [t.replace("ι", i) for _, t in spec["params"]] for i in ("ι", "Int", "(Int × Int)")):
                raise Unsupported(f"call {src}: argument types {got}")
            return self.bind(binds, f"{spec['lean']} " + " ".join(a for a, _ in args), spec["ret"])
        raise Unsupported(f"call {src}")

    # ------------------------------------------------------------ statements
    def assign(self, name, value, out, ind):
        want = self.locals.get(name)
        if name in self.params and name not in self.reassigned:
            raise Unsupported(f"parameter {name} is reassigned")
        binds: list[str] = []
        if want is None:
            # a local that is not in the typing table (e.g. a renamed one): its type is the type of the
            # expression first assigned to it; for `[]` / `{}` the element type is fixed by the first
            # `.append(e)` / `d[k] = e` (the declaration carries a token that is replaced at the end)
            if isinstance(value, (ast.List, ast.Dict)) and not (value.elts if isinstance(value, ast.List) else value.keys):
                if name in self.env:
                    raise Unsupported(f"variable {name} is re-initialised before its element type is known")
                kind = "List ?" if isinstance(value, ast.List) else "Dict ?"
                self.env[name] = self.locals[name] = kind
                out.append(ind + f"let mut {camel(name)} : {self.token(name)} := []")
                return
            e, t = self.expr(value, binds)
            if "?" in t or not t:
                raise Unsupported(f"variable {name} is not in the typing table and its type cannot be inferred")
            want = self.locals[name] = t
        elif "?" in want:
            raise Unsupported(f"variable {name} is assigned before its element type is known")
        else:
            e, t = self.expr(value, binds, want=want)
        if want == f"Option {t}" or want == f"Option ({t})":
            e, t = f"some {e}", want
        if t != want:
            raise Unsupported(f"variable {name}: expected {want}, got {t}")
        out.extend(ind + b for b in binds)
        first = name not in self.env
        self.env[name] = want
        out.append(ind + (f"let mut {camel(name)} : {want} := {e}" if first else f"{camel(name)} := {e}"))

    def token(self, name):
        return f"«TYPE-OF-{name}»"

    def resolve(self, name, ty):
        self.env[name] = self.locals[name] = ty
        self.resolved[self.token(name)] = ty

    @staticmethod
    def assigned_names(stmts):
        out = []
        for s in stmts:
            for n in ast.walk(s):
                tg = []
                if isinstance(n, ast.Assign):
                    tg = n.targets
                elif isinstance(n, (ast.AnnAssign, ast.AugAssign)):
                    tg = [n.target]
                elif (isinstance(n, ast.Call) and isinstance(n.func, ast.Attribute) and n.func.attr == "append"
                      and isinstance(n.func.value, ast.Name)):
                    tg = [n.func.value]
                elif isinstance(n, (ast.For, ast.comprehension)):
                    tg = [x for x in ast.walk(n.target) if isinstance(x, ast.Name)]
                for t in tg:
                    if isinstance(t, ast.Subscript) and isinstance(t.value, ast.Name):
                        t = t.value
                    if isinstance(t, ast.Name) and t.id not in out:
                        out.append(t.id)
        return out

    @staticmethod
    def top_assigned(stmts):
        return {t.id for s in stmts if isinstance(s, ast.Assign) for t in s.targets if isinstance(t, ast.Name)}

    def scoped(self, stmts, out, ind):
        before = dict(self.env)
        n0 = len(out)
        for s in stmts:
            self.stmt(s, out, ind)
        if len(out) == n0:
            out.append(ind + "pure ()")
        self.env = {k: v for k, v in self.env.items() if k in before}

    def try_(self, s: ast.Try, out, ind):
        if s.orelse or s.finalbody or len(s.handlers) != 1:
            raise Unsupported("try with else / finally / several handlers")
        h = s.handlers[0]
        if h.name is not None or not (isinstance(h.type, ast.Name) and h.type.id == "ValueError"):
            raise Unsupported(f"except {ast.unparse(h.type) if h.type else ''}{' as …' if h.name else ''}")
        a_body, a_hand = self.assigned_names(s.body), self.assigned_names(h.body)
        exported = a_body + [v for v in a_hand if v not in a_body]
        read_h = {x.id for st in h.body for x in ast.walk(st) if isinstance(x, ast.Name) and isinstance(x.ctx, ast.Load)}
        clash = [v for v in a_body if v in read_h]
        if clash:
            raise Unsupported(f"the handler reads {clash}, which the try body assigns")
        # locals that are only temporaries of one block (not live before, not assigned by both) stay inside it
        live = []
        for v in exported:
            if v in self.env:
                live.append(v)
            elif v in self.top_assigned(s.body) and v in self.top_assigned(h.body):
                live.append(v)
        for v in live:
            if v in self.params:
                raise Unsupported(f"try assigns {v}")
        env0 = dict(self.env)
        tup = "(" + ", ".join(camel(v) for v in live) + ")" if len(live) != 1 else camel(live[0])
        if not live:
            tup = "()"

        r = "r" + self.fresh()[1:]
        body_lines = self.closed(s.body, live, env0, ind + "    ")
        hand_lines = self.closed(h.body, live, env0, ind + "    ")
        self.env = dict(env0)
        out.append(ind + f"let {r} ← tryExceptValueError")
        out.append(ind + "  (do")
        out.extend(body_lines)
        out[-1] += ")"
        out.append(ind + "  (do")
        out.extend(hand_lines)
        out[-1] += ")"
        self.unpack(r, live, env0, out, ind)

    def closed(self, stmts, live, env0, i2):
        """a block as its own `do` term that returns the locals `live`"""
        self.env = dict(env0)
        for v in live:
            if v in env0 and "?" in env0[v]:
                if "?" in self.locals.get(v, "?"):
                    raise Unsupported(f"{v} is assigned in a nested block before its element type is known")
                env0[v] = self.locals[v]
        self.env = dict(env0)
        lines = [i2 + f"let mut {camel(v)} : {env0[v]} := {camel(v)}" for v in live if v in env0]
        for st in stmts:
            self.stmt(st, lines, i2)
        missing = [v for v in live if v not in self.env]
        if missing:
            raise Unsupported(f"{missing} not assigned on every path")
        tup = "(" + ", ".join(camel(v) for v in live) + ")" if len(live) != 1 else camel(live[0])
        lines.append(i2 + f"pure {tup if live else '()'}")
        return lines

    def unpack(self, r, live, env0, out, ind):
        for k, v in enumerate(live):
            p = f"{r}{_proj(k, len(live))}"
            if v in env0:
                out.append(ind + f"{camel(v)} := {p}")
            else:
                if "?" in self.locals.get(v, "?"):
                    raise Unsupported(f"type of {v} is not known after the statement")
                self.env[v] = self.locals[v]
                out.append(ind + f"let mut {camel(v)} : {self.locals[v]} := {p}")

    def tail_call(self, s, out, ind):
        """the trailing `write_arrays(…)`: arguments bound to the callee's parameter names (its signature is
        read from the same file), packed into `WriteArraysArgs`; the call's outcome is the function's"""
        c = s.value
        fd = self.fdefs.get(c.func.id)
        if fd is None or fd.args.vararg or fd.args.kwarg or fd.args.kwonlyargs or fd.args.posonlyargs:
            raise Unsupported(f"signature of {c.func.id}")
        pos = [a.arg for a in fd.args.args]
        dflt = dict(zip(pos[len(pos) - len(fd.args.defaults):], fd.args.defaults))
        if set(pos) != set(WA_FIELDS) | set(WA_DEFAULTS):
            raise Unsupported(f"parameters of {c.func.id}: {pos}")
        for p, v in WA_DEFAULTS.items():
            d = dflt.get(p)
            if not (isinstance(d, ast.Constant) and d.value is v):
                raise Unsupported(f"default of {c.func.id}({p})")
        given = {}
        if len(c.args) > len(pos):
            raise Unsupported("too many arguments")
        for p, a in zip(pos, c.args):
            given[p] = a
        for k in c.keywords:
            if k.arg is None or k.arg in given or k.arg not in pos:
                raise Unsupported(f"keyword {k.arg}")
            given[k.arg] = k.value
        if set(given) != set(WA_FIELDS):
            raise Unsupported(f"arguments of {c.func.id}: {sorted(given)}")
        binds: list[str] = []
        fields = []
        for p in given:                                  # source order of evaluation
            e, t = self.expr(given[p], binds)
            f, ft = WA_FIELDS[p]
            if t != ft:
                raise Unsupported(f"argument {p} of type {t}")
            fields.append(f"{f} := {e}")
        out.extend(ind + b for b in binds)
        r = "r" + self.fresh()[1:]
        out.append(ind + f"let {r} ← writeArrays {{ " + ", ".join(fields) + " }")
        out.append(ind + f"return {r}")

    def stmt(self, s, out, ind):
        if isinstance(s, ast.Expr) and isinstance(s.value, ast.Constant) and isinstance(s.value.value, str):
            return
        if isinstance(s, ast.AnnAssign) and isinstance(s.target, ast.Name) and s.value is not None:
            return self.assign(s.target.id, s.value, out, ind)
        if isinstance(s, ast.Assign) and len(s.targets) == 1:
            t = s.targets[0]
            if isinstance(t, ast.Name):
                return self.assign(t.id, s.value, out, ind)
            if isinstance(t, ast.Subscript) and isinstance(t.value, ast.Name) and not isinstance(t.slice, ast.Slice):
                d = t.value.id
                td = self.env.get(d, "")
                if "?" in td and "?" not in self.locals.get(d, "?"):
                    td = self.env[d] = self.locals[d]
                binds: list[str] = []
                k, tk = self.expr(t.slice, binds)
                e, te = self.expr(s.value, binds)
                if td == "Dict ?" and tk == "String" and "?" not in te:
                    td = f"List (String × {te})"
                    self.resolve(d, td)
                if d in self.params or not td.startswith("List (String × "):
                    raise Unsupported(f"item assignment {ast.unparse(t)}")
                if tk != "String" or te != td[len("List (String × "):-1]:
                    raise Unsupported(f"item assignment {ast.unparse(t)}: {tk} -> {te}")
                out.extend(ind + b for b in binds)
                out.append(ind + f"{camel(d)} := dictSetItem {camel(d)} {k} {e}")
                return
        if isinstance(s, ast.Expr) and isinstance(s.value, ast.Call):
            c = s.value
            if _is_mod(c.func, "warnings", "warn"):
                return
            if isinstance(c.func, ast.Name) and c.func.id == self.spec.get("tail_call") and getattr(self, "is_last", None) is s:
                return self.tail_call(s, out, ind)
            if (isinstance(c.func, ast.Attribute) and c.func.attr == "append" and isinstance(c.func.value, ast.Name)
                    and len(c.args) == 1 and not c.keywords):
                name = c.func.value.id
                ty = self.env.get(name, "")
                if "?" in ty and "?" not in self.locals.get(name, "?"):
                    ty = self.env[name] = self.locals[name]
                binds = []
                if ty == "List ?":
                    e, t = self.expr(c.args[0], binds)
                    if "?" in t:
                        raise Unsupported(f"append of an expression of unknown type to {name}")
                    ty = f"List ({t})" if " " in t else f"List {t}"
                    self.resolve(name, ty)
                    out.extend(ind + b for b in binds)
                    out.append(ind + f"{camel(name)} := {camel(name)} ++ [{e}]")
                    return
                if not ty.startswith("List ") or name in self.params:
                    raise Unsupported(f"append on {name} : {ty}")
                e, t = self.expr(c.args[0], binds, want=_elt(ty))
                if _elt(ty) != t:
                    raise Unsupported(f"append of {t} to {ty}")
                out.extend(ind + b for b in binds)
                out.append(ind + f"{camel(name)} := {camel(name)} ++ [{e}]")
                return
        if isinstance(s, ast.Return):
            if s.value is None:
                raise Unsupported("bare return")
            binds = []
            e, t = self.expr(s.value, binds, want=self.spec["ret"])
            if t != self.spec["ret"]:
                raise Unsupported(f"return type {t}, expected {self.spec['ret']}")
            out.extend(ind + b for b in binds)
            out.append(ind + f"return {e}")
            return
        if isinstance(s, ast.Raise):
            exc = s.exc.func.id if isinstance(s.exc, ast.Call) and isinstance(s.exc.func, ast.Name) else None
            if exc != "ValueError":
                raise Unsupported(f"raise {ast.unparse(s.exc) if s.exc else ''}")
            out.append(ind + "raiseValueError")
            return
        if isinstance(s, ast.If):
            binds = []
            c, tc = self.expr(s.test, binds)
            if tc != "Bool":
                raise Unsupported(f"condition of type {tc}")
            out.extend(ind + b for b in binds)
            new = [v for v in self.assigned_names(s.body + s.orelse) if v not in self.env
                   and v in self.top_assigned(s.body) and v in self.top_assigned(s.orelse)]
            if new:
                # `if c: x = a … else: x = b …` with `x` first assigned here: the conditional as an expression
                if any(isinstance(x, (ast.Return, ast.Continue, ast.Break)) for st in s.body + s.orelse for x in ast.walk(st)):
                    raise Unsupported("return / continue inside a conditional that first assigns a variable")
                live = [v for v in self.assigned_names(s.body + s.orelse) if v in self.env or v in new]
                for v in live:
                    if v in self.params and v not in self.reassigned:
                        raise Unsupported(f"conditional assigns {v}")
                env0 = dict(self.env)
                r = "r" + self.fresh()[1:]
                a = self.closed(s.body, live, env0, ind + "    ")
                b = self.closed(s.orelse, live, env0, ind + "    ")
                self.env = dict(env0)
                out.append(ind + f"let {r} ← (if {c} then")
                out.append(ind + "  (do")
                out.extend(a)
                out[-1] += ")"
                out.append(ind + "  else (do")
                out.extend(b)
                out[-1] += "))"
                self.unpack(r, live, env0, out, ind)
                return
            out.append(ind + f"if {c} then")
            self.scoped(s.body, out, ind + "  ")
            if s.orelse:
                out.append(ind + "else")
                self.scoped(s.orelse, out, ind + "  ")
            return
        if isinstance(s, ast.Try):
            return self.try_(s, out, ind)
        if isinstance(s, ast.For) and not s.orelse:
            binds = []
            e, t = self.expr(s.iter, binds)
            if not t.startswith("List "):
                raise Unsupported(f"iteration over {t}")
            elt = _elt(t)
            out.extend(ind + b for b in binds)
            tgt = s.target
            before = dict(self.env)
            if isinstance(tgt, ast.Name):
                name = tgt.id
                if self.locals.setdefault(name, elt) != elt or name in self.env:
                    raise Unsupported(f"loop variable {name}: {elt}")
                self.env[name] = elt
                out.append(ind + f"for {camel(name)} in {e} do")
            elif (isinstance(tgt, ast.Tuple) and len(tgt.elts) == 2 and all(isinstance(x, ast.Name) for x in tgt.elts)
                  and tgt.elts[0].id == "_" and elt == "ι × Attrs"):
                name = tgt.elts[1].id
                if self.locals.setdefault(name, "Attrs") != "Attrs" or name in self.env:
                    raise Unsupported(f"loop variable {name}")
                it = "it" + self.fresh()[1:]
                self.env[name] = "Attrs"
                out.append(ind + f"for {it} in {e} do")
                out.append(ind + f"  let {camel(name)} : Attrs := {it}.2")
            else:
                raise Unsupported(f"loop target {ast.unparse(tgt)} over {t}")
            if name in self.assigned_names(s.body):
                raise Unsupported(f"loop variable {name} is reassigned")
            n0 = len(out)
            for st in s.body:
                self.stmt(st, out, ind + "  ")
            if len(out) == n0:
                out.append(ind + "  pure ()")
            # Lean scoping: what the body declares is not visible after the loop
            self.env = {k: v for k, v in self.env.items() if k in before}
            return
        raise Unsupported(f"statement {type(s).__name__}: {ast.unparse(s)[:60]}")


def translate_function(fn: ast.FunctionDef, spec, done, fdefs) -> str:
    tr = DFn(spec, done, fdefs)
    if [a.arg for a in fn.args.args] != [p for p, _ in spec["params"]] or fn.args.vararg or fn.args.kwarg \
            or fn.args.kwonlyargs or fn.args.posonlyargs or (fn.args.defaults and not spec.get("defaults_ok")) \
            or fn.decorator_list:
        raise Unsupported(f"signature of {fn.name} changed: {[a.arg for a in fn.args.args]}")
    body: list[str] = []
    assigned = DFn.assigned_names(fn.body)
    for p, t in spec["params"]:
        if p in assigned:
            if p not in spec.get("reassigned", []):
                raise Unsupported(f"parameter {p} is reassigned")
            body.append(f"  let mut {camel(p)} : {t} := {camel(p)}")
    tr.is_last = fn.body[-1]
    for s in fn.body:
        tr.stmt(s, body, "  ")
    last = fn.body[-1]
    if not (isinstance(last, ast.Return) or (spec.get("tail_call") and isinstance(last, ast.Expr)
            and isinstance(last.value, ast.Call) and isinstance(last.value.func, ast.Name)
            and last.value.func.id == spec["tail_call"])):
        raise Unsupported("the function does not end with a return")
    params = spec.get("extra", "") + " ".join(f"({camel(p)} : {t})" for p, t in spec["params"])
    head = f"def {spec['lean']} {spec['tparams']}{params} : Except Err ({spec['ret']}) := do"
    text = "\n".join([head, *body])
    for tok, ty in tr.resolved.items():
        text = text.replace(tok, ty)
    if "«TYPE-OF-" in text:
        raise Unsupported("a local initialised with [] / {} whose element type is never fixed")
    return text


def stub(spec) -> str:
    params = spec.get("extra", "").replace("(removeTilde", "(_removeTilde").replace("(writeArrays", "(_writeArrays") \
        + " ".join(f"(_{camel(p)} : {t})" for p, t in spec["params"])
    return (f"def {spec['lean']} {spec['tparams']}{params} : Except Err ({spec['ret']}) := "
            ".error (.unmodelled \"untranslated\")")


def run(repo: Path, out: Path):
    errors = {}
    defs = []
    try:
        tree = ast.parse((repo / SRC).read_text())
        fns = {n.name: n for n in tree.body if isinstance(n, ast.FunctionDef)}
    except Exception as e:  # noqa: BLE001
        fns = {}
        errors["parse"] = f"{type(e).__name__}: {e}"
    done: set[str] = set()
    for name in ORDER:
        spec = FUNCS[name]
        try:
            if name not in fns:
                raise Unsupported(f"function {name} not found")
            text = translate_function(fns[name], spec, done, fns)
            defs.append(f"/-- `{name}` ({SRC}:{fns[name].lineno}) -/\n" + text)
            done.add(name)
        except Unsupported as e:
            errors[name] = str(e)
            defs.append(f"/-- `{name}`: NOT TRANSLATED ({e}) -/\n" + stub(spec))
    ok = not errors
    body = "import GeffModel.PyDoDicts\n" + HEADER
    body += "/-! The dict layer of `geff/core_io/_base_write.py`, statement by statement (translator T23). -/\n"
    body += "namespace Gen.DictLayer\nopen Geff.Np Geff.Dicts Geff.PyDoDicts\n\n"
    body += f"def translationOk : Bool := {'true' if ok else 'false'}\n\n"
    body += "\n\n".join(defs) + "\n\nend Gen.DictLayer\n"
    write_if_changed(out / "DictLayer.lean", body)
    return {"ok": ok, **({"error": "; ".join(f"{k}: {v}" for k, v in errors.items())} if errors else {})}
