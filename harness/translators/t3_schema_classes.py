"""T3: the pydantic class bodies of geff_spec/_schema.py, _axis.py, _prop_metadata.py ->
lean/Gen/Schema.lean.

Extracted with `ast` (nothing is imported): `VERSION_PATTERN`; for each of `GeffMetadata`,
`Axis`, `PropMetadata`, `RelatedObject`, `DisplayHint` the declared fields in order with their
annotation text, whether they are required and the text of their default; the
`validate_assignment` flag of every class; whether `geff_version` carries
`pattern=VERSION_PATTERN`; which validators (decorated methods) each class declares; and whether
`GeffMetadata` defines `__setattr__` (the assignment roll-back).  The hand-written Lean
structures (`GeffModel/Meta.lean`) are tied to these tables by `decide`-checked obligations in
`GeffProps/C07.lean` / `C08.lean`."""
from __future__ import annotations

import ast
from pathlib import Path

from harness.translate import HEADER, lean_str, write_if_changed

NAME = "T3_schema_classes"
PROPS = ["C07", "C08"]

FILES = {
    "GeffMetadata": "_schema.py", "RelatedObject": "_schema.py", "DisplayHint": "_schema.py",
    "Axis": "_axis.py", "PropMetadata": "_prop_metadata.py",
}
LEAN_NAMES = {"GeffMetadata": "geffMetadata", "RelatedObject": "relatedObject", "DisplayHint": "displayHint",
              "Axis": "axis", "PropMetadata": "propMetadata"}


def _field_info(stmt: ast.AnnAssign) -> dict:
    name = stmt.target.id
    ann = ast.unparse(stmt.annotation)
    required, default, pattern = True, "", ""
    v = stmt.value
    if v is None:
        required = True
    elif isinstance(v, ast.Call) and isinstance(v.func, ast.Name) and v.func.id == "Field":
        d = None
        if v.args:
            d = v.args[0]
        for kw in v.keywords:
            if kw.arg == "default":
                d = kw.value
            elif kw.arg == "default_factory":
                d = ast.Call(func=kw.value, args=[], keywords=[])
            elif kw.arg == "pattern":
                pattern = ast.unparse(kw.value)
            elif kw.arg in ("description", "title"):
                pass
            else:
                raise ValueError(f"field {name}: unsupported Field argument {kw.arg}")
        if d is None or (isinstance(d, ast.Constant) and d.value is Ellipsis):
            required = True
        else:
            required, default = False, ast.unparse(d)
    else:
        required, default = False, ast.unparse(v)
    return {"name": name, "ann": ann, "required": required, "default": default, "pattern": pattern}


def _class_info(cls: ast.ClassDef) -> dict:
    fields, validators, va, has_setattr, config_keys = [], [], False, False, []
    for stmt in cls.body:
        if isinstance(stmt, ast.AnnAssign) and isinstance(stmt.target, ast.Name):
            fields.append(_field_info(stmt))
        elif isinstance(stmt, ast.Assign) and len(stmt.targets) == 1 and isinstance(stmt.targets[0], ast.Name) \
                and stmt.targets[0].id == "model_config":
            c = stmt.value
            if not (isinstance(c, ast.Call) and isinstance(c.func, ast.Name) and c.func.id == "ConfigDict"):
                raise ValueError(f"{cls.name}.model_config is not ConfigDict(...)")
            for kw in c.keywords:
                config_keys.append(f"{kw.arg}={ast.unparse(kw.value)}")
                if kw.arg == "validate_assignment":
                    va = isinstance(kw.value, ast.Constant) and kw.value.value is True
        elif isinstance(stmt, ast.FunctionDef):
            if stmt.name == "__setattr__":
                has_setattr = True
            for dec in stmt.decorator_list:
                txt = ast.unparse(dec)
                if txt.startswith(("model_validator", "field_validator")):
                    validators.append(f"{stmt.name}@{txt}")
    return {"fields": fields, "validators": validators, "validate_assignment": va,
            "has_setattr": has_setattr, "config": sorted(config_keys)}


def extract(repo: Path) -> dict:
    base = repo / "packages/geff-spec/src/geff_spec"
    trees = {f: ast.parse((base / f).read_text()) for f in set(FILES.values())}
    out: dict = {"classes": {}}
    vp = None
    for node in trees["_schema.py"].body:
        if isinstance(node, ast.Assign) and len(node.targets) == 1 and isinstance(node.targets[0], ast.Name) \
                and node.targets[0].id == "VERSION_PATTERN":
            if not (isinstance(node.value, ast.Constant) and isinstance(node.value.value, str)):
                raise ValueError("VERSION_PATTERN is not a string literal")
            vp = node.value.value
    if vp is None:
        raise ValueError("VERSION_PATTERN not found")
    out["VERSION_PATTERN"] = vp
    for cname, fname in FILES.items():
        cls = next((n for n in trees[fname].body if isinstance(n, ast.ClassDef) and n.name == cname), None)
        if cls is None:
            raise ValueError(f"class {cname} not found in {fname}")
        if [ast.unparse(b) for b in cls.bases] != ["BaseModel"]:
            raise ValueError(f"class {cname} does not derive from BaseModel only")
        out["classes"][cname] = _class_info(cls)
    return out


def _lean_fields(fields: list[dict]) -> str:
    rows = []
    for f in fields:
        rows.append("  ⟨" + ", ".join([lean_str(f["name"]), lean_str(f["ann"]),
                                       "true" if f["required"] else "false", lean_str(f["default"]),
                                       lean_str(f["pattern"])]) + "⟩")
    return "[\n" + ",\n".join(rows) + "]" if rows else "[]"


def run(repo: Path, out: Path) -> dict:
    err = None
    info: dict = {"classes": {}}
    try:
        info = extract(repo)
    except Exception as e:  # noqa: BLE001
        err = f"{type(e).__name__}: {e}"
    body = HEADER + "namespace Gen.Schema\n"
    body += f"def translationOk : Bool := {'true' if err is None else 'false'}\n"
    body += "/-- name, annotation text, required?, default text (\"\" when required), pattern text -/\n"
    body += "structure FieldInfo where\n  name : String\n  ann : String\n  required : Bool\n  default : String\n  pattern : String\nderiving DecidableEq, Repr\n"
    body += f"def VERSION_PATTERN : String := {lean_str(info.get('VERSION_PATTERN', ''))}\n"
    for cname, lname in LEAN_NAMES.items():
        ci = info["classes"].get(cname, {"fields": [], "validators": [], "validate_assignment": False,
                                         "has_setattr": False, "config": []})
        body += f"def {lname}Fields : List FieldInfo := {_lean_fields(ci['fields'])}\n"
        body += f"def {lname}Validators : List String := [" + ", ".join(lean_str(v) for v in ci["validators"]) + "]\n"
        body += f"def {lname}ValidateAssignment : Bool := {'true' if ci['validate_assignment'] else 'false'}\n"
        body += f"def {lname}Config : List String := [" + ", ".join(lean_str(v) for v in ci["config"]) + "]\n"
        body += f"def {lname}HasSetattr : Bool := {'true' if ci['has_setattr'] else 'false'}\n"
    body += "end Gen.Schema\n"
    write_if_changed(out / "Schema.lean", body)
    return {"ok": err is None, **({"error": err} if err else {}),
            "fields": {c: [f["name"] for f in ci["fields"]] for c, ci in info["classes"].items()}}
