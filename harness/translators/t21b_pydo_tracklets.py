"""T21b: the `validate_tracklets` half of T21 (`t21_pydo_tracks.py`: geff/validate/tracks.py ->
lean/Gen/Tracks.lean), reported as a separate item so that a refusal of `validate_tracklets` breaks
the check of C13 and a refusal of `validate_lineages` the check of C14 — not each other's.  The
same generator runs (the Gen file always holds both functions; it is rewritten only on change)."""
from __future__ import annotations

from pathlib import Path

from harness.translators import t21_pydo_tracks as t21

NAME = "T21b_pydo_tracklets"
PROPS = ["C13"]


def run(repo: Path, out: Path):
    errors = t21.generate(repo, out)
    mine = errors.get("validate_tracklets")
    return {"ok": mine is None, **({"error": f"validate_tracklets: {mine}"} if mine else {})}
