"""T8a: literal tables of geff/convert/_ctc.py and geff/convert/_dataframe.py -> lean/Gen/ConvertCtcDf.lean.

Extracted with `ast` (the files are parsed, never imported):

* `from_ctc_to_geff`: the keys of the initial `node_props` dict; the name tuple of
  `zip((...), obj.centroid[::-1])` (coordinate order); every `Axis(name=…, type=…)` call in source
  order and the index of `axis_names.insert(i, …)`; `track_node_props={…}`; the keyword constants of
  `RelatedObject(…)`; the comparison `tracks_table[:, c] <op> k` that drops rows without a parent and
  the subscripts `row[i]`, `tracks[..][j]` of the table loop;
* `geff_to_dataframes`: the constant keys assigned into `df_dict`, the separator of the f-string
  `f"{name}<sep>{i}"`;
* `geff_to_csv`: the two `mode` strings and the two file-name suffixes.

The models `GeffModel/Ctc.lean` / `GeffModel/Dataframe.lean` hard-code these literals; the
obligations `GeffProps.C15.gen_ctc_tables_current` / `GeffProps.C17.gen_dataframe_tables_current`
state (by `decide`) that the regenerated tables are the ones the models use, so a renamed property,
a re-ordered axis, a changed file mode … breaks a proof obligation (and the correspondence then
produces the concrete failing input).  A construct that cannot be found makes the translation fail
(`translationOk := false`).  Consumers: C15, C17."""
from __future__ import annotations

import ast
from pathlib import Path

from harness.translate import HEADER, lean_str, write_if_changed

NAME = "T8a_ctc_dataframe"
PROPS = ["C15", "C17"]

CTC = "packages/geff/src/geff/convert/_ctc.py"
DF = "packages/geff/src/geff/convert/_dataframe.py"


class Unsupported(ValueError):
    pass


def _func(tree, name):
    for n in ast.walk(tree):
        if isinstance(n, ast.FunctionDef) and n.name == name:
            return n
    raise Unsupported(f"function {name} not found")


def _const(n):
    if isinstance(n, ast.Constant):
        return n.value
    if isinstance(n, ast.UnaryOp) and isinstance(n.op, ast.USub) and isinstance(n.operand, ast.Constant):
        return -n.operand.value
    raise Unsupported(f"constant expected: {ast.unparse(n)}")


def _ctc(tree):
    f = _func(tree, "from_ctc_to_geff")
    out = {}
    for n in ast.walk(f):
        tgt = val = None
        if isinstance(n, ast.AnnAssign) and isinstance(n.target, ast.Name):
            tgt, val = n.target.id, n.value
        elif isinstance(n, ast.Assign) and len(n.targets) == 1 and isinstance(n.targets[0], ast.Name):
            tgt, val = n.targets[0].id, n.value
        if tgt == "node_props" and isinstance(val, ast.Dict):
            out["nodeProps"] = [_const(k) for k in val.keys]
        if tgt == "tracks_table" and isinstance(val, ast.Subscript) and isinstance(val.slice, ast.Compare):
            cmp = val.slice
            if (len(cmp.ops) == 1 and isinstance(cmp.left, ast.Subscript) and isinstance(cmp.left.slice, ast.Tuple)
                    and len(cmp.left.slice.elts) == 2):
                out["parentFilter"] = (int(_const(cmp.left.slice.elts[1])), type(cmp.ops[0]).__name__,
                                       int(_const(cmp.comparators[0])))
        if tgt in ("child_track_id", "parent_track_id") and isinstance(val, ast.Subscript) \
                and isinstance(val.value, ast.Name) and val.value.id == "row":
            out[tgt] = int(_const(val.slice))
        if tgt in ("child_node_id", "parent_node_id") and isinstance(val, ast.Subscript) \
                and isinstance(val.value, ast.Subscript) and isinstance(val.value.value, ast.Name) \
                and val.value.value.id == "tracks" and isinstance(val.value.slice, ast.Name):
            out[tgt] = (val.value.slice.id, int(_const(val.slice)))
        if isinstance(n, ast.Call) and isinstance(n.func, ast.Name):
            if n.func.id == "zip" and n.args and isinstance(n.args[0], ast.Tuple):
                out["coordOrder"] = [_const(e) for e in n.args[0].elts]
                out["coordReversed"] = (len(n.args) > 1 and ast.unparse(n.args[1]) == "obj.centroid[::-1]")
            if n.func.id == "Axis":
                kw = {k.arg: _const(k.value) for k in n.keywords}
                out.setdefault("axes", []).append((kw["name"], kw["type"]))
            if n.func.id == "RelatedObject":
                out["related"] = sorted((k.arg, _const(k.value)) for k in n.keywords if isinstance(k.value, ast.Constant))
            if n.func.id == "GeffMetadata":
                for k in n.keywords:
                    if k.arg == "track_node_props" and isinstance(k.value, ast.Dict):
                        out["trackNodeProps"] = [(_const(a), _const(b)) for a, b in zip(k.value.keys, k.value.values)]
                    if k.arg == "directed":
                        out["directed"] = bool(_const(k.value))
        if (isinstance(n, ast.Call) and isinstance(n.func, ast.Attribute) and n.func.attr == "insert"
                and isinstance(n.func.value, ast.Name) and n.func.value.id == "axis_names"):
            out["zInsertAt"] = int(_const(n.args[0]))
    need = ["nodeProps", "parentFilter", "child_track_id", "parent_track_id", "child_node_id", "parent_node_id",
            "coordOrder", "coordReversed", "axes", "related", "trackNodeProps", "directed", "zInsertAt"]
    missing = [k for k in need if k not in out]
    if missing:
        raise Unsupported(f"_ctc.py: not found: {missing}")
    return out


def _df(tree):
    out = {}
    f = _func(tree, "geff_to_dataframes")
    keys, seps = [], []
    for n in ast.walk(f):
        if isinstance(n, ast.Assign) and len(n.targets) == 1 and isinstance(n.targets[0], ast.Subscript) \
                and isinstance(n.targets[0].value, ast.Name) and n.targets[0].value.id == "df_dict":
            sl = n.targets[0].slice
            if isinstance(sl, ast.Constant):
                keys.append(sl.value)
            elif isinstance(sl, ast.JoinedStr):
                parts = sl.values
                if (len(parts) == 3 and isinstance(parts[0], ast.FormattedValue) and isinstance(parts[1], ast.Constant)
                        and isinstance(parts[2], ast.FormattedValue) and ast.unparse(parts[0].value) == "name"
                        and ast.unparse(parts[2].value) == "i"):
                    seps.append(parts[1].value)
                else:
                    raise Unsupported(f"column name pattern: {ast.unparse(sl)}")
    if not keys or len(set(seps)) != 1:
        raise Unsupported("_dataframe.py: df_dict keys / f-string not found")
    out["idCols"], out["subSep"] = keys, seps[0]
    g = _func(tree, "geff_to_csv")
    for n in ast.walk(g):
        if isinstance(n, ast.Assign) and len(n.targets) == 1 and isinstance(n.targets[0], ast.Name):
            t, v = n.targets[0].id, n.value
            if t == "mode" and isinstance(v, ast.IfExp) and ast.unparse(v.test) == "overwrite":
                out["modes"] = (_const(v.body), _const(v.orelse))
            if t in ("node_path", "edge_path") and isinstance(v, ast.JoinedStr) and len(v.values) == 2 \
                    and isinstance(v.values[1], ast.Constant) and ast.unparse(v.values[0].value) == "outpath":
                out[t] = v.values[1].value
    order = [ast.unparse(n.func.value) for n in ast.walk(g)
             if isinstance(n, ast.Call) and isinstance(n.func, ast.Attribute) and n.func.attr == "to_csv"]
    out["writeOrder"] = order
    missing = [k for k in ("modes", "node_path", "edge_path") if k not in out]
    if missing:
        raise Unsupported(f"_dataframe.py: not found: {missing}")
    return out


def _strs(xs):
    return "[" + ", ".join(lean_str(str(x)) for x in xs) + "]"


def _pairs(xs):
    return "[" + ", ".join(f"({lean_str(str(a))}, {lean_str(str(b))})" for a, b in xs) + "]"


def run(repo: Path, out: Path):
    err = None
    c = d = None
    try:
        c = _ctc(ast.parse((repo / CTC).read_text()))
        d = _df(ast.parse((repo / DF).read_text()))
    except Exception as e:  # noqa: BLE001
        err = f"{type(e).__name__}: {e}"
    b = HEADER + "namespace Gen.ConvertCtcDf\n"
    b += f"def translationOk : Bool := {'true' if err is None else 'false'}\n"
    c = c or {}
    d = d or {}
    pf = c.get("parentFilter", (0, "", 0))
    b += f"def ctcNodeProps : List String := {_strs(c.get('nodeProps', []))}\n"
    b += f"def ctcCoordOrder : List String := {_strs(c.get('coordOrder', []))}\n"
    b += f"def ctcCoordReversed : Bool := {'true' if c.get('coordReversed') else 'false'}\n"
    b += f"def ctcAxes : List (String × String) := {_pairs(c.get('axes', []))}\n"
    b += f"def ctcZInsertAt : Nat := {c.get('zInsertAt', 0)}\n"
    b += f"def ctcTrackNodeProps : List (String × String) := {_pairs(c.get('trackNodeProps', []))}\n"
    b += f"def ctcRelated : List (String × String) := {_pairs(c.get('related', []))}\n"
    b += f"def ctcDirected : Bool := {'true' if c.get('directed') else 'false'}\n"
    b += f"/-- rows kept: `tracks_table[:, col] <op> k` -/\ndef ctcParentFilter : Int × String × Int := ({pf[0]}, {lean_str(pf[1])}, {pf[2]})\n"
    b += f"def ctcChildCol : Int := {c.get('child_track_id', 99)}\n"
    b += f"def ctcParentCol : Int := {c.get('parent_track_id', 99)}\n"
    cn, pn = c.get("child_node_id", ("", 99)), c.get("parent_node_id", ("", 99))
    b += f"/-- `tracks[<which>][<index>]` of the child / parent node -/\n"
    b += f"def ctcChildNode : String × Int := ({lean_str(cn[0])}, {cn[1]})\n"
    b += f"def ctcParentNode : String × Int := ({lean_str(pn[0])}, {pn[1]})\n"
    b += f"def dfIdCols : List String := {_strs(d.get('idCols', []))}\n"
    b += f"def dfSubSep : String := {lean_str(d.get('subSep', ''))}\n"
    m = d.get("modes", ("", ""))
    b += f"/-- (mode when overwrite, mode otherwise) -/\ndef csvModes : String × String := ({lean_str(m[0])}, {lean_str(m[1])})\n"
    b += f"def csvSuffixes : List String := {_strs([d.get('node_path', ''), d.get('edge_path', '')])}\n"
    b += f"def csvWriteOrder : List String := {_strs(d.get('writeOrder', []))}\n"
    b += "end Gen.ConvertCtcDf\n"
    write_if_changed(out / "ConvertCtcDf.lean", b)
    return {"ok": err is None, **({"error": err} if err else {}), "ctc": c, "dataframe": d}
