"""T16: geff/validate/structure.py (+ expect_array / expect_group of core_io/_utils.py)
      -> lean/Gen/Structure.lean      (Python -> Lean `do`-notation, the structural validator)

EVERY function of `validate/structure.py`

    validate_structure, _validate_axes_structure, _dtype_matches, _validate_optional_props_group,
    _validate_props_group, _validate_nodes_group, _validate_edges_group

and the two helpers `expect_array`, `expect_group` of `core_io/_utils.py` are translated *statement by
statement* from the AST of the working tree (parsed, never imported) into Lean `do`-blocks in the
monad `Geff.Structure.Out` (= `Except Err`), over the store tree of the hand-written C04 model
(`GeffModel/Structure.lean`: `Grp`, `Node`, `Arr`, `Meta`, `PropMeta`, `Target`) and the primitives of
`GeffModel/PyDoStructure.lean` (one small function per zarr / numpy / Python operation that occurs in
the source, with Python's own exceptions as outcomes).  The engine follows T12
(`t12_pydo_serialization`, whose `Unsupported` / `camel` are imported); it is written for this file:

* every expression is *typed* (closed table below: `Grp`, `Arr`, `Node`, `Option Node`, `Dtype`, `Nat`,
  `String`, `List String` (a key with its path components / a key list / a set of names), `Meta`,
  `List (String × PropMeta)`, `PropMeta`, `Axis`, `Option (List Axis)`, `Bool`, `Target`); the type of a
  local is the type of its first right-hand side; parameter types come from the table `FUNCS`; a
  function of structure.py that is not in the table, a changed parameter list, an unknown call /
  attribute / operator, is refused;
* Python is dynamically typed where the generated code is not: the result of `group.get(k)` is an
  `Option Node`, of `group[k]` a `Node`.  Where such a value is *used as* a group or an array (receiver
  of `.get` / `.keys` / `.array_keys`, `.dtype` / `.shape` / `.ndim`, argument of a function that takes
  a group, `return` from a function that returns one) the coercion `optAsGroup` / `nodeAsArray` / … is
  bound at that place and raises `AttributeError` when the value is something else — so the
  `isinstance` guards of the source are what makes that outcome unreachable, and a dropped guard makes
  it reachable;
* `a.shape[k]` (literal `k`, negative from the end) -> `shapeIndex a k` (IndexError), `d[k]` / `g[k]` ->
  `dictGetItem` / `groupGetItem` (KeyError), `for x in <Optional list>` -> `iterOptList` (TypeError on
  None); an operation that can raise is bound with `let tN <- ...` where Python evaluates it;
* `A or B` / `A and B` whose later operand can raise is evaluated with Python's short circuit:
  `let cN <- (if A then pure true else (do <binds of B>; pure B))`;
* `if/elif/else`, `for x in xs`, `return` anywhere (also inside a conditional), calls of another
  translated function with positional / keyword arguments and the callee's string defaults;
* `raise ValueError(<str or f-string>)` -> `raiseValueError`: C04 speaks about the exception class, the
  text is dropped — but every interpolated expression must be a non-raising expression over typed
  variables (checked), otherwise the function is refused;
* a key: `_path.X` is the string constant `Gen.Paths.X` (translator T1); where a key is expected it is
  split into its components *in Lean* (`keyPath X`); an f-string key `f"{ax.name}/values"` becomes the
  component list `[ax.name, "values"]` (an interpolated name is ONE component — assumption stated in
  `PyDoStructure.lean`);
* `x.kind in ("U", "T")` (exactly this set) -> `kindIsString x`;
* dtypes are numpy's dtype *classes* (`Np.Dtype`: no byte order, no string width).  `np.issubdtype` is a
  function of the class; numpy's `==` on dtypes is not (it distinguishes byte order and item size), so
  `d1 == d2` / `!=` is translated only between two `.newbyteorder("=")` results (as `validate_structure`
  compares the id dtypes) and refused otherwise.

Anything else makes the translation of that function fail: the Gen file then carries a stub with the
same signature that raises `other "untranslated"` and `translationOk := false`, which
`GeffProps.C04Gen.translated` requires to be `true`.  A translation that succeeds but does not
type-check, or that is no longer equal to the hand-written model, breaks `lake build GeffProps.C04Gen`.

Consumer: C04 (`GeffProofs/StructureGen.lean`, `GeffProps/C04Gen.lean`)."""
from __future__ import annotations

import ast
from pathlib import Path

from harness.translate import HEADER, lean_str, write_if_changed
from harness.translators.t12_pydo_serialization import Unsupported, camel

NAME = "T16_pydo_structure"
PROPS = ["C04"]
SRC = "packages/geff/src/geff/validate/structure.py"
UTILS = "packages/geff/src/geff/core_io/_utils.py"

KEY = "List String"
PMD = "List (String × PropMeta)"
ONODE = "Option Node"
OAXES = "Option (List Axis)"
PATH_NAMES = ["NODES", "EDGES", "IDS", "PROPS", "VALUES", "MISSING", "DATA", "NODE_IDS", "EDGE_IDS", "NODE_PROPS",
              "EDGE_PROPS"]

# python name -> file, Lean name, parameters (python name, Lean type), result type
FUNCS = {
    "expect_array": (UTILS, [("parent", "Grp"), ("key", KEY), ("parent_name", "String")], "Arr"),
    "expect_group": (UTILS, [("parent", "Grp"), ("key", KEY), ("parent_name", "String")], "Grp"),
    "validate_structure": (SRC, [("store", "Target")], "Unit"),
    "_validate_axes_structure": (SRC, [("graph", "Grp"), ("meta", "Meta")], "Unit"),
    "_dtype_matches": (SRC, [("actual", "Dtype"), ("stated", "Dtype")], "Bool"),
    "_validate_optional_props_group": (SRC, [("parent_group", "Grp"), ("parent_name", "String"), ("expected_len", "Nat"),
                                             ("parent_key", "String"), ("props_metadata", PMD)], "Unit"),
    "_validate_props_group": (SRC, [("props_group", "Grp"), ("expected_len", "Nat"), ("parent_key", "String"),
                                    ("props_metadata", PMD)], "Unit"),
    "_validate_nodes_group": (SRC, [("nodes_group", "Grp"), ("metadata", "Meta")], "Unit"),
    "_validate_edges_group": (SRC, [("edges_group", "Grp"), ("metadata", "Meta")], "Unit"),
}
# attributes of typed values: type -> python attribute -> (Lean text with {e}, type)
ATTRS = {
    "Arr": {"dtype": ("{e}.dtype", "Dtype"), "ndim": ("{e}.ndim", "Nat"), "shape": ("{e}.shape", "List Nat")},
    "PropMeta": {"dtype": ("{e}.dtype", "Dtype"), "varlength": ("{e}.varlength", "Bool")},
    "Meta": {"node_props_metadata": ("{e}.nodeProps", PMD), "edge_props_metadata": ("{e}.edgeProps", PMD),
             "axes": ("(metaAxes {e})", OAXES)},
    "Axis": {"name": ("{e}.name", "String")},
}
# second argument of np.issubdtype
NP_CLASS = {"integer": ".integer", "uint64": "(.exact .u64)", "bool_": "(.exact .bool)", "int64": "(.exact .i64)",
            "float64": "(.exact .f64)"}
EXC = {"ValueError": "raiseValueError", "FileNotFoundError": "raiseFileNotFoundError", "KeyError": "raiseKeyError",
       "IndexError": "raiseIndexError", "TypeError": "raiseTypeError"}
GROUP_METHODS = {"keys": ("memberKeys", "List String"), "array_keys": ("arrayKeys", "List String"),
                 "group_keys": ("groupKeys", "List String")}


LEAN_KEYWORDS = {"meta", "at", "from", "have", "show", "fun", "end", "open", "in", "do", "then", "else", "if", "let", "match",
                 "with", "where", "structure", "instance", "section", "namespace", "export", "import", "theorem", "def",
                 "class", "local", "private", "protected", "partial", "unsafe", "mutual", "macro", "syntax", "for", "return",
                 "deriving", "universe", "variable", "example", "axiom", "abbrev", "inductive", "opaque", "by", "using",
                 "calc", "suffices", "nomatch", "nofun", "try", "catch", "finally", "unless", "mut", "break", "continue", "Type",
                 "Prop", "Sort", "set_option", "attribute", "scoped", "public", "noncomputable", "module", "extends", "to"}


def lean_name(py: str) -> str:
    c = camel(py)
    return c + "_" if c in LEAN_KEYWORDS else c


def _is_mod_attr(node, mod, attr=None):
    return (isinstance(node, ast.Attribute) and isinstance(node.value, ast.Name) and node.value.id == mod
            and (attr is None or node.attr == attr))


def paren(e: str) -> str:
    """parenthesise unless `e` is an atom (identifier / projection / literal / one bracketed group)"""
    if all(c.isalnum() or c in "_." for c in e):
        return e
    if e[0] == '"' and e.count('"') == 2 and e[-1] == '"':
        return e
    if e[0] in "([" :
        depth = 0
        for k, c in enumerate(e):
            depth += c in "([" 
            depth -= c in ")]"
            if depth == 0:
                if k == len(e) - 1:
                    return e
                break
    return f"({e})"


class Fn:
    def __init__(self, name, defaults):
        self.name = name
        self.params, self.ret = FUNCS[name][1], FUNCS[name][2]
        self.env: dict[str, str] = dict(self.params)
        self.defaults = defaults                 # python function -> {param: default string}
        self.tmp = 0
        self.calls: set[str] = set()
        self.assigned: dict[str, int] = {}
        self.in_msg = False

    def fresh(self, p="t"):
        self.tmp += 1
        return f"{p}{self.tmp}"

    def bind(self, binds, action, ty):
        t = self.fresh()
        binds.append(f"let {t} ← {action}")
        return t, ty

    # ------------------------------------------------------------ coercions
    def coerce(self, e, t, want, binds):
        if t == want or (t, want) == ("DtypeNative", "Dtype"):
            return e
        if want == KEY and t == "String":
            return f"(keyPath {paren(e)})"
        if want in ("Grp", "Arr") and t in ("Node", ONODE):
            f = {("Grp", "Node"): "nodeAsGroup", ("Grp", ONODE): "optAsGroup",
                 ("Arr", "Node"): "nodeAsArray", ("Arr", ONODE): "optAsArray"}[(want, t)]
            return self.bind(binds, f"{f} {paren(e)}", want)[0]
        raise Unsupported(f"a value of type {t} where {want} is expected ({e})")

    # ------------------------------------------------------------ expressions
    def key(self, n, binds):
        """an expression used as a zarr key -> component list"""
        if isinstance(n, ast.JoinedStr):
            comps: list[list[str]] = [[]]
            for part in n.values:
                if isinstance(part, ast.Constant) and isinstance(part.value, str):
                    pieces = part.value.split("/")
                    for k, piece in enumerate(pieces):
                        if k > 0:
                            comps.append([])
                        if piece:
                            comps[-1].append(lean_str(piece))
                elif isinstance(part, ast.FormattedValue) and part.conversion == -1 and part.format_spec is None:
                    e, t = self.expr(part.value, binds)
                    if t != "String":
                        raise Unsupported(f"key f-string interpolates a {t}")
                    comps[-1].append(e)
                else:
                    raise Unsupported("f-string key with a conversion / format specification")
            if any(len(c) != 1 for c in comps):
                raise Unsupported(f"f-string key whose components are not single names: {ast.unparse(n)}")
            return "[" + ", ".join(c[0] for c in comps) + "]"
        e, t = self.expr(n, binds)
        return self.coerce(e, t, KEY, binds)

    def expr(self, n, binds):
        """-> (Lean text, Lean type); operations that can raise are appended to `binds`"""
        if isinstance(n, ast.Name):
            if n.id not in self.env:
                raise Unsupported(f"unknown variable {n.id}")
            return lean_name(n.id), self.env[n.id]
        if isinstance(n, ast.Constant):
            v = n.value
            if isinstance(v, bool):
                return ("true" if v else "false"), "Bool"
            if isinstance(v, int) and v >= 0:
                return str(v), "Nat"
            if isinstance(v, str):
                return lean_str(v), "String"
            raise Unsupported(f"constant {v!r}")
        if isinstance(n, ast.UnaryOp) and isinstance(n.op, ast.Not):
            e, t = self.expr(n.operand, binds)
            if t != "Bool":
                raise Unsupported(f"`not` on {t}")
            return f"!{paren(e)}", "Bool"
        if isinstance(n, ast.BoolOp):
            return self.boolop(n, binds)
        if isinstance(n, ast.Compare) and len(n.ops) == 1:
            return self.compare(n, binds)
        if isinstance(n, ast.Attribute):
            if _is_mod_attr(n, "_path"):
                if n.attr not in PATH_NAMES:
                    raise Unsupported(f"unknown path constant _path.{n.attr}")
                return n.attr, "String"
            e, t = self.expr(n.value, binds)
            if t in ("Node", ONODE) and n.attr in ATTRS["Arr"]:
                e, t = self.coerce(e, t, "Arr", binds), "Arr"
            if t in ATTRS and n.attr in ATTRS[t]:
                txt, ty = ATTRS[t][n.attr]
                return txt.format(e=paren(e)), ty
            raise Unsupported(f"attribute .{n.attr} of {t}")
        if isinstance(n, ast.Subscript):
            return self.subscript(n, binds)
        if isinstance(n, ast.Call):
            return self.call(n, binds)
        raise Unsupported(f"expression {ast.unparse(n)[:60]}")

    def boolop(self, n, binds):
        is_or = isinstance(n.op, ast.Or)
        acc, tacc = self.expr(n.values[0], binds)
        if tacc != "Bool":
            raise Unsupported(f"boolean operand of type {tacc}")
        for v in n.values[1:]:
            sub: list[str] = []
            e, t = self.expr(v, sub)
            if t != "Bool":
                raise Unsupported(f"boolean operand of type {t}")
            if not sub:
                acc = f"({acc} {'||' if is_or else '&&'} {e})"
                continue
            # Python's short circuit: the later operand (which can raise) runs only when needed
            c = self.fresh("c")
            inner = "; ".join(sub) + f"; pure {paren(e)}"
            if is_or:
                binds.append(f"let {c} ← (if {acc} then pure true else (do {inner}))")
            else:
                binds.append(f"let {c} ← (if {acc} then (do {inner}) else pure false)")
            acc = c
        return acc, "Bool"

    def compare(self, n, binds):
        op, l, r = n.ops[0], n.left, n.comparators[0]
        if isinstance(op, (ast.Is, ast.IsNot)) and isinstance(r, ast.Constant) and r.value is None:
            e, t = self.expr(l, binds)
            if not t.startswith("Option "):
                raise Unsupported(f"`is None` on {t}")
            return f"{paren(e)}.{'isNone' if isinstance(op, ast.Is) else 'isSome'}", "Bool"
        if isinstance(op, (ast.In, ast.NotIn)):
            neg = isinstance(op, ast.NotIn)
            # x.kind in ("U", "T")
            if isinstance(l, ast.Attribute) and l.attr == "kind":
                d, td = self.expr(l.value, binds)
                vals = ([c.value for c in r.elts if isinstance(c, ast.Constant)]
                        if isinstance(r, (ast.Tuple, ast.List, ast.Set)) else None)
                if td != "Dtype" or vals is None or len(vals) != len(r.elts) or sorted(vals) != ["T", "U"]:
                    raise Unsupported(f"kind test {ast.unparse(n)}")
                res = f"kindIsString {paren(d)}"
            else:
                b, tb = self.expr(r, binds)
                if tb in ("Node", ONODE):
                    b, tb = self.coerce(b, tb, "Grp", binds), "Grp"
                if tb == "Grp":
                    a = self.key(l, binds)
                    res = f"groupContains {paren(b)} {a}"
                else:
                    a, ta = self.expr(l, binds)
                    if ta != "String":
                        raise Unsupported(f"membership test of a {ta}")
                    if tb == "List String":
                        res = f"strIn {paren(a)} {paren(b)}"
                    elif tb == PMD:
                        res = f"dictContains {paren(b)} {paren(a)}"
                    else:
                        raise Unsupported(f"membership in {tb}")
            return (f"!({res})" if neg else res), "Bool"
        a, ta = self.expr(l, binds)
        b, tb = self.expr(r, binds)
        if ta != tb:
            raise Unsupported(f"comparison of {ta} with {tb}")
        if ta == "Dtype":
            # numpy's dtype equality distinguishes byte order (and item size); the dtype-class model
            # cannot express that, only the comparison of two `.newbyteorder("=")` results is modelled
            raise Unsupported(f"dtype equality without byte-order normalisation: {ast.unparse(n)}")
        if isinstance(op, (ast.Eq, ast.NotEq)) and ta in ("Nat", "DtypeNative", "String", "Bool", "List Nat"):
            return f"{paren(a)} {'==' if isinstance(op, ast.Eq) else '!='} {paren(b)}", "Bool"
        sym = {ast.Lt: "<", ast.LtE: "≤", ast.Gt: ">", ast.GtE: "≥"}.get(type(op))
        if sym and ta == "Nat":
            return f"decide ({a} {sym} {b})", "Bool"
        raise Unsupported(f"comparison {ast.unparse(n)}")

    def subscript(self, n, binds):
        idx = n.slice
        lit = None
        if isinstance(idx, ast.Constant) and isinstance(idx.value, int) and not isinstance(idx.value, bool):
            lit = idx.value
        elif (isinstance(idx, ast.UnaryOp) and isinstance(idx.op, ast.USub) and isinstance(idx.operand, ast.Constant)
              and isinstance(idx.operand.value, int)):
            lit = -idx.operand.value
        # a.shape[k]
        if isinstance(n.value, ast.Attribute) and n.value.attr == "shape" and lit is not None:
            e, t = self.expr(n.value.value, binds)
            e = self.coerce(e, t, "Arr", binds)
            return self.bind(binds, f"shapeIndex {paren(e)} {lit if lit >= 0 else f'({lit})'}", "Nat")
        e, t = self.expr(n.value, binds)
        if isinstance(idx, ast.Slice):
            raise Unsupported(f"slice {ast.unparse(n)}")
        i, ti = self.expr(idx, binds)
        if ti != "String":
            raise Unsupported(f"subscript with a {ti}")
        if t == PMD:
            return self.bind(binds, f"dictGetItem {paren(e)} {paren(i)}", "PropMeta")
        if t in ("Node", ONODE):
            e, t = self.coerce(e, t, "Grp", binds), "Grp"
        if t == "Grp":
            return self.bind(binds, f"groupGetItem {paren(e)} {paren(i)}", "Node")
        raise Unsupported(f"subscript of {t}")

    def call(self, n, binds):
        f = n.func
        src = ast.unparse(n)[:80]
        nargs = len(n.args)
        if isinstance(f, ast.Name):
            if f.id in FUNCS:
                return self.call_translated(f.id, n, binds)
            if n.keywords:
                raise Unsupported(f"call {src}")
            if f.id == "isinstance" and nargs == 2 and _is_mod_attr(n.args[1], "zarr") and n.args[1].attr in ("Array", "Group"):
                e, t = self.expr(n.args[0], binds)
                arr = n.args[1].attr == "Array"
                if t == ONODE:
                    return f"{'isZarrArray' if arr else 'isZarrGroup'} {paren(e)}", "Bool"
                if t == "Node":
                    return f"{'nodeIsArray' if arr else 'nodeIsGroup'} {paren(e)}", "Bool"
                raise Unsupported(f"isinstance on {t}")
            if f.id == "len" and nargs == 1:
                e, t = self.expr(n.args[0], binds)
                if t == PMD:
                    return f"dictLen {paren(e)}", "Nat"
                if t.startswith("List "):
                    return f"{paren(e)}.length", "Nat"
                raise Unsupported(f"len of {t}")
            if f.id in ("set", "list") and nargs == 1:
                e, t = self.expr(n.args[0], binds)
                if t == "List String":
                    return (f"pySet {paren(e)}" if f.id == "set" else e), "List String"
                if t == PMD:
                    return f"dictKeys {paren(e)}", "List String"
                raise Unsupported(f"{f.id} of {t}")
            if f.id == "bool" and nargs == 1:
                e, t = self.expr(n.args[0], binds)
                if t != "Bool":
                    raise Unsupported(f"bool of {t}")
                return e, "Bool"
            if f.id == "type" and nargs == 1 and self.in_msg:
                self.expr(n.args[0], binds)
                return "()", "Unit"
            if f.id == "open_storelike" and nargs == 1:
                e, t = self.expr(n.args[0], binds)
                if t != "Target":
                    raise Unsupported(f"open_storelike of {t}")
                return self.bind(binds, f"openStorelike {paren(e)}", "Grp")
            raise Unsupported(f"call {src}")
        if not isinstance(f, ast.Attribute) or n.keywords:
            raise Unsupported(f"call {src}")
        # GeffMetadata.read(store)
        if isinstance(f.value, ast.Name) and f.value.id == "GeffMetadata" and f.attr == "read" and nargs == 1:
            e, t = self.expr(n.args[0], binds)
            if t != "Target":
                raise Unsupported(f"GeffMetadata.read of {t}")
            return self.bind(binds, f"geffMetadataRead {paren(e)}", "Meta")
        if _is_mod_attr(f, "np", "dtype") and nargs == 1:
            e, t = self.expr(n.args[0], binds)
            if t != "Dtype":
                raise Unsupported(f"np.dtype of {t}")
            return f"npDtype {paren(e)}", "Dtype"
        if _is_mod_attr(f, "np", "issubdtype") and nargs == 2:
            e, t = self.expr(n.args[0], binds)
            if t != "Dtype":
                raise Unsupported(f"np.issubdtype of {t}")
            c = n.args[1]
            if _is_mod_attr(c, "np"):
                if c.attr not in NP_CLASS:
                    raise Unsupported(f"np.issubdtype against np.{c.attr}")
                cls = NP_CLASS[c.attr]
            else:
                ce, ct = self.expr(c, binds)
                if ct != "Dtype":
                    raise Unsupported(f"np.issubdtype against a {ct}")
                cls = f"(.exact {paren(ce)})"
            return f"issubdtype {paren(e)} {cls}", "Bool"
        if _is_mod_attr(f, "np") or _is_mod_attr(f, "zarr"):
            raise Unsupported(f"call {src}")
        # methods
        e, t = self.expr(f.value, binds)
        if f.attr == "newbyteorder" and t == "Dtype" and nargs == 1 and isinstance(n.args[0], ast.Constant) and n.args[0].value == "=":
            return f"newbyteorderNative {paren(e)}", "DtypeNative"
        if f.attr == "get" and nargs == 1:
            g = self.coerce(e, t, "Grp", binds)
            k = self.key(n.args[0], binds)
            return f"groupGet {paren(g)} {k}", ONODE
        if f.attr in GROUP_METHODS and nargs == 0:
            g = self.coerce(e, t, "Grp", binds)
            prim, ty = GROUP_METHODS[f.attr]
            return f"{prim} {paren(g)}", ty
        raise Unsupported(f"call {src}")

    def call_translated(self, name, n, binds):
        params, ret = FUNCS[name][1], FUNCS[name][2]
        given: dict[str, ast.expr] = {}
        if len(n.args) > len(params):
            raise Unsupported(f"too many arguments for {name}")
        for (p, _), a in zip(params, n.args):
            given[p] = a
        for kw in n.keywords:
            if kw.arg is None or kw.arg in given or kw.arg not in dict(params):
                raise Unsupported(f"keyword argument {kw.arg} of {name}")
            given[kw.arg] = kw.value
        args = []
        for p, ty in params:
            if p in given:
                if ty == KEY:
                    args.append(self.key(given[p], binds))
                else:
                    e, t = self.expr(given[p], binds)
                    args.append(paren(self.coerce(e, t, ty, binds)))
            elif p in self.defaults.get(name, {}):
                args.append(lean_str(self.defaults[name][p]))
            else:
                raise Unsupported(f"argument {p} of {name} is missing")
        self.calls.add(name)
        return self.bind(binds, f"{lean_name(name)} " + " ".join(args), ret)

    # ------------------------------------------------------------ statements
    def message_ok(self, n):
        """the argument of `raise X(...)`: its text is dropped, its interpolated expressions must be
        non-raising expressions over typed variables"""
        self.in_msg = True
        try:
            for sub in ast.walk(n):
                if isinstance(sub, ast.FormattedValue):
                    binds: list[str] = []
                    v = sub.value
                    if isinstance(v, ast.Call) and isinstance(v.func, ast.Name) and v.func.id in ("list", "type", "len", "sorted"):
                        for a in v.args:
                            self.expr(a, binds)
                    else:
                        self.expr(v, binds)
                    if binds:
                        raise Unsupported(f"an interpolated expression of a message can raise: {ast.unparse(v)}")
        finally:
            self.in_msg = False

    def emit(self, out, ind, binds, line=None):
        for b in binds:
            out.append(ind + b)
        if line is not None:
            out.append(ind + line)

    def block(self, stmts, out, ind):
        """-> True when the block certainly does not fall through (ends in return / raise)"""
        saved = dict(self.env)
        n0 = len(out)
        terminated = False
        for s in stmts:
            if terminated:
                raise Unsupported("statement after return / raise")
            if isinstance(s, ast.Expr) and isinstance(s.value, ast.Constant) and isinstance(s.value.value, str):
                continue                                                        # docstring
            if isinstance(s, ast.Pass):
                continue
            terminated = self.stmt(s, out, ind)
        if len(out) == n0:
            out.append(ind + "pure ()")
        self.env = saved
        return terminated

    def stmt(self, s, out, ind) -> bool:
        if isinstance(s, ast.AnnAssign) and s.value is not None and isinstance(s.target, ast.Name):
            s = ast.Assign(targets=[s.target], value=s.value)
        if isinstance(s, ast.Assign) and len(s.targets) == 1 and isinstance(s.targets[0], ast.Name):
            name = s.targets[0].id
            binds: list[str] = []
            e, t = self.expr(s.value, binds)
            if t == "Unit":
                raise Unsupported(f"assignment of a call without result to {name}")
            if name in self.env:
                if self.env[name] != t or name in dict(self.params) or self.assigned.get(name, 0) < 2:
                    raise Unsupported(f"re-assignment of {name}")
                self.emit(out, ind, binds, f"{lean_name(name)} := {e}")
            else:
                mut = "mut " if self.assigned.get(name, 0) > 1 else ""
                self.emit(out, ind, binds, f"let {mut}{lean_name(name)} : {'Dtype' if t == 'DtypeNative' else t} := {e}")
                self.env[name] = t
            return False
        if isinstance(s, ast.Expr) and isinstance(s.value, ast.Call):
            f = s.value.func
            if not (isinstance(f, ast.Name) and f.id in FUNCS and FUNCS[f.id][2] == "Unit"):
                raise Unsupported(f"expression statement {ast.unparse(s)[:60]}")
            binds = []
            t, _ = self.call_translated(f.id, s.value, binds)
            last = binds.pop()
            assert last.startswith(f"let {t} ← ")
            self.emit(out, ind, binds, last[len(f"let {t} ← "):])
            return False
        if isinstance(s, ast.Raise):
            exc = s.exc
            name = exc.func.id if isinstance(exc, ast.Call) and isinstance(exc.func, ast.Name) else (
                exc.id if isinstance(exc, ast.Name) else None)
            if name not in EXC or s.cause is not None:
                raise Unsupported(f"raise {ast.unparse(s)[:60]}")
            if isinstance(exc, ast.Call):
                if exc.keywords:
                    raise Unsupported("raise with keyword arguments")
                for a in exc.args:
                    self.message_ok(a)
            out.append(ind + EXC[name])
            return True
        if isinstance(s, ast.Return):
            binds = []
            if s.value is None or (isinstance(s.value, ast.Constant) and s.value.value is None):
                if self.ret != "Unit":
                    raise Unsupported("return without a value")
                out.append(ind + "return ()")
                return True
            e, t = self.expr(s.value, binds)
            e = self.coerce(e, t, self.ret, binds)
            self.emit(out, ind, binds, f"return {e}")
            return True
        if isinstance(s, ast.If):
            binds = []
            c, tc = self.expr(s.test, binds)
            if tc == OAXES or tc.startswith("Option (List"):
                c, tc = f"truthyOptList {paren(c)}", "Bool"
            if tc != "Bool":
                raise Unsupported(f"condition of type {tc}")
            # a conditional from which no `return` leaves and that re-assigns nothing is emitted as ONE
            # action `(if c then do … else do …)` that is sequenced with what follows (the statement form
            # of Lean's `do` would duplicate the continuation into a join point)
            as_term = not any(isinstance(x, (ast.Return, ast.Assign, ast.AnnAssign, ast.AugAssign)) and
                              (isinstance(x, ast.Return) or any(isinstance(tg, ast.Name) and tg.id in self.env
                                                                for tg in getattr(x, "targets", [getattr(x, "target", None)])))
                              for b in (s.body, s.orelse) for st in b for x in ast.walk(st))
            if as_term:
                self.emit(out, ind, binds, f"(if {c} then do")
                t1 = self.block(s.body, out, ind + "    ")
                t2 = False
                if s.orelse:
                    out.append(ind + "  else do")
                    t2 = self.block(s.orelse, out, ind + "    ")
                    out[-1] += ")"
                else:
                    out.append(ind + "  else pure ())")
                return t1 and t2
            self.emit(out, ind, binds, f"if {c} then")
            t1 = self.block(s.body, out, ind + "  ")
            t2 = False
            if s.orelse:
                out.append(ind + "else")
                t2 = self.block(s.orelse, out, ind + "  ")
            return t1 and t2
        if isinstance(s, ast.For) and not s.orelse and isinstance(s.target, ast.Name):
            binds = []
            e, t = self.expr(s.iter, binds)
            if t == PMD:
                e, t = f"dictKeys {paren(e)}", "List String"
            elif t.startswith("Option (List "):
                e, t = self.bind(binds, f"iterOptList {paren(e)}", t[len("Option ("):-1])
            if not t.startswith("List "):
                raise Unsupported(f"iteration over {t}")
            name = s.target.id
            if name in self.env:
                raise Unsupported(f"loop variable {name} shadows a variable")
            self.emit(out, ind, binds, f"for {lean_name(name)} in {e} do")
            self.env[name] = t[5:]
            for sub in ast.walk(s):
                if isinstance(sub, (ast.Break, ast.Continue)):
                    raise Unsupported("break / continue")
                if isinstance(sub, ast.Return):
                    raise Unsupported("return inside a loop")
            self.block(s.body, out, ind + "  ")
            del self.env[name]
            return False
        raise Unsupported(f"statement {type(s).__name__}: {ast.unparse(s)[:60]}")


def signature(name):
    params = " ".join(f"({lean_name(p)} : {t})" for p, t in FUNCS[name][1])
    return f"def {lean_name(name)} {params} : Out {FUNCS[name][2]}"


def translate_function(fn: ast.FunctionDef, defaults) -> tuple[str, set[str]]:
    name = fn.name
    a = fn.args
    if ([x.arg for x in a.args] != [p for p, _ in FUNCS[name][1]] or a.vararg or a.kwarg or a.kwonlyargs or a.posonlyargs
            or fn.decorator_list):
        raise Unsupported(f"signature of {name} changed: {ast.unparse(a)}")
    tr = Fn(name, defaults)
    for sub in ast.walk(fn):
        if isinstance(sub, (ast.Assign, ast.AnnAssign, ast.AugAssign)):
            for tg in (sub.targets if isinstance(sub, ast.Assign) else [sub.target]):
                if isinstance(tg, ast.Name):
                    tr.assigned[tg.id] = tr.assigned.get(tg.id, 0) + 1
        if isinstance(sub, (ast.FunctionDef, ast.Lambda, ast.AsyncFunctionDef)) and sub is not fn:
            raise Unsupported("nested function")
    out: list[str] = []
    terminated = tr.block(fn.body, out, "  ")
    if tr.ret != "Unit" and not terminated:
        raise Unsupported(f"{name} can fall off its end but returns a {tr.ret}")
    return "\n".join([signature(name) + " := do", *out]), tr.calls


def stub(name) -> str:
    params = " ".join(f"(_{lean_name(p)} : {t})" for p, t in FUNCS[name][1])
    return f"def {lean_name(name)} {params} : Out {FUNCS[name][2]} := throw (.other \"untranslated\")"


def _defaults(fn: ast.FunctionDef) -> dict[str, str]:
    args = fn.args.args
    ds = fn.args.defaults
    res = {}
    for a, d in zip(args[len(args) - len(ds):], ds):
        if isinstance(d, ast.Constant) and isinstance(d.value, str):
            res[a.arg] = d.value
    return res


def run(repo: Path, out: Path):
    errors: dict[str, str] = {}
    fns: dict[str, ast.FunctionDef] = {}
    for path in (UTILS, SRC):
        try:
            tree = ast.parse((repo / path).read_text())
        except Exception as e:  # noqa: BLE001
            errors[f"parse {path}"] = f"{type(e).__name__}: {e}"
            continue
        for node in tree.body:
            if isinstance(node, (ast.FunctionDef, ast.AsyncFunctionDef)):
                if path == SRC and node.name not in FUNCS:
                    errors[node.name] = "a function of validate/structure.py that the typing table does not know"
                elif node.name in FUNCS and FUNCS[node.name][0] == path and isinstance(node, ast.FunctionDef):
                    fns[node.name] = node
            elif path == SRC and isinstance(node, ast.ClassDef):
                errors[node.name] = "a class in validate/structure.py"
    defaults = {name: _defaults(fn) for name, fn in fns.items()}
    texts: dict[str, str] = {}
    calls: dict[str, set[str]] = {}
    for name in FUNCS:
        try:
            if name not in fns:
                raise Unsupported(f"function {name} not found in {FUNCS[name][0]}")
            text, cs = translate_function(fns[name], defaults)
            texts[name] = f"/-- `{name}` ({FUNCS[name][0]}:{fns[name].lineno}) -/\n" + text
            calls[name] = cs
        except Unsupported as e:
            errors[name] = str(e)
            texts[name] = f"/-- `{name}`: NOT TRANSLATED ({str(e).replace('-/', '- /')}) -/\n" + stub(name)
            calls[name] = set()
        except Exception as e:  # noqa: BLE001
            errors[name] = f"translator error {type(e).__name__}: {e}"
            texts[name] = f"/-- `{name}`: NOT TRANSLATED (translator error) -/\n" + stub(name)
            calls[name] = set()
    # callees before callers (Lean definitions are in dependency order); recursion is refused
    order: list[str] = []
    state: dict[str, int] = {}

    def visit(f):
        if state.get(f) == 2:
            return
        if state.get(f) == 1:
            errors[f] = "recursive call"
            return
        state[f] = 1
        for g in sorted(calls[f]):
            visit(g)
        state[f] = 2
        order.append(f)

    for name in FUNCS:
        visit(name)
    if any(v == "recursive call" for v in errors.values()):
        for name in FUNCS:
            texts[name] = f"/-- `{name}`: NOT TRANSLATED (recursion among the functions) -/\n" + stub(name)
    ok = not errors
    body = "import GeffModel.PyDoStructure\n" + HEADER
    body += ("/-! `geff/validate/structure.py` and `expect_array` / `expect_group` of `geff/core_io/_utils.py`,\n"
             "statement by statement (translator T16). -/\n")
    body += "set_option linter.unusedVariables false\nnamespace Gen.Structure\n"
    body += "open Geff.Np Gen.Paths Geff.PyDoStructure\n"
    body += "open Geff.Structure (Out Grp Arr Node Meta PropMeta Target Err)\n\n"
    body += f"def translationOk : Bool := {'true' if ok else 'false'}\n\n"
    body += "\n\n".join(texts[name] for name in order) + "\n\nend Gen.Structure\n"
    write_if_changed(out / "Structure.lean", body)
    return {"ok": ok, **({"error": "; ".join(f"{k}: {v}" for k, v in errors.items())} if errors else {})}
