"""T12: geff/core_io/_serialization.py -> lean/Gen/Serialization.lean  (Python -> Lean `do`-notation).

The three functions of the variable-length codec

    serialize_vlen_property_data, _deserialize_vlen_value, deserialize_vlen_property_data

are translated *statement by statement* from the AST of the working tree (parsed, never imported)
into Lean `do`-blocks in the `Geff.Vlen.Outcome` monad: `x = e` -> `let mut x : T := e` / `x := e`,
`x += e`, `l.append(e)`, `for v in xs:` / `for i in range(n):` -> `for … in … do`, `if/elif/else`,
`raise ValueError/IndexError/TypeError(…)` -> the failing action `raise…` (the message is dropped:
C11 does not speak about messages), `return e`.  Expressions are translated by a small *typed*
table of the numpy / Python primitives these functions use (`GeffModel/PyDo.lean` defines each of
them, with Python's exceptions as outcomes); an operation that can raise is bound with `let t ← …`
at the place where Python evaluates it.  Local variable types come from the fixed table `LOCALS`
below (a variable that is not in the table is refused).

Anything outside the subset — another statement kind, an unknown call or attribute, an unknown
variable, a type the table does not predict — makes the translation of that function fail: the Gen
file then carries a stub with the same signature and `translationOk := false`, which
`GeffProps.C11Gen.translated` requires to be `true`.  A translation that succeeds but does not
type-check breaks `lake build GeffProps.C11Gen`.  Either way the C11 check then searches for a
concrete failing input with its model-independent oracle.

Consumer: C11 (`GeffProps/C11Gen.lean`: the generated functions equal the hand-written model, hence
every C11 theorem holds of the code as it is written now; the round trip is restated on the
generated functions directly)."""
from __future__ import annotations

import ast
from pathlib import Path

from harness.translate import HEADER, write_if_changed

NAME = "T12_pydo_serialization"
PROPS = ["C11", "C09"]  # Gen.BaseRead (T20) imports Gen.Serialization
SRC = "packages/geff/src/geff/core_io/_serialization.py"


class Unsupported(ValueError):
    pass


def camel(n: str) -> str:
    parts = [p for p in n.strip("_").split("_") if p]
    return parts[0] + "".join(p.capitalize() for p in parts[1:])


# types of parameters / locals, per function (Lean types as strings)
ROW = "Nat × List Nat"
FUNCS = {
    "serialize_vlen_property_data": {
        "lean": "serializeVlenPropertyData",
        "tparams": "{μ : Type} ",
        "params": [("prop_dict", "PropDict μ")],
        "ret": "NdArr × μ × NdArr",
        "locals": {"values": "List PyElem", "missing": "μ", "encoded_values": f"List ({ROW})",
                   "data": "List NdArr", "offset": "Nat", "dtype": "Option Dtype", "ndim": "Option Nat",
                   "element": "PyElem", "encoded_arr": "NdArr"},
    },
    "_deserialize_vlen_value": {
        "lean": "deserializeVlenValue",
        "tparams": "",
        "params": [("values", "NdArr"), ("data", "NdArr"), ("index", "Nat")],
        "ret": "NdArr",
        "locals": {"offset": "Val", "shape": "List Val"},
    },
    "deserialize_vlen_property_data": {
        "lean": "deserializeVlenPropertyData",
        "tparams": "{μ : Type} ",
        "params": [("values", "NdArr"), ("missing", "μ"), ("data", "NdArr")],
        "ret": "List (Option NdArr) × μ",
        "locals": {"decoded_values": "List (Option NdArr)", "i": "Nat"},
    },
}
EXC = {"ValueError": "raiseValueError", "IndexError": "raiseIndexError", "TypeError": "raiseTypeError"}


def _is_np(node, attr):
    return (isinstance(node, ast.Attribute) and node.attr == attr and isinstance(node.value, ast.Name)
            and node.value.id == "np")


class Fn:
    def __init__(self, spec):
        self.spec = spec
        self.env = dict(spec["params"])         # python name -> Lean type (declared so far)
        self.locals = spec["locals"]
        self.tmp = 0
        self.primitives: set[str] = set()

    # ---------------------------------------------------------------- expressions
    def fresh(self):
        self.tmp += 1
        return f"t{self.tmp}"

    def bind(self, binds, action, ty):
        t = self.fresh()
        binds.append(f"let {t} ← {action}")
        return t, ty

    def expr(self, n, binds, want=None):
        """-> (lean text, lean type); operations that can raise are appended to `binds`"""
        if isinstance(n, ast.Name):
            if n.id not in self.env:
                raise Unsupported(f"unknown variable {n.id}")
            return camel(n.id), self.env[n.id]
        if isinstance(n, ast.Constant):
            if n.value is None:
                return "none", want or "Option ?"
            if isinstance(n.value, bool):
                return ("true" if n.value else "false"), "Bool"
            if isinstance(n.value, int) and n.value >= 0:
                return str(n.value), "Nat"
            raise Unsupported(f"constant {n.value!r}")
        if isinstance(n, ast.List) and not n.elts:
            if want is None or not want.startswith("List "):
                raise Unsupported("empty list of unknown type")
            return "[]", want
        if isinstance(n, ast.Tuple):
            # (offset, *element.shape)  ->  a row
            if (len(n.elts) == 2 and isinstance(n.elts[1], ast.Starred)):
                a, ta = self.expr(n.elts[0], binds)
                b, tb = self.expr(n.elts[1].value, binds)
                if (ta, tb) != ("Nat", "List Nat"):
                    raise Unsupported(f"row tuple of types {ta}, {tb}")
                return f"({a}, {b})", ROW
            parts = [self.expr(e, binds) for e in n.elts]
            return "(" + ", ".join(p[0] for p in parts) + ")", " × ".join(p[1] for p in parts)
        if isinstance(n, ast.Dict):
            # {"values": v, "missing": m}  ->  the pair
            keys = [k.value if isinstance(k, ast.Constant) else None for k in n.keys]
            if keys != ["values", "missing"]:
                raise Unsupported(f"dict with keys {keys}")
            parts = [self.expr(v, binds) for v in n.values]
            return "(" + ", ".join(p[0] for p in parts) + ")", " × ".join(p[1] for p in parts)
        if isinstance(n, ast.UnaryOp) and isinstance(n.op, ast.Not):
            e, t = self.expr(n.operand, binds)
            if t == "Bool":
                return f"!({e})", "Bool"
            if t == "Prop":
                return f"¬ ({e})", "Prop"
            raise Unsupported(f"not on {t}")
        if isinstance(n, ast.BoolOp):
            parts = [self.expr(v, binds) for v in n.values]
            if any(len(binds_) for binds_ in []):
                pass
            if all(t == "Prop" for _, t in parts):
                op = " ∨ " if isinstance(n.op, ast.Or) else " ∧ "
                return "(" + op.join(p[0] for p in parts) + ")", "Prop"
            if all(t == "Bool" for _, t in parts):
                op = " || " if isinstance(n.op, ast.Or) else " && "
                return "(" + op.join(p[0] for p in parts) + ")", "Bool"
            raise Unsupported("mixed boolean operands")
        if isinstance(n, ast.Compare) and len(n.ops) == 1:
            op, l, r = n.ops[0], n.left, n.comparators[0]
            if isinstance(op, (ast.Is, ast.IsNot)) and isinstance(r, ast.Constant) and r.value is None:
                e, t = self.expr(l, binds)
                if not t.startswith("Option "):
                    raise Unsupported(f"`is None` on {t}")
                return (f"{e}.isNone" if isinstance(op, ast.Is) else f"{e}.isSome"), "Bool"
            a, ta = self.expr(l, binds)
            b, tb = self.expr(r, binds)
            if isinstance(op, (ast.Eq, ast.NotEq)):
                if tb == f"Option {ta}":
                    a, ta = f"some {a}", tb
                elif ta == f"Option {tb}":
                    b, tb = f"some {b}", ta
                if ta != tb:
                    raise Unsupported(f"comparison of {ta} with {tb}")
                return f"{a} {'==' if isinstance(op, ast.Eq) else '!='} {b}", "Bool"
            sym = {ast.Lt: "<", ast.LtE: "≤", ast.Gt: ">", ast.GtE: "≥"}.get(type(op))
            if sym and ta == tb == "Nat":
                return f"{a} {sym} {b}", "Prop"
            raise Unsupported(f"comparison {ast.unparse(n)}")
        if isinstance(n, ast.BinOp) and isinstance(n.op, ast.Add):
            a, ta = self.expr(n.left, binds)
            b, tb = self.expr(n.right, binds)
            if ta == tb == "Nat":
                return f"{a} + {b}", "Nat"
            raise Unsupported(f"+ on {ta}, {tb}")
        if isinstance(n, ast.IfExp):
            c, tc = self.expr(n.test, binds)
            sub: list[str] = []
            a, ta = self.expr(n.body, sub)
            b, tb = self.expr(n.orelse, sub)
            if sub:
                raise Unsupported("raising operation inside a conditional expression")
            if ta != tb or tc not in ("Bool", "Prop"):
                raise Unsupported("conditional expression types")
            return f"(if {c} then {a} else {b})", ta
        if isinstance(n, ast.Attribute):
            e, t = self.expr(n.value, binds)
            if t == "PyElem" and n.attr in ("ndim", "dtype", "shape"):
                ty = {"ndim": "Nat", "dtype": "Dtype", "shape": "List Nat"}[n.attr]
                self.primitives.add(f"PyDo.{n.attr}")
                return self.bind(binds, f"Geff.PyDo.{n.attr} {e}", ty)
            raise Unsupported(f"attribute .{n.attr} of {t}")
        if isinstance(n, ast.Subscript):
            # prop_dict["values"]
            if (isinstance(n.value, ast.Name) and self.env.get(n.value.id, "").startswith("PropDict")
                    and isinstance(n.slice, ast.Constant) and n.slice.value in ("values", "missing")):
                return f"{camel(n.value.id)}.{n.slice.value}", self.locals[n.slice.value]
            # a.shape[k]
            if (isinstance(n.value, ast.Attribute) and n.value.attr == "shape"
                    and isinstance(n.slice, ast.Constant) and isinstance(n.slice.value, int)):
                e, t = self.expr(n.value.value, binds)
                if t == "NdArr":
                    self.primitives.add("shapeAt")
                    return self.bind(binds, f"shapeAt {e} {n.slice.value}", "Nat")
            # data[offset : offset + np.prod(shape)]  is handled together with .reshape (see Call)
            e, t = self.expr(n.value, binds)
            if t == "NdArr" and not isinstance(n.slice, ast.Slice):
                i, ti = self.expr(n.slice, binds)
                if ti != "Nat":
                    raise Unsupported(f"array index of type {ti}")
                self.primitives.add("getItem")
                return self.bind(binds, f"getItem {e} {i}", "Sub")
            if t == "Sub" and isinstance(n.slice, ast.Constant) and n.slice.value == 0:
                self.primitives.add("Sub.first")
                return self.bind(binds, f"Sub.first {e}", "Val")
            if (t == "Sub" and isinstance(n.slice, ast.Slice) and n.slice.upper is None and n.slice.step is None
                    and isinstance(n.slice.lower, ast.Constant) and n.slice.lower.value == 1):
                self.primitives.add("Sub.rest")
                return self.bind(binds, f"Sub.rest {e}", "List Val")
            raise Unsupported(f"subscript {ast.unparse(n)}")
        if isinstance(n, ast.Call):
            return self.call(n, binds)
        raise Unsupported(f"expression {ast.unparse(n)}")

    def call(self, n, binds):
        f = n.func
        src = ast.unparse(n)
        # isinstance(x, np.ndarray)
        if isinstance(f, ast.Name) and f.id == "isinstance" and len(n.args) == 2 and _is_np(n.args[1], "ndarray"):
            e, t = self.expr(n.args[0], binds)
            if t != "PyElem":
                raise Unsupported(f"isinstance on {t}")
            return f"isNdarray {e}", "Bool"
        if isinstance(f, ast.Name) and f.id == "len" and len(n.args) == 1 and not n.keywords:
            e, t = self.expr(n.args[0], binds)
            if t.startswith("List "):
                return f"{e}.length", "Nat"
            if t == "NdArr":
                self.primitives.add("lenArr")
                return self.bind(binds, f"lenArr {e}", "Nat")
            raise Unsupported(f"len of {t}")
        # x.ravel()
        if isinstance(f, ast.Attribute) and f.attr == "ravel" and not n.args and not n.keywords:
            e, t = self.expr(f.value, binds)
            if t == "PyElem":
                return self.bind(binds, f"ravel {e}", "NdArr")
            raise Unsupported(f"ravel of {t}")
        # np.asarray(<shape>).prod()
        if (isinstance(f, ast.Attribute) and f.attr == "prod" and not n.args and not n.keywords
                and isinstance(f.value, ast.Call) and _is_np(f.value.func, "asarray")
                and len(f.value.args) == 1 and not f.value.keywords):
            e, t = self.expr(f.value.args[0], binds)
            if t == "List Nat":
                return f"shapeProd {e}", "Nat"
            raise Unsupported(f"prod of {t}")
        # np.asarray(rows, dtype=np.uint64)
        if (_is_np(f, "asarray") and len(n.args) == 1 and len(n.keywords) == 1 and n.keywords[0].arg == "dtype"
                and _is_np(n.keywords[0].value, "uint64")):
            e, t = self.expr(n.args[0], binds)
            if t == f"List ({ROW})":
                return f"asarrayU64 {e}", "NdArr"
            raise Unsupported(f"asarray of {t}")
        # np.empty((0, 2), dtype=np.uint64)
        if (_is_np(f, "empty") and len(n.args) == 1 and isinstance(n.args[0], ast.Tuple)
                and all(isinstance(x, ast.Constant) and isinstance(x.value, int) for x in n.args[0].elts)
                and len(n.keywords) == 1 and n.keywords[0].arg == "dtype" and _is_np(n.keywords[0].value, "uint64")):
            dims = [x.value for x in n.args[0].elts]
            if 0 not in dims:
                raise Unsupported("np.empty of a non-empty shape (uninitialised contents)")
            return f"emptyU64 {dims}", "NdArr"
        # np.empty(shape=(len(values),), dtype=np.object_)
        if (_is_np(f, "empty") and not n.args and {k.arg for k in n.keywords} == {"shape", "dtype"}):
            kw = {k.arg: k.value for k in n.keywords}
            if (_is_np(kw["dtype"], "object_") and isinstance(kw["shape"], ast.Tuple) and len(kw["shape"].elts) == 1):
                e, t = self.expr(kw["shape"].elts[0], binds)
                if t == "Nat":
                    return f"emptyObj {e}", "List (Option NdArr)"
            raise Unsupported(src)
        # np.concatenate(data)
        if _is_np(f, "concatenate") and len(n.args) == 1 and not n.keywords:
            e, t = self.expr(n.args[0], binds)
            if t == "List NdArr":
                return f"concatenate {e}", "NdArr"
            raise Unsupported(f"concatenate of {t}")
        # np.array([], dtype="int64")
        if (_is_np(f, "array") and len(n.args) == 1 and isinstance(n.args[0], ast.List) and not n.args[0].elts
                and len(n.keywords) == 1 and n.keywords[0].arg == "dtype" and isinstance(n.keywords[0].value, ast.Constant)):
            d = {"int64": ".i64", "uint64": ".u64", "float64": ".f64"}.get(n.keywords[0].value.value)
            if d:
                return f"emptyArr {d}", "NdArr"
            raise Unsupported(src)
        # data[offset : offset + np.prod(shape)].reshape(shape)
        if (isinstance(f, ast.Attribute) and f.attr == "reshape" and len(n.args) == 1 and not n.keywords
                and isinstance(f.value, ast.Subscript) and isinstance(f.value.slice, ast.Slice)):
            sl = f.value.slice
            up = sl.upper
            if (sl.step is None and sl.lower is not None and isinstance(up, ast.BinOp) and isinstance(up.op, ast.Add)
                    and ast.dump(up.left) == ast.dump(sl.lower)
                    and isinstance(up.right, ast.Call) and _is_np(up.right.func, "prod") and len(up.right.args) == 1
                    and ast.dump(up.right.args[0]) == ast.dump(n.args[0])):
                d, td = self.expr(f.value.value, binds)
                o, to = self.expr(sl.lower, binds)
                s, ts = self.expr(n.args[0], binds)
                if (td, to, ts) == ("NdArr", "Val", "List Val"):
                    self.primitives.add("sliceReshape")
                    return self.bind(binds, f"sliceReshape {d} {o} {s}", "NdArr")
            raise Unsupported(src)
        # a call of another translated function
        if isinstance(f, ast.Name) and f.id in FUNCS and not n.keywords:
            spec = FUNCS[f.id]
            args = [self.expr(a, binds) for a in n.args]
            if [t for _, t in args] != [t for _, t in spec["params"]]:
                raise Unsupported(f"call {src}: argument types {[t for _, t in args]}")
            return self.bind(binds, f"{spec['lean']} " + " ".join(a for a, _ in args), spec["ret"])
        raise Unsupported(f"call {src}")

    # ---------------------------------------------------------------- statements
    def declare(self, name, ty):
        want = self.locals.get(name)
        if want is None:
            # a local that is not in the typing table (e.g. a renamed one): its type is the type of the
            # expression first assigned to it, provided that type is fully known (`[]` / `None` are not)
            if name in self.env:
                want = self.env[name]
            elif "?" in ty or ty in ("", "None"):
                raise Unsupported(f"variable {name} is not in the typing table and its type cannot be inferred")
            else:
                want = ty
        if ty != want and not (ty == "Option ?" and want.startswith("Option ")):
            raise Unsupported(f"variable {name}: expected {want}, got {ty}")
        first = name not in self.env
        self.env[name] = want
        return first, want

    def assign(self, name, value, out, ind):
        binds: list[str] = []
        e, t = self.expr(value, binds, want=self.locals.get(name))
        for b in binds:
            out.append(ind + b)
        if self.locals.get(name) == f"Option {t}":
            e, t = f"some {e}", f"Option {t}"
        first, ty = self.declare(name, t)
        out.append(ind + (f"let mut {camel(name)} : {ty} := {e}" if first else f"{camel(name)} := {e}"))

    def block(self, stmts, out, ind, top=False):
        for k, s in enumerate(stmts):
            if isinstance(s, ast.Expr) and isinstance(s.value, ast.Constant) and isinstance(s.value.value, str):
                continue                                                     # docstring
            if isinstance(s, ast.Assign) and len(s.targets) == 1 and isinstance(s.targets[0], ast.Name):
                self.assign(s.targets[0].id, s.value, out, ind)
            elif (isinstance(s, ast.Assign) and len(s.targets) == 1 and isinstance(s.targets[0], ast.Subscript)
                  and isinstance(s.targets[0].value, ast.Name)):
                # arr[i] = v
                tgt = s.targets[0]
                binds = []
                a, ta = self.expr(tgt.value, binds)
                i, ti = self.expr(tgt.slice, binds)
                v, tv = self.expr(s.value, binds)
                if (ta, ti, tv) != ("List (Option NdArr)", "Nat", "NdArr"):
                    raise Unsupported(f"item assignment {ast.unparse(s)}")
                for b in binds:
                    out.append(ind + b)
                t = self.fresh()
                out.append(ind + f"let {t} ← setItem {a} {i} {v}")
                out.append(ind + f"{a} := {t}")
            elif isinstance(s, ast.AugAssign) and isinstance(s.op, ast.Add) and isinstance(s.target, ast.Name):
                self.assign(s.target.id, ast.BinOp(left=ast.Name(id=s.target.id, ctx=ast.Load()), op=ast.Add(), right=s.value),
                            out, ind)
            elif (isinstance(s, ast.Expr) and isinstance(s.value, ast.Call) and isinstance(s.value.func, ast.Attribute)
                  and s.value.func.attr == "append" and isinstance(s.value.func.value, ast.Name)
                  and len(s.value.args) == 1 and not s.value.keywords):
                name = s.value.func.value.id
                ty = self.env.get(name, "")
                if not ty.startswith("List "):
                    raise Unsupported(f"append on {name} : {ty}")
                binds = []
                e, t = self.expr(s.value.args[0], binds)
                if ty not in (f"List {t}", f"List ({t})"):
                    raise Unsupported(f"append of {t} to {ty}")
                for b in binds:
                    out.append(ind + b)
                out.append(ind + f"{camel(name)} := {camel(name)} ++ [{e}]")
            elif isinstance(s, ast.Raise):
                exc = s.exc.func.id if isinstance(s.exc, ast.Call) and isinstance(s.exc.func, ast.Name) else None
                if exc not in EXC:
                    raise Unsupported(f"raise {ast.unparse(s.exc) if s.exc else ''}")
                out.append(ind + EXC[exc])
            elif isinstance(s, ast.Return):
                binds = []
                e, t = self.expr(s.value, binds)
                if t != self.spec["ret"]:
                    raise Unsupported(f"return type {t}, expected {self.spec['ret']}")
                for b in binds:
                    out.append(ind + b)
                out.append(ind + f"return {e}")
                if not (top and k == len(stmts) - 1):
                    raise Unsupported("return that is not the last statement of the function")
            elif isinstance(s, ast.If):
                self.if_(s, out, ind)
            elif isinstance(s, ast.For) and not s.orelse and isinstance(s.target, ast.Name):
                binds = []
                it = s.iter
                if (isinstance(it, ast.Call) and isinstance(it.func, ast.Name) and it.func.id == "range"
                        and len(it.args) == 1 and not it.keywords):
                    e, t = self.expr(it.args[0], binds)
                    if t != "Nat":
                        raise Unsupported(f"range of {t}")
                    coll, elt = f"List.range {e}", "Nat"
                else:
                    e, t = self.expr(it, binds)
                    if not t.startswith("List "):
                        raise Unsupported(f"iteration over {t}")
                    coll, elt = e, t[5:]
                for b in binds:
                    out.append(ind + b)
                name = s.target.id
                if self.locals.get(name, elt) != elt:
                    raise Unsupported(f"loop variable {name}: {elt}")
                saved = self.env.get(name)
                self.env[name] = elt
                out.append(ind + f"for {camel(name)} in {coll} do")
                self.block(s.body, out, ind + "  ")
                if saved is None:
                    del self.env[name]
            else:
                raise Unsupported(f"statement {type(s).__name__}: {ast.unparse(s)[:60]}")

    def cond(self, test, out, ind):
        """condition of an `if`; `A or B` / `A and B` whose later operands contain operations that can
        raise are evaluated with Python's short circuit: a Boolean accumulator, the later operand is
        computed only when the earlier ones did not decide"""
        if isinstance(test, ast.BoolOp):
            probe: list[str] = []
            saved = self.tmp
            for v in test.values[1:]:
                self.expr(v, probe)
            self.tmp = saved
            if probe:
                is_or = isinstance(test.op, ast.Or)
                acc = f"c{self.fresh()}"
                for k, v in enumerate(test.values):
                    sub: list[str] = []
                    i2 = ind if k == 0 else ind + "  "
                    if k > 0:
                        out.append(ind + (f"if !{acc} then" if is_or else f"if {acc} then"))
                    e, t = self.expr(v, sub)
                    if t not in ("Bool", "Prop"):
                        raise Unsupported(f"condition operand of type {t}")
                    for b in sub:
                        out.append(i2 + b)
                    e = f"decide ({e})" if t == "Prop" else e
                    out.append(i2 + (f"let mut {acc} : Bool := {e}" if k == 0 else f"{acc} := {e}"))
                return acc
        binds: list[str] = []
        c, tc = self.expr(test, binds)
        if tc not in ("Bool", "Prop"):
            raise Unsupported(f"condition of type {tc}")
        for b in binds:
            out.append(ind + b)
        return c

    def if_(self, s, out, ind):
        c = self.cond(s.test, out, ind)
        before = set(self.env)
        out.append(ind + f"if {c} then")
        self.block(s.body, out, ind + "  ")
        then_new = set(self.env) - before
        if s.orelse:
            out.append(ind + "else")
            for v in then_new:
                del self.env[v]
            self.block(s.orelse, out, ind + "  ")
            else_new = set(self.env) - before
            if then_new != else_new:
                raise Unsupported(f"variables first assigned in only one branch: {then_new ^ else_new}")
            if then_new:
                raise Unsupported(f"variables first assigned inside a conditional: {then_new}")
        elif then_new:
            raise Unsupported(f"variables first assigned inside a conditional: {then_new}")


def _predeclare(fn: ast.FunctionDef, tr: Fn, out: list[str]):
    """variables whose first assignment is inside an `if`/`else` (Python scoping) are declared before
    it with the value of the else-branch; recognised only for the shape
    `if c: x = a  else: x = b` at the top level of the function."""
    for s in fn.body:
        if isinstance(s, ast.If) and s.orelse and len(s.body) == 1 and len(s.orelse) == 1:
            a, b = s.body[0], s.orelse[0]
            if (isinstance(a, ast.Assign) and isinstance(b, ast.Assign) and len(a.targets) == 1 and len(b.targets) == 1
                    and isinstance(a.targets[0], ast.Name) and isinstance(b.targets[0], ast.Name)
                    and a.targets[0].id == b.targets[0].id and a.targets[0].id not in tr.spec["locals"].get("__never__", ())):
                name = a.targets[0].id
                yield s, name, b.value


def translate_function(fn: ast.FunctionDef, spec) -> tuple[str, set[str]]:
    tr = Fn(spec)
    if [a.arg for a in fn.args.args] != [p for p, _ in spec["params"]] or fn.args.vararg or fn.args.kwarg or fn.args.kwonlyargs:
        raise Unsupported(f"signature of {fn.name} changed: {[a.arg for a in fn.args.args]}")
    out: list[str] = []
    pre = {id(s): (name, val) for s, name, val in _predeclare(fn, tr, out)}
    body: list[str] = []
    stmts = fn.body
    # emit statement by statement so that a pre-declaration lands directly before its `if`
    for k, s in enumerate(stmts):
        if id(s) in pre and pre[id(s)][0] not in tr.env:
            name, val = pre[id(s)]
            tr.assign(name, val, body, "  ")
        tr.block([s], body, "  ", top=(k == len(stmts) - 1))
    params = " ".join(f"({camel(p)} : {t})" for p, t in spec["params"])
    head = f"def {spec['lean']} {spec['tparams']}{params} : Outcome ({spec['ret']}) := do"
    return "\n".join([head, *body]), tr.primitives


def stub(spec) -> str:
    params = " ".join(f"(_{camel(p)} : {t})" for p, t in spec["params"])
    return f"def {spec['lean']} {spec['tparams']}{params} : Outcome ({spec['ret']}) := .other \"untranslated\""


def run(repo: Path, out: Path):
    errors = {}
    defs = []
    try:
        tree = ast.parse((repo / SRC).read_text())
        fns = {n.name: n for n in tree.body if isinstance(n, ast.FunctionDef)}
    except Exception as e:  # noqa: BLE001
        fns = {}
        errors["parse"] = f"{type(e).__name__}: {e}"
    order = ["serialize_vlen_property_data", "_deserialize_vlen_value", "deserialize_vlen_property_data"]
    for name in order:
        spec = FUNCS[name]
        try:
            if name not in fns:
                raise Unsupported(f"function {name} not found")
            text, _ = translate_function(fns[name], spec)
            defs.append(f"/-- `{name}` ({SRC}:{fns[name].lineno}) -/\n" + text)
        except Unsupported as e:
            errors[name] = str(e)
            defs.append(f"/-- `{name}`: NOT TRANSLATED ({e}) -/\n" + stub(spec))
    ok = not errors
    body = "import GeffModel.PyDo\n" + HEADER
    body += "/-! `geff/core_io/_serialization.py`, statement by statement (translator T12). -/\n"
    body += "namespace Gen.Serialization\nopen Geff.Np Geff.Vlen Geff.PyDo\n\n"
    body += f"def translationOk : Bool := {'true' if ok else 'false'}\n\n"
    body += "\n\n".join(defs) + "\n\nend Gen.Serialization\n"
    write_if_changed(out / "Serialization.lean", body)
    return {"ok": ok, **({"error": "; ".join(f"{k}: {v}" for k, v in errors.items())} if errors else {})}
