"""T11: the dispatch / forwarding layer of the graph backends -> lean/Gen/BackendForwarding.lean.

Sources (parsed with `ast`, nothing is imported): geff/_graph_libs/_api_wrapper.py (`get_backend`,
`get_backend_from_graph_type`, `read`, `construct`, `write`, `SupportedBackend`), _backend_protocol.py
(`Backend.read`), _networkx.py / _rustworkx.py / _spatial_graph.py (`GRAPH_TYPES`, `write`, `construct`,
`graph_adapter`), and the signatures of the callees in core_io/_base_read.py, core_io/_base_write.py,
geff_spec/utils.py.

Recorded:

* `sigs`: every signature involved — positional-or-keyword parameters in order, keyword-only ones,
  defaults (expression text), `*args` / `**kwargs` presence;
* `calls`: every forwarding call, NORMALISED AGAINST THE CALLEE'S SIGNATURE: pairs (callee parameter,
  argument expression text), so a positional call and a keyword call give the same table and a swapped
  positional order shows up as a different pairing; `*x` / `**x` arguments are listed in `star`;
* `backendCases`: the `match backend:` table of `get_backend` (literal -> class instantiated), whether the
  default case raises, the members of the `SupportedBackend` literal, the loop of
  `get_backend_from_graph_type` (isinstance against `GRAPH_TYPES`, `TypeError` otherwise) and each backend's
  `GRAPH_TYPES` tuple and `graph_adapter` class.

Anything outside this subset (a call that is not found exactly once, an unexpected parameter kind, a
`match` case that is not a string literal returning `Class()`) makes `translationOk := false`, which
`GeffProofs/BackendForwarding.lean` requires to be `true`."""
from __future__ import annotations

import ast
from pathlib import Path

from harness.translate import HEADER, lean_str, write_if_changed

NAME = "T11_backend_forwarding"
PROPS = ["C03"]

GL = "packages/geff/src/geff/_graph_libs/"
FILES = {
    "api": GL + "_api_wrapper.py", "proto": GL + "_backend_protocol.py", "nx": GL + "_networkx.py",
    "rx": GL + "_rustworkx.py", "sg": GL + "_spatial_graph.py",
    "read": "packages/geff/src/geff/core_io/_base_read.py", "write": "packages/geff/src/geff/core_io/_base_write.py",
    "utils": "packages/geff-spec/src/geff_spec/utils.py",
}
# signature name -> (file key, class or None, function)
SIGS = {
    "geff.read": ("api", None, "read"), "geff.construct": ("api", None, "construct"), "geff.write": ("api", None, "write"),
    "Backend.read": ("proto", "Backend", "read"), "Backend.write": ("proto", "Backend", "write"),
    "Backend.construct": ("proto", "Backend", "construct"),
    "NxBackend.write": ("nx", "NxBackend", "write"), "RxBackend.write": ("rx", "RxBackend", "write"),
    "SgBackend.write": ("sg", "SgBackend", "write"),
    "NxBackend.construct": ("nx", "NxBackend", "construct"), "RxBackend.construct": ("rx", "RxBackend", "construct"),
    "SgBackend.construct": ("sg", "SgBackend", "construct"),
    "read_to_memory": ("read", None, "read_to_memory"), "write_dicts": ("write", None, "write_dicts"),
    "write_arrays": ("write", None, "write_arrays"),
    "create_or_update_metadata": ("utils", None, "create_or_update_metadata"),
    "update_metadata_axes": ("utils", None, "update_metadata_axes"), "axes_from_lists": ("utils", None, "axes_from_lists"),
}
# (caller signature, call expression text, callee signature)
CALLS = [
    ("geff.read", "backend_io.read", "Backend.read"),
    ("Backend.read", "read_to_memory", "read_to_memory"),
    ("Backend.read", "cls.construct", "Backend.construct"),
    ("geff.construct", "backend_io.construct", "Backend.construct"),
    ("geff.write", "backend_io.write", "Backend.write"),
    ("NxBackend.write", "write_dicts", "write_dicts"),
    ("NxBackend.write", "create_or_update_metadata", "create_or_update_metadata"),
    ("NxBackend.write", "update_metadata_axes", "update_metadata_axes"),
    ("RxBackend.write", "write_dicts", "write_dicts"),
    ("RxBackend.write", "create_or_update_metadata", "create_or_update_metadata"),
    ("RxBackend.write", "update_metadata_axes", "update_metadata_axes"),
    ("SgBackend.write", "write_arrays", "write_arrays"),
    ("SgBackend.write", "create_or_update_metadata", "create_or_update_metadata"),
    ("SgBackend.write", "axes_from_lists", "axes_from_lists"),
]


class Unsupported(ValueError):
    pass


def _find_fn(tree, cls, name):
    """the LAST definition of that name (the implementation after its @overload stubs)"""
    body = tree.body
    if cls is not None:
        cs = [n for n in tree.body if isinstance(n, ast.ClassDef) and n.name == cls]
        if len(cs) != 1:
            raise Unsupported(f"class {cls} not found exactly once")
        body = cs[0].body
    fs = [n for n in body if isinstance(n, ast.FunctionDef) and n.name == name
          and not any(isinstance(d, ast.Name) and d.id == "overload" for d in n.decorator_list)]
    if len(fs) != 1:
        raise Unsupported(f"function {cls}.{name}: {len(fs)} non-overload definitions")
    return fs[0]


def _sig(fn):
    a = fn.args
    if a.posonlyargs:
        raise Unsupported(f"{fn.name}: positional-only parameters")
    names = [x.arg for x in a.args]
    defaults = [None] * (len(names) - len(a.defaults)) + list(a.defaults)
    skip = 1 if names and names[0] in ("self", "cls") else 0
    ds = [(n, ast.unparse(d)) for n, d in zip(names, defaults) if d is not None]
    ds += [(x.arg, ast.unparse(d)) for x, d in zip(a.kwonlyargs, a.kw_defaults) if d is not None]
    return {"params": names[skip:], "kwonly": [x.arg for x in a.kwonlyargs], "defaults": ds,
            "vararg": a.vararg.arg if a.vararg else None, "kwarg": a.kwarg.arg if a.kwarg else None}


def _call(fn, text, callee_params, caller):
    calls = [n for n in ast.walk(fn) if isinstance(n, ast.Call) and ast.unparse(n.func) == text]
    if len(calls) != 1:
        raise Unsupported(f"{caller}: expected exactly one call of {text}, found {len(calls)}")
    c = calls[0]
    pairs, star, pos = [], [], 0
    for a in c.args:
        if isinstance(a, ast.Starred):
            star.append("*" + ast.unparse(a.value))
            continue
        if star:
            raise Unsupported(f"{caller}: positional argument after *args in the call of {text}")
        if pos >= len(callee_params):
            raise Unsupported(f"{caller}: too many positional arguments for {text}")
        pairs.append((callee_params[pos], ast.unparse(a)))
        pos += 1
    for kw in c.keywords:
        if kw.arg is None:
            star.append("**" + ast.unparse(kw.value))
        else:
            pairs.append((kw.arg, ast.unparse(kw.value)))
    return pairs, star


def _dispatch(tree):
    fn = _find_fn(tree, None, "get_backend")
    m = [n for n in fn.body if isinstance(n, ast.Match)]
    if len(m) != 1 or ast.unparse(m[0].subject) != "backend":
        raise Unsupported("get_backend: expected one `match backend:`")
    cases, default_raises = [], None
    for case in m[0].cases:
        if isinstance(case.pattern, ast.MatchValue) and isinstance(case.pattern.value, ast.Constant) \
                and isinstance(case.pattern.value.value, str) and case.guard is None:
            rets = [n for n in case.body if isinstance(n, ast.Return)]
            if len(rets) != 1 or not (isinstance(rets[0].value, ast.Call) and isinstance(rets[0].value.func, ast.Name)
                                      and not rets[0].value.args and not rets[0].value.keywords):
                raise Unsupported("get_backend: a case does not `return Class()`")
            cases.append((case.pattern.value.value, rets[0].value.func.id))
        elif isinstance(case.pattern, ast.MatchAs) and case.pattern.pattern is None and case.guard is None:
            default_raises = ast.unparse(case.body[0].exc.func) if len(case.body) == 1 and isinstance(case.body[0], ast.Raise) \
                and isinstance(case.body[0].exc, ast.Call) else "no-raise"
        else:
            raise Unsupported("get_backend: unsupported case pattern")
    lits = None
    for n in tree.body:
        if isinstance(n, ast.Assign) and len(n.targets) == 1 and ast.unparse(n.targets[0]) == "SupportedBackend":
            v = n.value
            if isinstance(v, ast.Subscript) and ast.unparse(v.value) == "Literal":
                elts = v.slice.elts if isinstance(v.slice, ast.Tuple) else [v.slice]
                lits = [e.value for e in elts if isinstance(e, ast.Constant)]
    if lits is None:
        raise Unsupported("SupportedBackend literal not found")
    # get_backend_from_graph_type: for m in AVAILABLE_BACKENDS: if isinstance(graph, m.GRAPH_TYPES): return m; raise TypeError
    fn2 = _find_fn(tree, None, "get_backend_from_graph_type")
    body = [n for n in fn2.body if not (isinstance(n, ast.Expr) and isinstance(n.value, ast.Constant))]
    ok = (len(body) == 2 and isinstance(body[0], ast.For) and ast.unparse(body[0].iter) == "AVAILABLE_BACKENDS"
          and len(body[0].body) == 1 and isinstance(body[0].body[0], ast.If)
          and ast.unparse(body[0].body[0].test) == f"isinstance(graph, {ast.unparse(body[0].target)}.GRAPH_TYPES)"
          and len(body[0].body[0].body) == 1 and isinstance(body[0].body[0].body[0], ast.Return)
          and ast.unparse(body[0].body[0].body[0].value) == ast.unparse(body[0].target) and not body[0].body[0].orelse
          and isinstance(body[1], ast.Raise) and isinstance(body[1].exc, ast.Call))
    if not ok:
        raise Unsupported("get_backend_from_graph_type: not the isinstance loop over AVAILABLE_BACKENDS")
    from_type_raises = ast.unparse(body[1].exc.func)
    # _import_available_backends: for backend in get_args(SupportedBackend): AVAILABLE_BACKENDS.append(get_backend(backend))
    fn3 = _find_fn(tree, None, "_import_available_backends")
    appends = [n for n in ast.walk(fn3) if isinstance(n, ast.Call) and ast.unparse(n.func) == "AVAILABLE_BACKENDS.append"]
    if len(appends) != 1 or ast.unparse(appends[0].args[0]) != "get_backend(backend)":
        raise Unsupported("_import_available_backends: unexpected body")
    return cases, default_raises or "no-default", lits, from_type_raises


def _backend_class(tree, cls):
    cs = [n for n in tree.body if isinstance(n, ast.ClassDef) and n.name == cls]
    if len(cs) != 1:
        raise Unsupported(f"class {cls} not found")
    gt = _find_fn(tree, cls, "GRAPH_TYPES")
    rets = [n for n in gt.body if isinstance(n, ast.Return)]
    if len(rets) != 1 or not isinstance(rets[0].value, ast.Tuple):
        raise Unsupported(f"{cls}.GRAPH_TYPES does not return a tuple")
    ga = _find_fn(tree, cls, "graph_adapter")
    rets2 = [n for n in ga.body if isinstance(n, ast.Return)]
    if len(rets2) != 1 or not (isinstance(rets2[0].value, ast.Call) and isinstance(rets2[0].value.func, ast.Name)
                               and [ast.unparse(a) for a in rets2[0].value.args] == ["graph"]):
        raise Unsupported(f"{cls}.graph_adapter does not `return Adapter(graph)`")
    return [ast.unparse(e) for e in rets[0].value.elts], rets2[0].value.func.id


def _strs(l):
    return "[" + ", ".join(lean_str(x) for x in l) + "]"


def _pairs(l):
    return "[" + ", ".join(f"({lean_str(a)}, {lean_str(b)})" for a, b in l) + "]"


def run(repo: Path, out: Path):
    err = None
    sigs, calls, disp, classes = {}, [], ([], "untranslated", [], "untranslated"), []
    try:
        trees = {k: ast.parse((repo / p).read_text()) for k, p in FILES.items()}
        fns = {}
        for name, (fk, cls, fn) in SIGS.items():
            fns[name] = _find_fn(trees[fk], cls, fn)
            sigs[name] = _sig(fns[name])
        for caller, text, callee in CALLS:
            pairs, star = _call(fns[caller], text, sigs[callee]["params"], caller)
            calls.append((caller, callee, pairs, star))
        disp = _dispatch(trees["api"])
        for fk, cls in (("nx", "NxBackend"), ("rx", "RxBackend"), ("sg", "SgBackend")):
            gts, adapter = _backend_class(trees[fk], cls)
            classes.append((cls, gts, adapter))
    except Exception as e:  # noqa: BLE001
        err = f"{type(e).__name__}: {e}"
    body = HEADER.replace("harness/translate.py", "harness/translators/t11_backend_forwarding.py")
    body += "namespace Gen.BackendForwarding\n"
    body += ("structure Sig where\n  name : String\n  params : List String\n  kwonly : List String\n"
             "  defaults : List (String × String)\n  vararg : Option String\n  kwarg : Option String\n  deriving DecidableEq, Repr\n")
    body += ("structure Call where\n  caller : String\n  callee : String\n  /-- (callee parameter, argument expression) -/\n"
             "  pairs : List (String × String)\n  /-- `*x` / `**x` arguments -/\n  star : List String\n  deriving DecidableEq, Repr\n")
    body += ("structure BackendClass where\n  cls : String\n  graphTypes : List String\n  adapter : String\n  deriving DecidableEq, Repr\n")
    body += f"def translationOk : Bool := {'true' if err is None else 'false'}\n"
    opt = lambda x: "none" if x is None else f"(some {lean_str(x)})"  # noqa: E731
    body += "def sigs : List Sig := [\n" + ",\n".join(
        f"  ⟨{lean_str(n)}, {_strs(s['params'])}, {_strs(s['kwonly'])}, {_pairs(s['defaults'])}, {opt(s['vararg'])}, {opt(s['kwarg'])}⟩"
        for n, s in (sigs.items() if err is None else [])) + "]\n"
    body += "def calls : List Call := [\n" + ",\n".join(
        f"  ⟨{lean_str(a)}, {lean_str(b)}, {_pairs(p)}, {_strs(st)}⟩" for a, b, p, st in (calls if err is None else [])) + "]\n"
    body += f"/-- `match backend:` of `get_backend`: literal -> class instantiated -/\ndef backendCases : List (String × String) := {_pairs(disp[0] if err is None else [])}\n"
    body += f"def backendDefault : String := {lean_str(disp[1])}\n"
    body += f"/-- members of the `SupportedBackend` literal -/\ndef supportedBackends : List String := {_strs(disp[2] if err is None else [])}\n"
    body += f"/-- what `get_backend_from_graph_type` raises after the isinstance loop over `AVAILABLE_BACKENDS` -/\ndef fromGraphTypeRaises : String := {lean_str(disp[3])}\n"
    body += "def backendClasses : List BackendClass := [" + ", ".join(
        f"⟨{lean_str(c)}, {_strs(g)}, {lean_str(a)}⟩" for c, g, a in (classes if err is None else [])) + "]\n"
    body += "end Gen.BackendForwarding\n"
    write_if_changed(out / "BackendForwarding.lean", body)
    return {"ok": err is None, **({"error": err} if err else {}), "calls": len(calls), "sigs": len(sigs)}
