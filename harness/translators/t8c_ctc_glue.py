"""T8c: the *glue* literals of geff/convert/_ctc.py::from_ctc_to_geff -> lean/Gen/CtcGlue.lean.

Extracted with `ast` (the file is parsed, never imported); everything the deepened C15 models
(`GeffModel/CtcDir.lean`, `CtcTable.lean`, `CtcSeg.lean`, `CtcMeta.lean`) hard-code about the converter's
handling of the directory, the track-table file, the segmentation target and the metadata:

* the candidate list of `for tracks_file in [...]` (strings and code points), that the loop breaks on
  `.exists()` and its `else:` raises;
* `sorted_files = sorted(ctc_path.glob(<pattern>))` — the pattern, that `sorted` has no `key=`/`reverse=`,
  and that the frame loop is `for t, filepath in enumerate(sorted_files)` without a start;
* `Path(geff_path).with_suffix(<suffix>)`;
* the `np.loadtxt(tracks_file_path, …)` keywords (sorted, unparsed);
* the exception classes of the `raise` statements in source order;
* `zarr.open_array(…)`: unparsed `shape`, `chunks`, `dtype`, `mode` expressions, the padding expression
  `n_1_padding = …`, `expand_dims = …` and the store statement `segm_array[t] = frame[expand_dims]`;
* `os.path.relpath(<a>, <b>)` argument names, the attribute read from a store object, the classes of the
  `isinstance` test that selects the path branch;
* the keywords of `GeffMetadata(…)` (unparsed values) and of `write_arrays(…)` (names).

A construct that cannot be found makes the translation fail (`translationOk := false`), which
`GeffProps.C15Glue.gen_ctc_glue_current` requires to be `true`.  Consumer: C15."""
from __future__ import annotations

import ast
from pathlib import Path

from harness.translate import HEADER, lean_str, write_if_changed

NAME = "T8c_ctc_glue"
PROPS = ["C15"]

CTC = "packages/geff/src/geff/convert/_ctc.py"


class Unsupported(ValueError):
    pass


def _func(tree, name):
    for n in ast.walk(tree):
        if isinstance(n, ast.FunctionDef) and n.name == name:
            return n
    raise Unsupported(f"function {name} not found")


def _callname(c):
    return ast.unparse(c.func) if isinstance(c, ast.Call) else None


def extract(tree):
    f = _func(tree, "from_ctc_to_geff")
    out: dict = {}
    raises = []
    for n in ast.walk(f):
        # --- track file candidates: for tracks_file in [..]: ... if X.exists(): break / else: raise
        if isinstance(n, ast.For) and isinstance(n.target, ast.Name) and n.target.id == "tracks_file":
            if not isinstance(n.iter, ast.List) or not all(isinstance(e, ast.Constant) and isinstance(e.value, str) for e in n.iter.elts):
                raise Unsupported("track file candidates are not a list of string literals")
            out["trackFiles"] = [e.value for e in n.iter.elts]
            ifs = [s for s in n.body if isinstance(s, ast.If)]
            ok = (len(ifs) == 1 and ast.unparse(ifs[0].test) == "tracks_file_path.exists()"
                  and len(ifs[0].body) == 1 and isinstance(ifs[0].body[0], ast.Break) and not ifs[0].orelse
                  and len(n.orelse) == 1 and isinstance(n.orelse[0], ast.Raise)
                  and any(isinstance(s, ast.Assign) and ast.unparse(s) == "tracks_file_path = ctc_path / tracks_file" for s in n.body))
            out["trackLoopShape"] = bool(ok)
        # --- frame loop
        if isinstance(n, ast.For) and ast.unparse(n.iter).startswith("enumerate("):
            out["frameLoop"] = f"for {ast.unparse(n.target)} in {ast.unparse(n.iter)}"
        if isinstance(n, ast.Assign) and len(n.targets) == 1:
            t, v = ast.unparse(n.targets[0]), n.value
            if t == "sorted_files":
                if not (isinstance(v, ast.Call) and _callname(v) == "sorted" and len(v.args) == 1 and not v.keywords
                        and isinstance(v.args[0], ast.Call) and _callname(v.args[0]) == "ctc_path.glob"
                        and len(v.args[0].args) == 1 and isinstance(v.args[0].args[0], ast.Constant)):
                    raise Unsupported(f"sorted_files = {ast.unparse(v)}")
                out["globPattern"] = v.args[0].args[0].value
            if t == "geff_path" and isinstance(v, ast.Call) and isinstance(v.func, ast.Attribute) and v.func.attr == "with_suffix":
                out["geffSuffix"] = v.args[0].value
                out["geffSuffixReceiver"] = ast.unparse(v.func.value)
            if t == "tracks_table" and isinstance(v, ast.Call) and _callname(v) == "np.loadtxt":
                out["loadtxtArgs"] = [ast.unparse(a) for a in v.args]
                out["loadtxtKw"] = sorted((k.arg, ast.unparse(k.value)) for k in v.keywords)
            if t == "n_1_padding":
                out["padExpr"] = ast.unparse(v)
            if t == "expand_dims":
                out["expandExpr"] = ast.unparse(v)
            if t == "segm_array" and isinstance(v, ast.Call) and _callname(v) == "zarr.open_array":
                out["openArrayArgs"] = [ast.unparse(a) for a in v.args]
                out["openArrayKw"] = sorted((k.arg, ast.unparse(k.value)) for k in v.keywords)
            if t == "segm_array[t]":
                out["segStore"] = ast.unparse(n)
            if t == "rel_path" and isinstance(v, ast.Call) and _callname(v) == "os.path.relpath":
                out["relpathArgs"] = [ast.unparse(a) for a in v.args]
            if t == "seg_path" and isinstance(v, ast.Attribute) and ast.unparse(v.value) == "segmentation_store":
                out.setdefault("storeAttrs", []).append(v.attr)
            if t == "rel_objs" and isinstance(v, ast.List):
                out["relObjs"] = ast.unparse(v)
        if isinstance(n, ast.AnnAssign) and n.value is not None:
            t = ast.unparse(n.target)
            if t == "n_1_padding":
                out["padInit"] = ast.unparse(n.value)
            if t == "expand_dims":
                out["expandInit"] = ast.unparse(n.value)
        if isinstance(n, ast.If) and "isinstance(segmentation_store" in ast.unparse(n.test):
            cls = set()
            for c in ast.walk(n.test):
                if isinstance(c, ast.Call) and _callname(c) == "isinstance" and ast.unparse(c.args[0]) == "segmentation_store":
                    cls |= {x.id for x in ast.walk(c.args[1]) if isinstance(x, ast.Name)}
            if not all(isinstance(x, (ast.BoolOp, ast.Or, ast.Call, ast.Name, ast.Tuple, ast.Load)) for x in ast.walk(n.test)):
                raise Unsupported(f"path branch test: {ast.unparse(n.test)}")
            out["pathBranchTest"] = sorted(cls)
        if isinstance(n, ast.Call) and _callname(n) == "GeffMetadata":
            out["metaKw"] = [(k.arg, ast.unparse(k.value)) for k in n.keywords]
        if isinstance(n, ast.Call) and _callname(n) == "write_arrays":
            out["writeArraysKw"] = [k.arg for k in n.keywords]
    # raises in source order
    for n in sorted((x for x in ast.walk(f) if isinstance(x, ast.Raise)), key=lambda x: x.lineno):
        raises.append(_callname(n.exc) or ast.unparse(n.exc))
    out["raises"] = raises
    need = ["trackFiles", "trackLoopShape", "frameLoop", "globPattern", "geffSuffix", "geffSuffixReceiver", "loadtxtArgs",
            "loadtxtKw", "padExpr", "padInit", "expandExpr", "expandInit", "openArrayArgs", "openArrayKw", "segStore",
            "relpathArgs", "storeAttrs", "relObjs", "pathBranchTest", "metaKw", "writeArraysKw"]
    missing = [k for k in need if k not in out]
    if missing:
        raise Unsupported(f"_ctc.py: not found: {missing}")
    return out


def _strs(xs):
    return "[" + ", ".join(lean_str(str(x)) for x in xs) + "]"


def _pairs(xs):
    return "[" + ", ".join(f"({lean_str(str(a))}, {lean_str(str(b))})" for a, b in xs) + "]"


def _codes(s):
    return "[" + ", ".join(str(ord(ch)) for ch in s) + "]"


def run(repo: Path, out: Path):
    err = None
    c = {}
    try:
        c = extract(ast.parse((repo / CTC).read_text()))
    except Exception as e:  # noqa: BLE001
        err = f"{type(e).__name__}: {e}"
        c = {}
    b = HEADER + "namespace Gen.CtcGlue\n"
    b += f"def translationOk : Bool := {'true' if err is None else 'false'}\n"
    tf = c.get("trackFiles", [])
    b += f"def trackFiles : List String := {_strs(tf)}\n"
    b += "/-- the candidates as code-point lists -/\n"
    b += "def trackFileCodes : List (List Nat) := [" + ", ".join(_codes(s) for s in tf) + "]\n"
    b += f"def trackLoopShape : Bool := {'true' if c.get('trackLoopShape') else 'false'}\n"
    b += f"def frameLoop : String := {lean_str(c.get('frameLoop', ''))}\n"
    gp = c.get("globPattern", "")
    b += f"def globPattern : String := {lean_str(gp)}\n"
    b += f"def globPatternCodes : List Nat := {_codes(gp)}\n"
    b += f"def geffSuffix : String := {lean_str(c.get('geffSuffix', ''))}\n"
    b += f"def geffSuffixCodes : List Nat := {_codes(c.get('geffSuffix', ''))}\n"
    b += f"def geffSuffixReceiver : String := {lean_str(c.get('geffSuffixReceiver', ''))}\n"
    b += f"def loadtxtArgs : List String := {_strs(c.get('loadtxtArgs', []))}\n"
    b += f"def loadtxtKw : List (String × String) := {_pairs(c.get('loadtxtKw', []))}\n"
    b += f"def raises : List String := {_strs(c.get('raises', []))}\n"
    b += f"def padInit : String := {lean_str(c.get('padInit', ''))}\n"
    b += f"def padExpr : String := {lean_str(c.get('padExpr', ''))}\n"
    b += f"def expandInit : String := {lean_str(c.get('expandInit', ''))}\n"
    b += f"def expandExpr : String := {lean_str(c.get('expandExpr', ''))}\n"
    b += f"def openArrayArgs : List String := {_strs(c.get('openArrayArgs', []))}\n"
    b += f"def openArrayKw : List (String × String) := {_pairs(c.get('openArrayKw', []))}\n"
    b += f"def segStore : String := {lean_str(c.get('segStore', ''))}\n"
    b += f"def relpathArgs : List String := {_strs(c.get('relpathArgs', []))}\n"
    b += f"def storeAttrs : List String := {_strs(c.get('storeAttrs', []))}\n"
    b += f"def relObjs : String := {lean_str(c.get('relObjs', ''))}\n"
    b += f"/-- classes of the `isinstance(segmentation_store, …)` disjunction selecting the path branch -/\ndef pathBranchClasses : List String := {_strs(c.get('pathBranchTest', []))}\n"
    b += f"def metaKw : List (String × String) := {_pairs(c.get('metaKw', []))}\n"
    b += f"def writeArraysKw : List String := {_strs(c.get('writeArraysKw', []))}\n"
    b += "end Gen.CtcGlue\n"
    write_if_changed(out / "CtcGlue.lean", b)
    return {"ok": err is None, **({"error": err} if err else {}), "glue": c}
