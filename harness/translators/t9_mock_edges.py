"""T9 — the integer-only edge loops of `create_dummy_in_mem_geff` -> lean/Gen/MockEdges.lean.

What is translated: inside `geff.testing.data.create_dummy_in_mem_geff`, the statement
`edges = np.array(<L>, dtype=node_id_dtype)` names the Python list `<L>` that becomes the edge
array.  The *maximal run of top-level statements immediately before it that lies inside the
supported subset* is the slice; it has to be closed over the three parameters
`directed : bool`, `num_nodes : int`, `num_edges : int` and has to assign `<L>` definitely.

Supported subset (anything else => `translationOk := false`, reported, never skipped silently):
  statements   x = e | x: T = e | x += e | x -= e | L.append([a, b]) | S.add(p) |
               for v in range(a[, b]): … (no else) | if c: … [else: …] | break | pass
  int exprs    literals, names, + - * // %, unary -, min/max (2+ args), len(L|S), int(e), a if c else b
  bool exprs   `directed`, True/False, comparisons (< <= > >= == != on ints; == != on pairs;
               in / not in a set or list of pairs), and / or / not
  pair exprs   (a, b) | [a, b] | names;  containers: [] | set()

Semantics kept: Python ints are unbounded => Lean `Int` everywhere (never truncated `Nat`);
`range` => `Geff.Py.range`; loops => `List.foldl` over the variables the body assigns (loop
variables are lambda-bound and may not be used outside their loop — refused otherwise);
`break` => a flag in the loop state that turns the remaining iterations into no-ops and skips the rest
of the body; `//` and `%` by a positive literal => Lean `/`, `%` on `Int` (identical there,
`Geff.Py.floordiv_pos`), by anything else => guarded: a zero divisor sets the flag `exc_`, which
skips everything that follows, and the function returns `Except.error "ZeroDivisionError"` — the
exception is an explicit outcome, not totalised.  A variable that may be unbound when read
(Python: UnboundLocalError) is refused by a definite-assignment check, so the defaults that
initialise fold states are never observable.

Output: `Gen.MockEdges.gen : Bool → Int → Int → Except String (List (Int × Int))`.
"""
from __future__ import annotations

import ast
from pathlib import Path

NAME = "T9_mock_edges"
PROPS = ["C20"]
SRC = "packages/geff/src/geff/testing/data.py"
FUNC = "create_dummy_in_mem_geff"
PARAMS = {"directed": "bool", "num_nodes": "int", "num_edges": "int"}
LTYPE = {"int": "Int", "bool": "Bool", "pair": "(Int × Int)", "list": "List (Int × Int)", "set": "List (Int × Int)"}
DEFAULT = {"int": "(0 : Int)", "bool": "false", "pair": "((0 : Int), (0 : Int))",
           "list": "([] : List (Int × Int))", "set": "([] : List (Int × Int))"}


class Unsupported(Exception):
    pass


def _where(n):
    return f"line {getattr(n, 'lineno', '?')}"


# ------------------------------------------------------------------ which statements are in the subset
def _is_call(n, name):
    return isinstance(n, ast.Call) and isinstance(n.func, ast.Name) and n.func.id == name and not n.keywords


def _stmt_in_subset(s) -> bool:
    try:
        _check_stmt(s)
        return True
    except Unsupported:
        return False


def _check_expr(e):
    if isinstance(e, ast.Constant):
        if isinstance(e.value, (bool, int)):
            return
        raise Unsupported(f"constant {e.value!r} {_where(e)}")
    if isinstance(e, ast.Name):
        return
    if isinstance(e, ast.BinOp) and isinstance(e.op, (ast.Add, ast.Sub, ast.Mult, ast.FloorDiv, ast.Mod)):
        _check_expr(e.left), _check_expr(e.right)
        return
    if isinstance(e, ast.UnaryOp) and isinstance(e.op, (ast.USub, ast.Not)):
        _check_expr(e.operand)
        return
    if isinstance(e, ast.BoolOp):
        for v in e.values:
            _check_expr(v)
        return
    if isinstance(e, ast.Compare) and len(e.ops) == 1 and isinstance(
            e.ops[0], (ast.Lt, ast.LtE, ast.Gt, ast.GtE, ast.Eq, ast.NotEq, ast.In, ast.NotIn)):
        _check_expr(e.left), _check_expr(e.comparators[0])
        return
    if isinstance(e, ast.IfExp):
        _check_expr(e.test), _check_expr(e.body), _check_expr(e.orelse)
        return
    if isinstance(e, (ast.Tuple, ast.List)):
        if len(e.elts) in (0, 2):
            for v in e.elts:
                _check_expr(v)
            return
        raise Unsupported(f"sequence of length {len(e.elts)} {_where(e)}")
    if isinstance(e, ast.Call) and isinstance(e.func, ast.Name) and not e.keywords:
        f, k = e.func.id, len(e.args)
        if (f in ("min", "max") and k >= 2) or (f in ("len", "int") and k == 1) or (f == "set" and k == 0):
            for a in e.args:
                _check_expr(a)
            return
    raise Unsupported(f"expression {ast.dump(e)[:80]} {_where(e)}")


def _check_stmt(s):
    if isinstance(s, ast.Assign) and len(s.targets) == 1 and isinstance(s.targets[0], ast.Name):
        _check_expr(s.value)
    elif isinstance(s, ast.AnnAssign) and isinstance(s.target, ast.Name) and s.value is not None:
        _check_expr(s.value)
    elif isinstance(s, ast.AugAssign) and isinstance(s.target, ast.Name) and isinstance(s.op, (ast.Add, ast.Sub)):
        _check_expr(s.value)
    elif (isinstance(s, ast.Expr) and isinstance(s.value, ast.Call) and isinstance(s.value.func, ast.Attribute)
          and isinstance(s.value.func.value, ast.Name) and s.value.func.attr in ("append", "add")
          and len(s.value.args) == 1 and not s.value.keywords):
        _check_expr(s.value.args[0])
    elif isinstance(s, ast.For) and isinstance(s.target, ast.Name) and not s.orelse and _is_call(s.iter, "range") \
            and len(s.iter.args) in (1, 2):
        for a in s.iter.args:
            _check_expr(a)
        for b in s.body:
            _check_stmt(b)
    elif isinstance(s, ast.If):
        _check_expr(s.test)
        for b in s.body + s.orelse:
            _check_stmt(b)
    elif isinstance(s, (ast.Break, ast.Pass)):
        pass
    else:
        raise Unsupported(f"statement {type(s).__name__} {_where(s)}")


# ------------------------------------------------------------------ analysis helpers
def _target(s):
    """name a simple statement assigns, or None"""
    if isinstance(s, ast.Assign):
        return s.targets[0].id
    if isinstance(s, (ast.AnnAssign, ast.AugAssign)):
        return s.target.id
    if isinstance(s, ast.Expr):
        return s.value.func.value.id
    return None


def _assigned(stmts, fortargets) -> list[str]:
    out: list[str] = []

    def add(x):
        if x not in out and x not in fortargets:
            out.append(x)

    def go(ss):
        for s in ss:
            t = _target(s)
            if t is not None:
                add(t)
            elif isinstance(s, ast.For):
                go(s.body)
            elif isinstance(s, ast.If):
                go(s.body), go(s.orelse)
    go(stmts)
    return out


def _may_break(stmts) -> bool:
    for s in stmts:
        if isinstance(s, ast.Break):
            return True
        if isinstance(s, ast.If) and (_may_break(s.body) or _may_break(s.orelse)):
            return True
    return False


def _divisors(e) -> list:
    """divisor sub-expressions of e that are not positive literals (evaluation can raise)"""
    out = []
    for n in ast.walk(e):
        if isinstance(n, ast.BinOp) and isinstance(n.op, (ast.FloorDiv, ast.Mod)):
            r = n.right
            if not (isinstance(r, ast.Constant) and type(r.value) is int and r.value > 0):
                out.append(r)
    return out


def _guarded_positions_ok(e):
    """fallible operations may not sit under a short-circuit (and/or/if-else): evaluation order"""
    for n in ast.walk(e):
        if isinstance(n, ast.BoolOp):
            for v in n.values[1:]:
                if _divisors(v):
                    raise Unsupported(f"division under short-circuit {_where(v)}")
        if isinstance(n, ast.IfExp):
            if _divisors(n.body) or _divisors(n.orelse):
                raise Unsupported(f"division under conditional expression {_where(n)}")


def _head_exprs(s):
    if isinstance(s, (ast.Assign, ast.AnnAssign, ast.AugAssign)):
        return [s.value]
    if isinstance(s, ast.Expr):
        return list(s.value.args)
    if isinstance(s, ast.For):
        return list(s.iter.args)
    if isinstance(s, ast.If):
        return [s.test]
    return []


def _fallible(stmts) -> bool:
    for s in stmts:
        if any(_divisors(e) for e in _head_exprs(s)):
            return True
        if isinstance(s, ast.For) and _fallible(s.body):
            return True
        if isinstance(s, ast.If) and (_fallible(s.body) or _fallible(s.orelse)):
            return True
    return False


class Tr:
    def __init__(self, slice_, result):
        self.slice = slice_
        self.result = result
        self.types: dict[str, str] = dict(PARAMS)
        self.fortargets: set[str] = set()
        for s in slice_:
            for n in ast.walk(s):
                if isinstance(n, ast.For):
                    self.fortargets.add(n.target.id)
        for v in self.fortargets:
            if v in PARAMS:
                raise Unsupported(f"loop variable shadows parameter {v}")
            self.types[v] = "int"
        self._infer(slice_)
        self._loopvar_discipline()
        self._definite(slice_, set(PARAMS))
        self.fallible = _fallible(slice_)

    # ---- types
    def ty(self, e) -> str:
        if isinstance(e, ast.Constant):
            return "bool" if isinstance(e.value, bool) else "int"
        if isinstance(e, ast.Name):
            if e.id not in self.types:
                raise Unsupported(f"name {e.id} has no known type {_where(e)}")
            return self.types[e.id]
        if isinstance(e, ast.BinOp):
            if self.ty(e.left) != "int" or self.ty(e.right) != "int":
                raise Unsupported(f"arithmetic on non-int {_where(e)}")
            return "int"
        if isinstance(e, ast.UnaryOp):
            want = "int" if isinstance(e.op, ast.USub) else "bool"
            if self.ty(e.operand) != want:
                raise Unsupported(f"unary operand type {_where(e)}")
            return want
        if isinstance(e, ast.BoolOp):
            if any(self.ty(v) != "bool" for v in e.values):
                raise Unsupported(f"and/or on non-bool {_where(e)}")
            return "bool"
        if isinstance(e, ast.Compare):
            a, b, op = self.ty(e.left), self.ty(e.comparators[0]), e.ops[0]
            if isinstance(op, (ast.In, ast.NotIn)):
                if a != "pair" or b not in ("set", "list"):
                    raise Unsupported(f"membership types {a} in {b} {_where(e)}")
            elif isinstance(op, (ast.Eq, ast.NotEq)):
                if a != b or a not in ("int", "pair", "bool"):
                    raise Unsupported(f"equality types {a},{b} {_where(e)}")
            elif a != "int" or b != "int":
                raise Unsupported(f"order comparison on {a},{b} {_where(e)}")
            return "bool"
        if isinstance(e, ast.IfExp):
            if self.ty(e.test) != "bool" or self.ty(e.body) != self.ty(e.orelse):
                raise Unsupported(f"conditional expression types {_where(e)}")
            return self.ty(e.body)
        if isinstance(e, (ast.Tuple, ast.List)):
            if len(e.elts) == 0:
                if isinstance(e, ast.List):
                    return "list"
                raise Unsupported(f"empty tuple {_where(e)}")
            if any(self.ty(v) != "int" for v in e.elts):
                raise Unsupported(f"pair of non-ints {_where(e)}")
            return "pair"
        if isinstance(e, ast.Call):
            f = e.func.id
            if f in ("min", "max", "int"):
                if any(self.ty(a) != "int" for a in e.args):
                    raise Unsupported(f"{f} of non-int {_where(e)}")
                return "int"
            if f == "len":
                if self.ty(e.args[0]) not in ("list", "set"):
                    raise Unsupported(f"len of non-container {_where(e)}")
                return "int"
            if f == "set":
                return "set"
        raise Unsupported(f"untyped expression {_where(e)}")

    def _settype(self, name, t, where):
        if name in PARAMS:
            raise Unsupported(f"assignment to parameter {name} {where}")
        if name in self.fortargets:
            raise Unsupported(f"assignment to loop variable {name} {where}")
        old = self.types.get(name)
        if old is not None and old != t:
            raise Unsupported(f"variable {name} changes type {old} -> {t} {where}")
        self.types[name] = t

    def _infer(self, stmts):
        for s in stmts:
            w = _where(s)
            if isinstance(s, (ast.Assign, ast.AnnAssign)):
                self._settype(_target(s), self.ty(s.value), w)
            elif isinstance(s, ast.AugAssign):
                if self.types.get(s.target.id) != "int" or self.ty(s.value) != "int":
                    raise Unsupported(f"augmented assignment on non-int {w}")
            elif isinstance(s, ast.Expr):
                c, want = s.value.func.value.id, {"append": "list", "add": "set"}[s.value.func.attr]
                if self.types.get(c) != want or self.ty(s.value.args[0]) != "pair":
                    raise Unsupported(f".{s.value.func.attr} needs a {want} of pairs {w}")
                if c in PARAMS or c in self.fortargets:
                    raise Unsupported(f"mutation of {c} {w}")
            elif isinstance(s, ast.For):
                if any(self.ty(a) != "int" for a in s.iter.args):
                    raise Unsupported(f"range of non-int {w}")
                self._infer(s.body)
            elif isinstance(s, ast.If):
                if self.ty(s.test) != "bool":
                    raise Unsupported(f"if on non-bool {w}")
                self._infer(s.body), self._infer(s.orelse)
            for e in _head_exprs(s):
                _guarded_positions_ok(e)

    def _loopvar_discipline(self):
        """every read of a loop variable is lexically inside a loop that binds it"""
        def go(ss, bound):
            for s in ss:
                for e in _head_exprs(s):
                    for n in ast.walk(e):
                        if isinstance(n, ast.Name) and n.id in self.fortargets and n.id not in bound:
                            raise Unsupported(f"loop variable {n.id} read outside its loop {_where(n)}")
                if isinstance(s, ast.For):
                    go(s.body, bound | {s.target.id})
                elif isinstance(s, ast.If):
                    go(s.body, bound), go(s.orelse, bound)
        go(self.slice, set())

    def _definite(self, stmts, defined: set) -> set:
        """definite-assignment analysis; returns the set defined after `stmts`"""
        d = set(defined)
        for s in stmts:
            for e in _head_exprs(s):
                for n in ast.walk(e):
                    if isinstance(n, ast.Name) and n.id not in d and n.id not in self.fortargets \
                            and n.id not in ("min", "max", "len", "int", "set", "range"):
                        raise Unsupported(f"{n.id} may be unbound when read {_where(n)}")
            if isinstance(s, ast.AugAssign) or isinstance(s, ast.Expr):
                if _target(s) not in d:
                    raise Unsupported(f"{_target(s)} may be unbound when updated {_where(s)}")
            elif isinstance(s, (ast.Assign, ast.AnnAssign)):
                d.add(_target(s))
            elif isinstance(s, ast.For):
                self._definite(s.body, d)           # zero iterations possible: nothing gained
            elif isinstance(s, ast.If):
                d = self._definite(s.body, d) & self._definite(s.orelse, d)
        return d

    # ---- expressions
    def ex(self, e) -> str:
        if isinstance(e, ast.Constant):
            if isinstance(e.value, bool):
                return "true" if e.value else "false"
            return f"({e.value} : Int)" if e.value >= 0 else f"(-{-e.value} : Int)"
        if isinstance(e, ast.Name):
            return e.id
        if isinstance(e, ast.BinOp):
            a, b = self.ex(e.left), self.ex(e.right)
            if isinstance(e.op, (ast.FloorDiv, ast.Mod)):
                lit = isinstance(e.right, ast.Constant) and type(e.right.value) is int and e.right.value > 0
                if isinstance(e.op, ast.FloorDiv):
                    return f"({a} / {b})" if lit else f"(Geff.Py.floordiv {a} {b})"
                return f"({a} % {b})" if lit else f"(Geff.Py.mod {a} {b})"
            op = {ast.Add: "+", ast.Sub: "-", ast.Mult: "*"}[type(e.op)]
            return f"({a} {op} {b})"
        if isinstance(e, ast.UnaryOp):
            return f"(-{self.ex(e.operand)})" if isinstance(e.op, ast.USub) else f"(!{self.ex(e.operand)})"
        if isinstance(e, ast.BoolOp):
            op = " && " if isinstance(e.op, ast.And) else " || "
            return "(" + op.join(self.ex(v) for v in e.values) + ")"
        if isinstance(e, ast.Compare):
            a, b, op = self.ex(e.left), self.ex(e.comparators[0]), e.ops[0]
            if isinstance(op, ast.In):
                return f"(List.contains {b} {a})"
            if isinstance(op, ast.NotIn):
                return f"(!(List.contains {b} {a}))"
            if isinstance(op, ast.Eq) and self.ty(e.left) == "bool":
                return f"({a} == {b})"
            if isinstance(op, ast.NotEq) and self.ty(e.left) == "bool":
                return f"({a} != {b})"
            sym = {ast.Lt: "<", ast.LtE: "≤", ast.Gt: ">", ast.GtE: "≥", ast.Eq: "=", ast.NotEq: "≠"}[type(op)]
            return f"(decide ({a} {sym} {b}))"
        if isinstance(e, ast.IfExp):
            return f"(if {self.ex(e.test)} then {self.ex(e.body)} else {self.ex(e.orelse)})"
        if isinstance(e, (ast.Tuple, ast.List)):
            if not e.elts:
                return "([] : List (Int × Int))"
            return f"({self.ex(e.elts[0])}, {self.ex(e.elts[1])})"
        if isinstance(e, ast.Call):
            f = e.func.id
            if f in ("min", "max"):
                out = self.ex(e.args[0])
                for a in e.args[1:]:
                    out = f"({f} {out} {self.ex(a)})"
                return out
            if f == "int":
                return self.ex(e.args[0])
            if f == "len":
                return f"(({self.ex(e.args[0])}.length : Nat) : Int)"
            if f == "set":
                return "([] : List (Int × Int))"
        raise Unsupported(f"expression {_where(e)}")

    # ---- statements
    @staticmethod
    def tup(vs):
        return vs[0] if len(vs) == 1 else "(" + ", ".join(vs) + ")"

    def seq(self, stmts, outs, ind, scope, in_loop_brk) -> list[str]:
        """Lean lines (a term) computing tuple(outs) after running `stmts`; `scope` = bound names"""
        p = "  " * ind
        if not stmts:
            return [p + self.tup(outs)]
        s, rest = stmts[0], stmts[1:]
        lines: list[str] = []
        scope = set(scope)

        def ensure(vs):
            for v in vs:
                if v not in scope:
                    dflt = {"exc_": "false", "brk_": "false"}.get(v) or DEFAULT[self.types[v]]
                    lines.append(f"{p}let {v} := {dflt}")
                    scope.add(v)

        divs = [d for e in _head_exprs(s) for d in _divisors(e)]
        if divs or isinstance(s, ast.Break):
            ensure(outs)                     # an early exit returns the current values
        if divs:
            cond = " || ".join(f"decide ({self.ex(d)} = 0)" for d in divs)
            early = [o if o != "exc_" else "true" for o in outs]
            lines.append(f"{p}if {cond} then {self.tup(early)} else")
        if isinstance(s, ast.Pass):
            pass
        elif isinstance(s, ast.Break):
            early = [o if o != "brk_" else "true" for o in outs]
            return lines + [p + self.tup(early)]
        elif isinstance(s, (ast.Assign, ast.AnnAssign)):
            v = _target(s)
            lines.append(f"{p}let {v} : {LTYPE[self.types[v]]} := {self.ex(s.value)}")
            scope.add(v)
        elif isinstance(s, ast.AugAssign):
            op = "+" if isinstance(s.op, ast.Add) else "-"
            lines.append(f"{p}let {s.target.id} : Int := {s.target.id} {op} {self.ex(s.value)}")
        elif isinstance(s, ast.Expr):
            c, arg = s.value.func.value.id, self.ex(s.value.args[0])
            if s.value.func.attr == "append":
                lines.append(f"{p}let {c} : List (Int × Int) := {c} ++ [{arg}]")
            else:
                lines.append(f"{p}let {c} : List (Int × Int) := Geff.Py.setAdd {c} {arg}")
        elif isinstance(s, ast.If):
            vs = _assigned([s], self.fortargets)
            flags = (["exc_"] if _fallible(s.body + s.orelse) else []) + \
                    (["brk_"] if (_may_break(s.body) or _may_break(s.orelse)) else [])
            if flags and "brk_" in flags and not in_loop_brk:
                raise Unsupported(f"break outside loop {_where(s)}")
            svs = vs + flags
            if svs:
                ensure(svs)
                lines.append(f"{p}let {self.tup(svs)} := (if {self.ex(s.test)} then")
                lines += self.seq(s.body, svs, ind + 2, scope, in_loop_brk)
                lines.append(f"{p}  else")
                lines += self.seq(s.orelse, svs, ind + 2, scope, in_loop_brk)
                lines.append(f"{p}  )")
                for fl in flags:
                    if rest:
                        ensure(outs)
                        lines.append(f"{p}if {fl} then {self.tup(outs)} else")
        elif isinstance(s, ast.For):
            vs = _assigned(s.body, self.fortargets)
            brk = _may_break(s.body)
            exc = _fallible(s.body)
            svs = vs + (["exc_"] if exc else []) + (["brk_"] if brk else [])
            a = "(0 : Int)" if len(s.iter.args) == 1 else self.ex(s.iter.args[0])
            b = self.ex(s.iter.args[-1])
            if svs:
                ensure([v for v in svs if v != "brk_"])
                init = [v if v != "brk_" else "false" for v in svs]
                pat = [v if v != "brk_" else "_" for v in svs]
                lines.append(f"{p}let {self.tup(pat)} := (Geff.Py.range {a} {b}).foldl (fun {self.tup(svs)} {s.target.id} =>")
                guards = [f for f in ("brk_", "exc_") if f in svs]
                if guards:
                    lines.append(f"{p}    if {' || '.join(guards)} then {self.tup(svs)} else")
                lines += self.seq(s.body, svs, ind + 2, scope | set(svs) | {s.target.id}, brk)
                lines.append(f"{p}    ) {self.tup(init)}")
                if exc and rest:
                    ensure(outs)
                    lines.append(f"{p}if exc_ then {self.tup(outs)} else")
        return lines + self.seq(rest, outs, ind, scope, in_loop_brk)

    def lean(self) -> str:
        outs = [self.result] + (["exc_"] if self.fallible else [])
        body = self.seq(self.slice, outs, 1, set(PARAMS), False)
        core_t = "List (Int × Int) × Bool" if self.fallible else "List (Int × Int)"
        txt = f"def genCore (directed : Bool) (num_nodes num_edges : Int) : {core_t} :=\n" + "\n".join(body) + "\n\n"
        txt += "def gen (directed : Bool) (num_nodes num_edges : Int) : Except String (List (Int × Int)) :=\n"
        if self.fallible:
            txt += "  let r := genCore directed num_nodes num_edges\n"
            txt += "  if r.2 then Except.error \"ZeroDivisionError\" else Except.ok r.1\n"
        else:
            txt += "  Except.ok (genCore directed num_nodes num_edges)\n"
        return txt


def _extract(repo: Path):
    tree = ast.parse((repo / SRC).read_text())
    fn = next((n for n in tree.body if isinstance(n, ast.FunctionDef) and n.name == FUNC), None)
    if fn is None:
        raise Unsupported(f"function {FUNC} not found")
    k = res = None
    for i, s in enumerate(fn.body):
        if (isinstance(s, ast.Assign) and isinstance(s.value, ast.Call) and isinstance(s.value.func, ast.Attribute)
                and s.value.func.attr == "array" and isinstance(s.value.func.value, ast.Name)
                and s.value.func.value.id == "np" and s.value.args and isinstance(s.value.args[0], ast.Name)
                and any(kw.arg == "dtype" and isinstance(kw.value, ast.Name) and kw.value.id == "node_id_dtype"
                        for kw in s.value.keywords)):
            k, res = i, s.value.args[0].id
            break
    if k is None:
        raise Unsupported("statement `edges = np.array(<list>, dtype=node_id_dtype)` not found")
    # the array built from <list> must BE the edge array that is returned: after that statement the
    # variable may only be reshaped to (0, 2) when empty, and it must be what "edge_ids" returns
    arr = fn.body[k].targets[0].id if isinstance(fn.body[k].targets[0], ast.Name) else None
    if arr is None:
        raise Unsupported("edge array is not assigned to a plain name")
    for later in fn.body[k + 1:]:
        for n in ast.walk(later):
            tgts = []
            if isinstance(n, ast.Assign):
                tgts = n.targets
            elif isinstance(n, (ast.AugAssign, ast.AnnAssign)):
                tgts = [n.target]
            for t in tgts:
                for nm in ast.walk(t):
                    if isinstance(nm, ast.Name) and nm.id == arr:
                        v = n.value if not isinstance(n, ast.AugAssign) else None
                        ok = (isinstance(n, ast.Assign) and isinstance(t, ast.Name) and isinstance(v, ast.Call)
                              and isinstance(v.func, ast.Attribute) and v.func.attr == "reshape"
                              and isinstance(v.func.value, ast.Name) and v.func.value.id == arr
                              and ast.unparse(v.args[0]) == "(0, 2)" if v is not None and v.args else False)
                        if not ok:
                            raise Unsupported(f"edge array `{arr}` is modified after its construction ({_where(n)}): "
                                              f"{ast.unparse(n)[:80]}")
            if isinstance(n, ast.Call) and isinstance(n.func, ast.Attribute) and isinstance(n.func.value, ast.Name) \
                    and n.func.value.id in (arr, res) and n.func.attr in ("append", "extend", "insert", "pop", "sort",
                                                                          "resize", "fill", "put", "itemset"):
                raise Unsupported(f"`{n.func.value.id}` is mutated after the edge array is built ({_where(n)})")
    rets = [n for n in ast.walk(fn) if isinstance(n, ast.Return) and isinstance(n.value, ast.Dict)]
    if not rets or not any(isinstance(kk, ast.Constant) and kk.value == "edge_ids" and isinstance(vv, ast.Name) and vv.id == arr
                           for r in rets for kk, vv in zip(r.value.keys, r.value.values)):
        raise Unsupported(f"the returned dict does not map \"edge_ids\" to `{arr}`")
    j = k
    while j > 0 and _stmt_in_subset(fn.body[j - 1]):
        j -= 1
    sl = fn.body[j:k]
    if not sl:
        raise Unsupported("no translatable statements before the edge array is built")
    return sl, res, (sl[0].lineno, fn.body[k].lineno)


HEADER = "/-! GENERATED by harness/translators/t9_mock_edges.py from the working tree — do not edit. -/\n"


def run(repo: Path, out: Path) -> dict:
    from harness.translate import write_if_changed

    err = None
    code = ""
    info: dict = {}
    try:
        sl, res, span = _extract(repo)
        tr = Tr(sl, res)
        if tr.types.get(res) != "list":
            raise Unsupported(f"{res} is not a list of pairs")
        if res not in tr._definite(sl, set(PARAMS)):
            raise Unsupported(f"{res} is not definitely assigned")
        code = tr.lean()
        info = {"lines": list(span), "result": res, "fallible": tr.fallible,
                "variables": {k: v for k, v in sorted(tr.types.items())}}
    except Unsupported as e:
        err = f"unsupported: {e}"
    except Exception as e:  # noqa: BLE001
        err = f"{type(e).__name__}: {e}"
    body = "import GeffModel.PyInt\n" + HEADER + "set_option linter.unusedVariables false\nnamespace Gen.MockEdges\n"
    body += f"def translationOk : Bool := {'true' if err is None else 'false'}\n"
    if err is None:
        body += f"/-- {SRC}:{info['lines'][0]}-{info['lines'][1] - 1} (`{FUNC}`), result variable `{info['result']}` -/\n"
        body += code
    else:
        body += "def gen (_directed : Bool) (_num_nodes _num_edges : Int) : Except String (List (Int × Int)) :=\n"
        body += "  Except.error \"untranslated\"\n"
    body += "end Gen.MockEdges\n"
    write_if_changed(out / "MockEdges.lean", body)
    return {"ok": err is None, **({"error": err} if err else {}), **info}


# ====================================================================== T9b: parameter forwarding
def _forwarding(repo: Path) -> dict:
    """signature of create_dummy_in_mem_geff, and the keyword arguments of the forwarding calls in
    create_mock_geff / create_simple_* / create_empty_geff (expression text via ast.unparse)."""
    tree = ast.parse((repo / SRC).read_text())
    fns = {n.name: n for n in tree.body if isinstance(n, ast.FunctionDef)}

    def params(fn):
        a = fn.args
        if a.vararg or a.kwarg or a.posonlyargs or a.kwonlyargs:
            raise Unsupported(f"{fn.name}: only plain parameters are supported")
        return [x.arg for x in a.args]

    def single_call(fn, callee):
        calls = [n for n in ast.walk(fn) if isinstance(n, ast.Call) and isinstance(n.func, ast.Name) and n.func.id == callee]
        if len(calls) != 1:
            raise Unsupported(f"{fn.name}: expected exactly one call of {callee}, found {len(calls)}")
        c = calls[0]
        if c.args or any(k.arg is None for k in c.keywords):
            raise Unsupported(f"{fn.name}: positional / ** arguments in the call of {callee}")
        return [(k.arg, ast.unparse(k.value)) for k in c.keywords]

    need = [FUNC, "create_mock_geff", "create_simple_2d_geff", "create_simple_3d_geff",
            "create_simple_temporal_geff", "create_empty_geff"]
    for n in need:
        if n not in fns:
            raise Unsupported(f"function {n} not found")
    def defaults(fn):
        a = fn.args
        names = [x.arg for x in a.args]
        ds = a.defaults
        return [(n, ast.unparse(d)) for n, d in zip(names[len(names) - len(ds):], ds)]

    out = {"inner": params(fns[FUNC]), "mock": params(fns["create_mock_geff"]),
           "inner_defaults": defaults(fns[FUNC]), "mock_defaults": defaults(fns["create_mock_geff"]),
           "mock_call": single_call(fns["create_mock_geff"], FUNC), "wrappers": []}
    for w in need[2:]:
        out["wrappers"].append((w, params(fns[w]), single_call(fns[w], "create_mock_geff")))
    return out


def _lean_pairs(l):
    from harness.translate import lean_str
    return "[" + ", ".join(f"({lean_str(a)}, {lean_str(b)})" for a, b in l) + "]"


def _lean_strs(l):
    from harness.translate import lean_str
    return "[" + ", ".join(lean_str(a) for a in l) + "]"


def _run_forwarding(repo: Path, out: Path) -> dict:
    from harness.translate import lean_str, write_if_changed

    err, fw = None, None
    try:
        fw = _forwarding(repo)
    except Unsupported as e:
        err = f"unsupported: {e}"
    except Exception as e:  # noqa: BLE001
        err = f"{type(e).__name__}: {e}"
    body = HEADER + "namespace Gen.MockForward\n"
    body += f"def translationOk : Bool := {'true' if err is None else 'false'}\n"
    if fw is None:
        fw = {"inner": [], "mock": [], "mock_call": [], "wrappers": [], "inner_defaults": [], "mock_defaults": []}
    body += f"/-- parameters of `{FUNC}` -/\ndef innerParams : List String := {_lean_strs(fw['inner'])}\n"
    body += f"/-- parameters of `create_mock_geff` -/\ndef mockParams : List String := {_lean_strs(fw['mock'])}\n"
    body += f"/-- default values of the two signatures -/\ndef innerDefaults : List (String × String) := {_lean_pairs(fw['inner_defaults'])}\n"
    body += f"def mockDefaults : List (String × String) := {_lean_pairs(fw['mock_defaults'])}\n"
    body += ("/-- keyword arguments (keyword, expression) of the call of the inner generator in `create_mock_geff` -/\n"
             f"def mockCall : List (String × String) := {_lean_pairs(fw['mock_call'])}\n")
    body += "/-- (wrapper, its parameters, keyword arguments of its call of `create_mock_geff`) -/\n"
    body += "def wrappers : List (String × List String × List (String × String)) := [\n"
    body += ",\n".join(f"  ({lean_str(w)}, {_lean_strs(ps)}, {_lean_pairs(kw)})" for w, ps, kw in fw["wrappers"])
    body += "]\nend Gen.MockForward\n"
    write_if_changed(out / "MockForward.lean", body)
    return {"ok": err is None, **({"error": err} if err else {})}


_run_edges = run


def run(repo: Path, out: Path) -> dict:  # noqa: F811
    a = _run_edges(repo, out)
    b = _run_forwarding(repo, out)
    res = dict(a)
    res["forwarding"] = b
    if not b["ok"]:
        res["ok"] = False
        res["error"] = (res.get("error", "") + " | forwarding: " + b.get("error", "")).strip(" |")
    return res
