"""T19: the guard layer of geff/core_io/_utils.py -> lean/Gen/StoreGuard.lean  (Python -> Lean `do`-notation).

    remove_tilde, _detect_zarr_spec_version, open_storelike, setup_zarr_group, delete_geff, check_for_geff

are translated *statement by statement* from the AST of the working tree (parsed, never imported)
into Lean `do`-blocks in the trace monad `Geff.KV.Prog` of the key-view store model
(`GeffModel/KV.lean`), over the primitives of `GeffModel/PyDoStore.lean` (each defined from the KV
primitives, Python's exceptions explicit).  Same family as T12/T13/T14 (typed, closed expression
table; anything outside the subset -> a stub with the same signature and `translationOk := false`);
what this plug-in adds:

* the `store` argument as a value (`StoreRef`: str / Path / MemoryStore / LocalStore / another store
  object with a `.path`) with `isinstance(store, str | Path)`, `isinstance(store, Path)`, `str(store)`,
  `"~" in s`, `os.path.expanduser`, `os.path.exists`, `Path(store)`, `(p / "zarr.json").exists()`,
  `store.path`, `shutil.rmtree`;
* `zarr.open_group(store, mode=…, zarr_format=…)` (mode and format are read from the call; an omitted
  `zarr_format` is `none`), `del root[NAME]`, `root.keys()`, `NAME in root`, `"geff" in root.attrs`,
  `del root.attrs["geff"]`, `group.metadata.zarr_format`, `zarr.__version__.startswith("2"|"3")`;
* `a and b` / `a or b` whose later operand has an effect or can raise -> `pyAnd a (do …)` / `pyOr …`
  (Python's short circuit: `os.path.exists(store)` is not evaluated for a store object);
* `try: … except (A, B): …` -> `tryExcept (do …) (fun e => if pyIsInstance e ["A", "B"] then (do …) else
  Prog.raise e)`; both blocks yield a `Flow`: `Flow.ret v` for a `return v` of the *function* inside the
  block, `Flow.next (x, …)` with the locals bound in the block that are read afterwards (each must be
  assigned at the top level of the `try` body, and every handler must assign it or end in
  `return`/`raise`); the statements after the `try` continue in the `.next` arm;
* `raise X(…) [from e]` (message dropped), `except X as e` (the name is not bound), `is_remote_url(str(p))`
  (`false`: the str/Path locations of the model are local), `p.exists()`;
* early `return` anywhere, `pass`, `warnings.warn(…)` (dropped: no exception under default filters),
  a reassigned parameter (`let mut store := store`), calls of the other translated functions with
  positional or keyword arguments (omitted arguments take the default written in the callee's
  signature; the defaults are also emitted as `…Default…` constants);
* block-scoped locals: a local first bound inside an `if`/`try` block is dropped at the end of the
  block, so a later read is refused instead of guessed.

Consumer: C06 (`GeffProps/C06Gen.lean`: the generated functions equal the hand-written key-view model
for every store state and store kind, hence the C06 theorems and C05's clean-up theorem hold of the
guard layer as it is written now)."""
from __future__ import annotations

import ast
from pathlib import Path

from harness.translate import HEADER, lean_str, write_if_changed
from harness.translators.t12_pydo_serialization import Unsupported
from harness.translators.t12_pydo_serialization import camel as _camel

NAME = "T19_pydo_store_guard"
PROPS = ["C06"]
SRC = "packages/geff/src/geff/core_io/_utils.py"

FUNCS = {
    "remove_tilde": {"lean": "removeTilde", "params": [("store", "StoreRef")], "ret": "StoreRef"},
    "_detect_zarr_spec_version": {"lean": "detectZarrSpecVersion", "params": [("store", "StoreRef")],
                                  "ret": "Option Nat"},
    "setup_zarr_group": {"lean": "setupZarrGroup", "params": [("store", "StoreRef"), ("zarr_format", "Fmt")],
                         "ret": "Group"},
    "delete_geff": {"lean": "deleteGeff", "params": [("store", "StoreRef"), ("zarr_format", "Fmt")], "ret": "Unit"},
    "open_storelike": {"lean": "openStorelike", "params": [("store", "StoreRef")], "ret": "Group"},
    "check_for_geff": {"lean": "checkForGeff", "params": [("store", "StoreRef"), ("zarr_format", "Option Fmt")],
                       "ret": "Bool"},
}
ORDER = ["remove_tilde", "_detect_zarr_spec_version", "open_storelike", "setup_zarr_group", "delete_geff",
         "check_for_geff"]
ROOT_FILES = {"zarr.json": ".json", ".zgroup": ".zgroup", ".zarray": ".zarray"}
RAISE = {"FileExistsError": ".fileExists", "ValueError": ".valueError", "TypeError": ".typeError"}
PATH_CONSTS = {"NODES", "EDGES"}


PRIMS = {"isStr", "isPath", "isStrOrPath", "strOf", "hasTilde", "expanduser", "osPathExists", "rmtree", "toPath",
         "rootFileExists", "attrPath", "openGroup", "delItem", "groupKeys", "groupContains", "attrsContainsGeff",
         "delAttrGeff", "isRemoteUrl", "fmtNum", "zarrFormatNum", "zarrVersionStartsWith", "pyAnd", "pyOr", "tryExcept", "d", "e",
         "v", "unmodelled", "exc", "pyIsInstance"} | {f["lean"] for f in FUNCS.values()}


def camel(n: str) -> str:
    """Lean name of a Python local; a name that collides with a primitive gets a suffix"""
    c = _camel(n)
    return c + "V" if c in PRIMS else c


def _dotted(n) -> str | None:
    parts = []
    while isinstance(n, ast.Attribute):
        parts.append(n.attr)
        n = n.value
    if isinstance(n, ast.Name):
        parts.append(n.id)
        return ".".join(reversed(parts))
    return None


def _const_default(node, ty):
    """a default value of the signature as a Lean term of type `ty`"""
    if not isinstance(node, ast.Constant):
        raise Unsupported(f"default {ast.unparse(node)}")
    v = node.value
    if ty == "Fmt" and v in (2, 3) and not isinstance(v, bool):
        return f".v{v}"
    if ty == "Option Fmt":
        if v is None:
            return "none"
        if v in (2, 3) and not isinstance(v, bool):
            return f"(some .v{v})"
    raise Unsupported(f"default {v!r} for a parameter of type {ty}")


class Fn:
    def __init__(self, name, spec, defaults):
        self.name, self.spec, self.defaults = name, spec, defaults
        self.env: dict[str, str] = dict(spec["params"])
        self.mut: set[str] = set()
        self.tmp = 0
        self.in_try = False

    def fresh(self):
        self.tmp += 1
        return f"t{self.tmp}"

    def bind(self, binds, action, ty):
        t = self.fresh()
        binds.append(f"let {t} ← {action}")
        return t, ty

    # ------------------------------------------------------------------ expressions
    def expr(self, n, binds):
        """-> (Lean text usable as a function argument, Lean type)"""
        e, t = self._expr(n, binds)
        if " " in e and not (e.startswith("(") and e.endswith(")")) and not e.startswith('"'):
            e = f"({e})"
        return e, t

    def _expr(self, n, binds):
        if isinstance(n, ast.Name):
            if n.id not in self.env:
                raise Unsupported(f"unknown (or out-of-scope) variable {n.id}")
            return camel(n.id), self.env[n.id]
        if isinstance(n, ast.Constant):
            if isinstance(n.value, bool):
                return ("true" if n.value else "false"), "Bool"
            if n.value is None:
                return "none", "None"
            if isinstance(n.value, int) and n.value >= 0:
                return str(n.value), "Nat"
            if isinstance(n.value, str):
                return lean_str(n.value), "String"
            raise Unsupported(f"constant {n.value!r}")
        d = _dotted(n)
        if d is not None and d.startswith("_path.") and d[6:] in PATH_CONSTS:
            return d[6:], "String"
        if isinstance(n, ast.UnaryOp) and isinstance(n.op, ast.Not):
            e, t = self.expr(n.operand, binds)
            if t != "Bool":
                raise Unsupported(f"not on {t}")
            return f"!({e})", "Bool"
        if isinstance(n, ast.BoolOp):
            return self.boolop(n.values, isinstance(n.op, ast.Or), binds)
        if isinstance(n, ast.Compare) and len(n.ops) == 1:
            return self.compare(n, binds)
        if isinstance(n, ast.Attribute):
            if d == "group.metadata.zarr_format" or (
                    isinstance(n.value, ast.Attribute) and n.attr == "zarr_format" and n.value.attr == "metadata"):
                e, t = self.expr(n.value.value, binds)
                if t != "Group":
                    raise Unsupported(f".metadata.zarr_format of {t}")
                return f"zarrFormatNum {e}", "Nat"
            if n.attr == "path":
                e, t = self.expr(n.value, binds)
                if t != "StoreRef":
                    raise Unsupported(f".path of {t}")
                return self.bind(binds, f"attrPath {e}", "StoreRef")
            raise Unsupported(f"attribute {ast.unparse(n)}")
        if isinstance(n, ast.Call):
            return self.call(n, binds)
        raise Unsupported(f"expression {ast.unparse(n)}")

    def boolop(self, values, is_or, binds):
        first, t = self.expr(values[0], binds)
        if t != "Bool":
            raise Unsupported(f"boolean operand of type {t}")
        if len(values) == 1:
            return first, "Bool"
        sub: list[str] = []
        rest, _ = self.boolop(values[1:], is_or, sub)
        if not sub:
            return f"({first} {'||' if is_or else '&&'} {rest})", "Bool"
        inner = "; ".join([*sub, f"pure ({rest})"])
        return self.bind(binds, f"{'pyOr' if is_or else 'pyAnd'} ({first}) (do {inner})", "Bool")

    def compare(self, n, binds):
        op, l, r = n.ops[0], n.left, n.comparators[0]
        if isinstance(op, (ast.In, ast.NotIn)):
            neg = isinstance(op, ast.NotIn)
            # "geff" in root.attrs
            if (isinstance(r, ast.Attribute) and r.attr == "attrs" and isinstance(l, ast.Constant) and l.value == "geff"):
                g, tg = self.expr(r.value, binds)
                if tg != "Group":
                    raise Unsupported(f".attrs of {tg}")
                e, t = self.bind(binds, f"attrsContainsGeff {g}", "Bool")
                return (f"!({e})" if neg else e), "Bool"
            a, ta = self.expr(l, binds)
            b, tb = self.expr(r, binds)
            if tb == "Group" and ta == "String":
                e, t = self.bind(binds, f"groupContains {b} {a}", "Bool")
                return (f"!({e})" if neg else e), "Bool"
            if tb == "Tilde" and isinstance(l, ast.Constant) and l.value == "~":
                return (f"!(hasTilde {b})" if neg else f"hasTilde {b}"), "Bool"
            raise Unsupported(f"membership {ast.unparse(n)}")
        if isinstance(op, (ast.Eq, ast.NotEq)):
            a, ta = self.expr(l, binds)
            b, tb = self.expr(r, binds)
            if ta == "Fmt" and tb == "Nat":
                a, ta = f"fmtNum {a}", "Nat"
            if ta == "Option Nat" and tb == "Nat":
                b, tb = f"some {b}", ta
            if ta == tb and ta in ("Nat", "Option Nat"):
                return f"({a} {'==' if isinstance(op, ast.Eq) else '!='} {b})", "Bool"
            raise Unsupported(f"comparison of {ta} with {tb}")
        if isinstance(op, (ast.Is, ast.IsNot)) and isinstance(r, ast.Constant) and r.value is None:
            a, ta = self.expr(l, binds)
            if not ta.startswith("Option "):
                raise Unsupported(f"`is None` on {ta}")
            return (f"{a}.isNone" if isinstance(op, ast.Is) else f"{a}.isSome"), "Bool"
        raise Unsupported(f"comparison {ast.unparse(n)}")

    def isinstance_(self, n, binds):
        e, t = self.expr(n.args[0], binds)
        if t != "StoreRef":
            raise Unsupported(f"isinstance on {t}")
        c = n.args[1]
        names: list[str] = []

        def classes(x):
            if isinstance(x, ast.BinOp) and isinstance(x.op, ast.BitOr):
                classes(x.left)
                classes(x.right)
            elif isinstance(x, ast.Tuple):
                for y in x.elts:
                    classes(y)
            elif isinstance(x, ast.Name) and x.id in ("str", "Path"):
                names.append(x.id)
            else:
                raise Unsupported(f"isinstance class {ast.unparse(x)}")
        classes(c)
        s = set(names)
        prim = {frozenset({"str"}): "isStr", frozenset({"Path"}): "isPath", frozenset({"str", "Path"}): "isStrOrPath"}[frozenset(s)]
        return f"{prim} {e}", "Bool"

    def call(self, n, binds):
        f = n.func
        src = ast.unparse(n)
        d = _dotted(f)
        if d == "isinstance" and len(n.args) == 2 and not n.keywords:
            return self.isinstance_(n, binds)
        if d == "str" and len(n.args) == 1 and not n.keywords:
            e, t = self.expr(n.args[0], binds)
            if t == "StoreRef":
                return f"strOf {e}", "Tilde"
            raise Unsupported(f"str of {t}")
        if d == "os.path.expanduser" and len(n.args) == 1 and not n.keywords:
            e, t = self.expr(n.args[0], binds)
            if t == "Tilde":
                return f"expanduser {e}", "StoreRef"
            raise Unsupported(f"expanduser of {t}")
        if d == "is_remote_url" and len(n.args) == 1 and not n.keywords:
            e, t = self.expr(n.args[0], binds)
            if t == "Tilde":
                return f"isRemoteUrl {e}", "Bool"
            raise Unsupported(f"is_remote_url of {t}")
        if isinstance(f, ast.Attribute) and f.attr == "exists" and not n.args and not n.keywords \
                and isinstance(f.value, ast.Name):
            e, t = self.expr(f.value, binds)
            if t == "StoreRef":
                return self.bind(binds, f"osPathExists {e}", "Bool")
            raise Unsupported(f".exists() of {t}")
        if d == "os.path.exists" and len(n.args) == 1 and not n.keywords:
            e, t = self.expr(n.args[0], binds)
            if t == "StoreRef":
                return self.bind(binds, f"osPathExists {e}", "Bool")
            raise Unsupported(f"os.path.exists of {t}")
        if d == "Path" and len(n.args) == 1 and not n.keywords:
            e, t = self.expr(n.args[0], binds)
            if t == "StoreRef":
                return self.bind(binds, f"toPath {e}", "StoreRef")
            raise Unsupported(f"Path of {t}")
        # (p / "zarr.json").exists()
        if (isinstance(f, ast.Attribute) and f.attr == "exists" and not n.args and not n.keywords
                and isinstance(f.value, ast.BinOp) and isinstance(f.value.op, ast.Div)
                and isinstance(f.value.right, ast.Constant) and f.value.right.value in ROOT_FILES):
            e, t = self.expr(f.value.left, binds)
            if t == "StoreRef":
                return self.bind(binds, f"rootFileExists {e} {ROOT_FILES[f.value.right.value]}", "Bool")
            raise Unsupported(f"/ on {t}")
        if d == "zarr.__version__.startswith" and len(n.args) == 1 and not n.keywords \
                and isinstance(n.args[0], ast.Constant) and n.args[0].value in ("2", "3"):
            return f"zarrVersionStartsWith {lean_str(n.args[0].value)}", "Bool"
        if d == "zarr.open_group":
            if len(n.args) != 1:
                raise Unsupported(src)
            kw = {k.arg: k.value for k in n.keywords}
            if set(kw) - {"mode", "zarr_format"} or "mode" not in kw:
                raise Unsupported(f"{src}: keywords (an explicit mode= is required)")
            m = kw["mode"]
            if not (isinstance(m, ast.Constant) and m.value in ("r", "a", "w")):
                raise Unsupported(f"{src}: mode")
            s, ts = self.expr(n.args[0], binds)
            if ts != "StoreRef":
                raise Unsupported(f"open_group of {ts}")
            zf = "none"
            if "zarr_format" in kw:
                z, tz = self.expr(kw["zarr_format"], binds)
                if tz == "Fmt":
                    zf = f"(some {z})"
                elif tz == "Option Fmt":
                    zf = z
                elif tz == "None":
                    zf = "none"
                elif tz == "Nat" and z in ("2", "3"):
                    zf = f"(some .v{z})"
                else:
                    raise Unsupported(f"{src}: zarr_format of type {tz}")
            return self.bind(binds, f"openGroup d {s} .{m.value} {zf}", "Group")
        # root.keys() / list(x) / len(x)
        if isinstance(f, ast.Attribute) and f.attr == "keys" and not n.args and not n.keywords:
            e, t = self.expr(f.value, binds)
            if t == "Group":
                return self.bind(binds, f"groupKeys {e}", "List String")
            raise Unsupported(f"keys of {t}")
        if d == "list" and len(n.args) == 1 and not n.keywords:
            e, t = self.expr(n.args[0], binds)
            if t.startswith("List "):
                return e, t
            raise Unsupported(f"list of {t}")
        if d == "len" and len(n.args) == 1 and not n.keywords:
            e, t = self.expr(n.args[0], binds)
            if t.startswith("List "):
                return f"{e}.length", "Nat"
            raise Unsupported(f"len of {t}")
        if d in FUNCS:
            spec = FUNCS[d]
            names = [p for p, _ in spec["params"]]
            given: dict[str, ast.AST] = {}
            if len(n.args) > len(names):
                raise Unsupported(f"{src}: too many arguments")
            for p, a in zip(names, n.args):
                given[p] = a
            for k in n.keywords:
                if k.arg not in names or k.arg in given:
                    raise Unsupported(f"{src}: keyword {k.arg}")
                given[k.arg] = k.value
            args = []
            for p, ty in spec["params"]:
                if p in given:
                    e, t = self.expr(given[p], binds)
                    if t == "None" and ty.startswith("Option "):
                        e, t = "none", ty
                    elif ty == f"Option {t}":
                        e, t = f"(some {e})", ty
                    elif t == "Nat" and ty == "Fmt" and e in ("2", "3"):
                        e, t = f".v{e}", ty
                    if t != ty:
                        raise Unsupported(f"{src}: argument {p} of type {t}, expected {ty}")
                    args.append(e)
                else:
                    dv = self.defaults.get(d, {}).get(p)
                    if dv is None:
                        raise Unsupported(f"{src}: missing argument {p}")
                    args.append(dv)
            return self.bind(binds, f"{spec['lean']} d " + " ".join(args), spec["ret"])
        raise Unsupported(f"call {src}")

    # ------------------------------------------------------------------ statements
    def ret(self, value, out, ind):
        want = self.spec["ret"]
        binds: list[str] = []
        if value is None:
            e, t = "()", "Unit"
        else:
            e, t = self.expr(value, binds)
        if t == "None" and want.startswith("Option "):
            e, t = "none", want
        elif t == "None" and want == "Unit":
            e, t = "()", "Unit"
        elif want == f"Option {t}":
            e, t = f"(some {e})", want
        if t != want:
            raise Unsupported(f"return of type {t}, expected {want}")
        for b in binds:
            out.append(ind + b)
        out.append(ind + (f"return Flow.ret {e}" if self.in_try else f"return {e}"))

    def stmt_simple(self, s, out, ind) -> bool:
        """translate one statement that is neither `if` nor `try`; False when it was dropped"""
        if isinstance(s, ast.Expr) and isinstance(s.value, ast.Constant) and isinstance(s.value.value, str):
            return False
        if isinstance(s, ast.Pass):
            out.append(ind + "pure ()")
            return True
        if isinstance(s, ast.Expr) and isinstance(s.value, ast.Call):
            d = _dotted(s.value.func)
            if d == "warnings.warn":
                if any(isinstance(x, ast.Call) for a in [*s.value.args, *[k.value for k in s.value.keywords]]
                       for x in ast.walk(a)):
                    raise Unsupported("warnings.warn with a computed argument")
                return False
            if d == "shutil.rmtree" and len(s.value.args) == 1 and not s.value.keywords:
                binds: list[str] = []
                e, t = self.expr(s.value.args[0], binds)
                if t != "StoreRef":
                    raise Unsupported(f"rmtree of {t}")
                out.extend(ind + b for b in binds)
                out.append(ind + f"rmtree {e}")
                return True
            raise Unsupported(f"call statement {ast.unparse(s)[:60]}")
        if isinstance(s, ast.Delete) and len(s.targets) == 1 and isinstance(s.targets[0], ast.Subscript):
            tgt = s.targets[0]
            binds = []
            if (isinstance(tgt.value, ast.Attribute) and tgt.value.attr == "attrs"
                    and isinstance(tgt.slice, ast.Constant) and tgt.slice.value == "geff"):
                g, tg = self.expr(tgt.value.value, binds)
                if tg != "Group":
                    raise Unsupported(f"del .attrs of {tg}")
                out.extend(ind + b for b in binds)
                out.append(ind + f"delAttrGeff d {g}")
                return True
            g, tg = self.expr(tgt.value, binds)
            k, tk = self.expr(tgt.slice, binds)
            if (tg, tk) != ("Group", "String"):
                raise Unsupported(f"del {ast.unparse(tgt)}")
            out.extend(ind + b for b in binds)
            out.append(ind + f"delItem {g} {k}")
            return True
        if isinstance(s, ast.Assign) and len(s.targets) == 1 and isinstance(s.targets[0], ast.Name):
            name = s.targets[0].id
            binds = []
            e, t = self.expr(s.value, binds)
            if t in ("None",):
                raise Unsupported(f"assignment of None to {name}")
            out.extend(ind + b for b in binds)
            if name in self.env:
                if self.env[name] != t:
                    raise Unsupported(f"variable {name}: {self.env[name]} reassigned with {t}")
                if name not in self.mut:
                    raise Unsupported(f"assignment to {name}, which is bound outside the enclosing try block")
                out.append(ind + f"{camel(name)} := {e}")
            else:
                self.env[name] = t
                self.mut.add(name)
                out.append(ind + f"let mut {camel(name)} : {t} := {e}")
            return True
        if isinstance(s, ast.Return):
            self.ret(s.value, out, ind)
            return True
        if isinstance(s, ast.Raise):
            exc = s.exc.func.id if isinstance(s.exc, ast.Call) and isinstance(s.exc.func, ast.Name) else None
            if exc is None:
                raise Unsupported(f"raise {ast.unparse(s)[:50]}")
            out.append(ind + f"Prog.raise ({RAISE.get(exc) or 'exc ' + lean_str(exc)})")
            return True
        raise Unsupported(f"statement {type(s).__name__}: {ast.unparse(s)[:60]}")

    def block(self, stmts, out, ind):
        """a statement list in its own scope"""
        saved_env, saved_mut = dict(self.env), set(self.mut)
        n0 = len(out)
        self.seq(stmts, out, ind)
        if len(out) == n0:
            out.append(ind + "pure ()")
        self.env = {k: v for k, v in self.env.items() if k in saved_env}
        self.mut = saved_mut

    def seq(self, stmts, out, ind):
        for k, s in enumerate(stmts):
            if isinstance(s, ast.If):
                binds: list[str] = []
                c, tc = self.expr(s.test, binds)
                if tc != "Bool":
                    raise Unsupported(f"condition of type {tc}")
                out.extend(ind + b for b in binds)
                out.append(ind + f"if {c} then")
                self.block(s.body, out, ind + "  ")
                if s.orelse:
                    out.append(ind + "else")
                    self.block(s.orelse, out, ind + "  ")
            elif isinstance(s, ast.Try):
                self.try_(s, stmts[k + 1:], out, ind)
                return
            else:
                self.stmt_simple(s, out, ind)

    @staticmethod
    def _names_read(stmts):
        return {x.id for st in stmts for x in ast.walk(st) if isinstance(x, ast.Name) and isinstance(x.ctx, ast.Load)}

    @staticmethod
    def _assigned_top(stmts):
        return {t.id for st in stmts if isinstance(st, ast.Assign) for t in st.targets if isinstance(t, ast.Name)}

    def try_(self, s: ast.Try, rest, out, ind):
        if s.orelse or s.finalbody or self.in_try:
            raise Unsupported("try with else/finally, or nested try")
        assigned = set()
        for st in ast.walk(ast.Module(body=[*s.body, *[x for h in s.handlers for x in h.body]], type_ignores=[])):
            if isinstance(st, ast.Assign):
                assigned |= {t.id for t in st.targets if isinstance(t, ast.Name)}
        exported = sorted(v for v in assigned if v not in self.env and v in self._names_read(rest))
        for v in exported:
            if v not in self._assigned_top(s.body):
                raise Unsupported(f"{v} is read after the try block but not assigned at its top level")
        handlers = []
        for h in s.handlers:
            # `except X as e`: the name is not bound in the translation (exception messages are dropped),
            # so any other use of it in the handler is refused as an unknown variable
            t = h.type
            elts = t.elts if isinstance(t, ast.Tuple) else [t]
            names = []
            for x in elts:
                dn = _dotted(x) if x is not None else None
                if dn is None:
                    raise Unsupported("bare except / computed exception class")
                names.append(dn.split(".")[-1])
            exits = bool(h.body) and isinstance(h.body[-1], (ast.Return, ast.Raise))
            for v in exported:
                if not exits and v not in self._assigned_top(h.body):
                    raise Unsupported(f"handler neither assigns {v} nor leaves the function")
            handlers.append((names, h.body, exits))
        env0, mut0 = dict(self.env), set(self.mut)
        r = self.fresh().replace("t", "r")

        def closed(stmts, i2, falls_through=True):
            """a block as its own `do` term: outer locals are read-only inside"""
            self.env, self.mut = dict(env0), set()
            self.in_try = True
            lines: list[str] = []
            self.seq(stmts, lines, i2)
            self.in_try = False
            if falls_through:
                tys = [self.env.get(v) for v in exported]
                if any(t is None for t in tys):
                    raise Unsupported("a local read after the try block is not bound on every path")
                tup = "(" + ", ".join(camel(v) for v in exported) + ")" if len(exported) != 1 else camel(exported[0])
                lines.append(i2 + f"return Flow.next {tup if exported else '()'}")
            else:
                tys = None
            return lines, tys

        body_lines, tys = closed(s.body, ind + "    ")
        nxt = " × ".join(tys) if tys else "Unit"
        if len(tys or []) > 1:
            nxt = f"({nxt})"
        fty = f"Prog (Flow ({self.spec['ret']}) ({nxt}))" if (" " in nxt and not nxt.startswith("(")) \
            else f"Prog (Flow ({self.spec['ret']}) {nxt})"
        out.append(ind + f"let {r} ← tryExcept")
        out.append(ind + "  (do")
        out.extend(body_lines)
        out.append(ind + f"    : {fty})")
        out.append(ind + "  (fun e =>")
        i3 = ind + "    "
        for k, (names, hbody, exits) in enumerate(handlers):
            cls = "[" + ", ".join(lean_str(c) for c in names) + "]"
            out.append(i3 + ("if" if k == 0 else "else if") + f" pyIsInstance e {cls} then (do")
            hl, htys = closed(hbody, i3 + "    ", falls_through=not exits)
            if htys is not None and htys != tys:
                raise Unsupported("handler binds the exported locals with other types")
            out.extend(hl)
            out.append(i3 + f"    : {fty})")
        out.append(i3 + "else Prog.raise e)")
        self.env, self.mut = dict(env0), set(mut0)
        out.append(ind + f"match {r} with")
        out.append(ind + f"| .ret v => return v")
        if not exported:
            pat = "_"
        elif len(exported) == 1:
            pat = camel(exported[0])
        else:
            pat = "(" + ", ".join(camel(v) for v in exported) + ")"
        out.append(ind + f"| .next {pat} =>")
        for v, t in zip(exported, tys or []):
            self.env[v] = t                       # immutable in the continuation
        n0 = len(out)
        self.seq(rest, out, ind + "    ")
        if len(out) == n0:
            out.append(ind + "    pure ()")


def translate_function(fn: ast.FunctionDef, name, spec, defaults) -> str:
    a = fn.args
    if [x.arg for x in a.args] != [p for p, _ in spec["params"]] or a.vararg or a.kwarg or a.kwonlyargs or a.posonlyargs:
        raise Unsupported(f"signature of {fn.name} changed: {[x.arg for x in a.args]}")
    if fn.decorator_list:
        raise Unsupported("decorator")
    tr = Fn(name, spec, defaults)
    body: list[str] = []
    reassigned = {t.id for st in ast.walk(fn) if isinstance(st, ast.Assign) for t in st.targets if isinstance(t, ast.Name)}
    for p, _ in spec["params"]:
        if p in reassigned:
            body.append(f"  let mut {camel(p)} := {camel(p)}")
            tr.mut.add(p)
    tr.seq(fn.body, body, "  ")
    last = fn.body[-1]
    if spec["ret"] == "Option Nat" and not isinstance(last, ast.Return):
        body.append("  return none")
    elif spec["ret"] != "Unit" and not isinstance(last, (ast.Return, ast.Raise, ast.If, ast.Try)):
        raise Unsupported("the function can fall off its end (returns None)")
    if not body:
        body.append("  pure ()")
    params = " ".join(f"({camel(p)} : {t})" for p, t in spec["params"])
    head = f"def {spec['lean']} (d : Docs) {params} : Prog ({spec['ret']}) := do"
    return "\n".join([head, *body])


def stub(spec) -> str:
    params = " ".join(f"(_{camel(p)} : {t})" for p, t in spec["params"])
    return f"def {spec['lean']} (_d : Docs) {params} : Prog ({spec['ret']}) := unmodelled"


def run(repo: Path, out: Path):
    errors: dict[str, str] = {}
    defs: list[str] = []
    consts: list[str] = []
    fns: dict[str, ast.FunctionDef] = {}
    try:
        tree = ast.parse((repo / SRC).read_text())
        fns = {n.name: n for n in tree.body if isinstance(n, ast.FunctionDef)}
    except Exception as e:  # noqa: BLE001
        errors["parse"] = f"{type(e).__name__}: {e}"
    # defaults of the signatures (used for omitted arguments; emitted as constants)
    defaults: dict[str, dict[str, str]] = {}
    for name in ORDER:
        spec = FUNCS[name]
        defaults[name] = {}
        fn = fns.get(name)
        if fn is None:
            continue
        args = fn.args.args
        ds = fn.args.defaults
        for a, dv in zip(args[len(args) - len(ds):], ds):
            ty = dict(spec["params"]).get(a.arg)
            try:
                if ty is None:
                    raise Unsupported(f"parameter {a.arg}")
                defaults[name][a.arg] = _const_default(dv, ty)
            except Unsupported as e:
                errors[f"{name}:default:{a.arg}"] = str(e)
    for name in ORDER:
        spec = FUNCS[name]
        for p, ty in spec["params"]:
            if ty in ("Fmt", "Option Fmt"):
                dv = defaults[name].get(p)
                val = "none" if dv is None else (dv if ty == "Option Fmt" else f"(some {dv})")
                consts.append(f"/-- the default of `{name}({p}=…)` in the signature (`none`: no default, or `None`) -/\n"
                              f"def {spec['lean']}DefaultZarrFormat : Option Fmt := {val}")
        try:
            if name not in fns:
                raise Unsupported(f"function {name} not found")
            text = translate_function(fns[name], name, spec, defaults)
            defs.append(f"/-- `{name}` ({SRC}:{fns[name].lineno}) -/\n" + text)
        except Unsupported as e:
            errors[name] = str(e)
            defs.append(f"/-- `{name}`: NOT TRANSLATED ({e}) -/\n" + stub(spec))
        except Exception as e:  # noqa: BLE001   (a translator bug must not take the whole run down)
            errors[name] = f"{type(e).__name__}: {e}"
            defs.append(f"/-- `{name}`: NOT TRANSLATED (translator error) -/\n" + stub(spec))
    ok = not errors
    body = "import GeffModel.PyDoStore\n" + HEADER
    body += "/-! The guard layer of `geff/core_io/_utils.py`, statement by statement (translator T19). -/\n"
    body += "set_option linter.unusedVariables false\n"
    body += "namespace Gen.StoreGuard\nopen Geff.KV Geff.PyDoStore Gen.Paths\n\n"
    body += f"def translationOk : Bool := {'true' if ok else 'false'}\n\n"
    body += "\n\n".join(consts) + "\n\n"
    body += "\n\n".join(defs) + "\n\nend Gen.StoreGuard\n"
    write_if_changed(out / "StoreGuard.lean", body)
    return {"ok": ok, **({"error": "; ".join(f"{k}: {v}" for k, v in errors.items())} if errors else {})}
