"""C19 — segmentation consistency checks report exactly their documented condition, never an
exception.

Implementation (working tree): the five functions of geff.validate.segmentation.
Model: lean/GeffModel/Segmentation.lean through Drivers/C19.lean; theorems GeffProps.C19.
Source-derived model: translator T13 (harness/translators/t13_pydo_segmentation.py) regenerates
lean/Gen/Segmentation.lean from the five functions on every run; GeffProps.C19Gen proves the generated
functions equal to the hand-written model (all inputs) and restates the C19 theorems on them.
Oracle (independent of the model): each documented condition evaluated in plain Python over the
flat label list with exact rational arithmetic (fractions.Fraction); where the implementation's
float product `c * s` is not exact and rounding changes an index or a comparison, the case is
tagged `rounding-sensitive`, compared with a float-arithmetic reading only, and not with the
(exact) Lean model.
Messages are compared structurally: each error string is parsed into a tag with its numbers.
"""
from __future__ import annotations

import itertools
import json
import math
import re
from fractions import Fraction

import numpy as np

from harness import common

PROP = "C19"

DTYPES = ["bool", "int8", "int16", "int32", "int64", "uint8", "uint16", "uint32", "uint64",
          "float16", "float32", "float64", "str"]


# ----------------------------------------------------------------- message parsing
PATTERNS = [
    (re.compile(r"^Missing seg_id property in Zarr store$"), lambda m, c: ["missingSegId"]),
    (re.compile(r"^'seg_id' array has non-integer dtype"), lambda m, c: ["nonIntegerDtype"]),
    (re.compile(r"^Mismatch in number of node IDs and seg_ids\.$"), lambda m, c: ["missingEntries"]),
    (re.compile(r"^No axes metadata found in this geff\.$"), lambda m, c: ["noAxes"]),
    (re.compile(r"^Length of scale factor list \((\d+) does not match with the number of dimensions in the segmentation \((\d+)\)$"),
     lambda m, c: ["scaleLength", int(m.group(1)), int(m.group(2))]),
    (re.compile(r"^Number of axes in the geff metadata \((\d+)\) does not match the number of dimensions in the segmentation \((\d+)\)$"),
     lambda m, c: ["axesLength", int(m.group(1)), int(m.group(2))]),
    (re.compile(r"^Graph axis (\d+) is out of bounds with value"), lambda m, c: ["axisOutOfBounds", int(m.group(1))]),
    (re.compile(r"^No axis 'max' value found in this geff metadata\.$"), lambda m, c: ["noAxisMax"]),
    (re.compile(r"^Time point (-?\d+) is out of bounds"), lambda m, c: ["timeOutOfBounds", int(m.group(1))]),
    (re.compile(r"^Missing seg_id (-?\d+) at time (-?\d+)$"), lambda m, c: ["missingLabel", int(m.group(1)), int(m.group(2))]),
    (re.compile(r"^Coordinate list must have the same length as the list of seg_ids to test\.$"), lambda m, c: ["lengthMismatch"]),
    (re.compile(r"^Coords (.*) do not have one value per dimension of the segmentation", re.S),
     lambda m, c: ["coordLength", coord_index(m.group(1), c)]),
    (re.compile(r"^Coords (.*) are out of bounds for segmentation data with shape", re.S),
     lambda m, c: ["coordOutOfBounds", coord_index(m.group(1), c)]),
]


def coord_index(text, case):
    """the message prints the offending coordinate; the structured tag carries its position"""
    strs = case.get("coord_strs")
    if strs is None:
        strs = [str(c) for c in case.get("coords", [])]
    for k, c in enumerate(strs):
        if c == text:
            return k
    return -1


def parse_msg(s, case):
    for pat, f in PATTERNS:
        m = pat.match(s)
        if m:
            return f(m, case)
    return ["unparsed", s[:120]]


# ----------------------------------------------------------------- building inputs
def mk_metadata(axes):
    import geff_spec

    if axes == "nometa":
        return None
    ax = None
    if axes is not None:
        ax = []
        for i, a in enumerate(axes):
            mx = a.get("max")
            ax.append(geff_spec.Axis(name=f"a{i}", type=a.get("type"),
                                     min=None if mx is None else min(0.0, float(mx)), max=mx))
    return geff_spec.GeffMetadata(geff_version="1.0.0", directed=True, node_props_metadata={},
                                  edge_props_metadata={}, axes=ax)


def mk_seg(case):
    return np.asarray(case["flat"], dtype=case.get("seg_dtype", "int64")).reshape(case["shape"])


def call(f, case, *a, **k):
    try:
        ok, errs = f(*a, **k)
    except Exception as ex:  # noqa: BLE001
        return {"exc": type(ex).__name__}
    if not isinstance(ok, (bool, np.bool_)) or not isinstance(errs, list):
        return {"exc": "bad-return-type"}
    return {"ok": bool(ok), "errors": [parse_msg(e, case) for e in errs]}


# ---- argument flavours: the same logical input as the caller may hold it
def fits(v, dt):
    info = np.iinfo(dt)
    return info.min <= v <= info.max


def int_array(vals, dt=None):
    for c in ([dt] if dt else []) + ["int64", "uint64"]:
        if all(fits(v, c) for v in vals):
            return np.asarray(list(vals), dtype=c)
    return None


def np_scalar(v):
    return np.int64(v) if fits(v, "int64") else np.uint64(v) if fits(v, "uint64") else v


def conv_ints(vals, fl):
    """seg ids / time points"""
    if fl in (None, "list"):
        return list(vals)
    if fl == "tuple":
        return tuple(vals)
    if fl == "np_scalars":
        return [np_scalar(v) for v in vals]
    if fl.startswith("array"):
        a = int_array(vals, fl.split(":")[1] if ":" in fl else None)
        if a is None:
            return list(vals)
        if fl.startswith("array_ro"):
            a.setflags(write=False)
        return a
    raise ValueError(fl)


def f32_exact(x):
    return float(np.float32(x)) == float(x)


def pow2(x):
    fr = Fraction(x)
    return fr > 0 and (fr.numerator == 1 or fr.denominator == 1) and (fr.numerator & (fr.numerator - 1)) == 0


def conv_coords(coords, fl, scale):
    if fl in (None, "list_of_lists"):
        return [list(c) for c in coords]
    if fl == "list_of_tuples":
        return [tuple(c) for c in coords]
    if fl == "tuple_of_arrays":
        return tuple(np.asarray(c, dtype=np.float64) for c in coords)
    rect = len(coords) > 0 and len({len(c) for c in coords}) == 1 and len(coords[0]) > 0
    if not rect:
        return [list(c) for c in coords]
    flat = [x for c in coords for x in c]
    dt = np.float64
    if fl == "i64_2d" and all(float(x).is_integer() for x in flat):
        dt = np.int64
    elif fl == "f32_2d" and all(f32_exact(x) for x in flat) and all(pow2(x) for x in (scale or [])):
        dt = np.float32                      # products with powers of two stay exact in float32
    a = np.asarray(coords, dtype=dt)
    if fl.endswith("_ro"):
        a.setflags(write=False)
    return a


def conv_scale(scale, fl):
    if scale is None:
        return None
    if fl in (None, "list"):
        return list(scale)
    if fl == "tuple":
        return tuple(scale)
    if fl == "array_i64" and all(isinstance(x, int) for x in scale):
        return np.asarray(scale, dtype=np.int64)
    a = np.asarray(scale, dtype=np.float64)
    if fl.endswith("_ro"):
        a.setflags(write=False)
    return a


def plain(x):
    return x.item() if isinstance(x, np.generic) else x


def snap(o):
    """structural snapshot of an argument (to detect that a function modified it)"""
    if isinstance(o, np.ndarray):
        return ("nd", o.dtype.str, o.shape, o.tobytes(), bool(o.flags.writeable))
    if isinstance(o, np.generic):
        return ("sc", o.dtype.str, o.tobytes())
    if isinstance(o, (list, tuple)):
        return (type(o).__name__, tuple(snap(x) for x in o))
    if isinstance(o, dict):
        return ("dict", tuple((k, snap(v)) for k, v in o.items()))
    if hasattr(o, "model_dump_json"):
        return ("md", o.model_dump_json())
    return ("py", repr(o))


class Args:
    """the argument objects of one case, built once and shared by all calls of a history"""

    def __init__(self, case):
        fl = case.get("flavour", {})
        self.case = case
        self.seg = mk_seg(case) if "flat" in case else np.zeros(case["seg_shape"], dtype=case.get("seg_dtype", "int64"))
        if fl.get("seg") == "ro":
            self.seg.setflags(write=False)
        self.scale = conv_scale(case.get("scale"), fl.get("scale"))
        self.coords = conv_coords(case["coords"], fl.get("coords"), case.get("scale")) if "coords" in case else None
        self.ids = conv_ints(case["ids"], fl.get("ids")) if "ids" in case else None
        self.tps = conv_ints(case["tps"], fl.get("tps")) if "tps" in case else None
        self.md = mk_metadata(case.get("axes")) if "axes" in case else None
        # an InMemoryGeff always carries metadata; "nometa" only means the optional `metadata` argument
        # of has_seg_ids_at_time_points is not given
        self.geff = {"metadata": self.md if self.md is not None else mk_metadata(None)}
        self.refresh()

    def refresh(self):
        self.objs = {"segmentation": self.seg, "scale": self.scale, "coords": self.coords, "seg_ids": self.ids,
                     "time_points": self.tps, "metadata": self.geff["metadata"]}

    def set_md(self, new):
        if self.md is not None:
            self.md = new
        self.geff["metadata"] = new
        self.refresh()

    def current_axes(self, kind):
        """the axes as the metadata object holds them NOW (fields, not any cache)"""
        md = self.md if kind == "time" else self.geff["metadata"]
        if md is None:
            return "nometa"
        if md.axes is None:
            return None
        return [{"type": a.type, "max": a.max} for a in md.axes]

    def apply_edit(self, e):
        """a legitimate change the caller makes to the SAME objects between two calls"""
        import copy

        import geff_spec
        from geff_spec.utils import compute_and_add_axis_min_max

        md = self.geff["metadata"]
        k = e["edit"]
        if k == "axis_max":
            ax, mx = md.axes[e["i"]], e["max"]
            ax.min = None if mx is None else min(0.0, float(mx))
            ax.max = mx
        elif k == "axis_type":
            md.axes[e["i"]].type = e["type"]
        elif k == "axes_reverse":
            md.axes.reverse()
        elif k == "axes_replace":
            md.axes = [geff_spec.Axis(name=f"b{i}", type=a.get("type"), max=a.get("max"),
                                      min=None if a.get("max") is None else min(0.0, float(a["max"])))
                       for i, a in enumerate(e["axes"])]
        elif k == "model_copy":
            self.set_md(md.model_copy())
        elif k == "deepcopy":
            self.set_md(copy.deepcopy(md))
        elif k == "recompute":
            props = {ax.name: {"values": np.asarray([min(0.0, float(mx)), float(mx)]), "missing": None}
                     for ax, mx in zip(md.axes, e["maxima"], strict=True)}
            self.set_md(compute_and_add_axis_min_max(md, props))
        elif k == "relabel":
            self.seg[tuple(e["idx"])] = e["label"]
        elif k == "zero_slab":
            self.seg[-1] = 0
        elif k == "extend_coords":
            self.coords.append(list(e["coord"]))
            self.ids.append(e["id"])
        elif k == "extend_time":
            self.tps.append(e["t"])
            self.ids.append(e["id"])
        elif k == "scale_set":
            self.scale[e["i"]] = e["value"]
        else:
            raise ValueError(k)

    def effective(self, kind):
        """the plain single-call case these objects denote (what oracle and model are asked about)"""
        c = self.case
        e = {"kind": kind, "axes": self.current_axes(kind)}
        shape = [int(n) for n in self.seg.shape]
        if kind in ("in_bounds", "axes_match"):
            e["seg_shape"] = shape
        else:
            e["shape"], e["flat"] = shape, [int(v) for v in self.seg.ravel().tolist()]
        if kind in ("in_bounds", "coords"):
            e["scale"] = None if self.scale is None else [plain(x) for x in (self.scale.tolist() if isinstance(self.scale, np.ndarray) else self.scale)]
        if kind == "coords":
            e["coords"] = [[plain(x) for x in (r.tolist() if isinstance(r, np.ndarray) else r)] for r in self.coords]
            e["coord_strs"] = [str(r) for r in self.coords]
        if kind in ("coords", "time"):
            e["ids"] = [int(x) for x in self.ids]
        if kind == "time":
            e["tps"] = [int(x) for x in self.tps]
        if "seg_dtype" in c:
            e["seg_dtype"] = c["seg_dtype"]
        return e

    def invoke(self, kind, eff):
        from geff.validate import segmentation as S

        if kind == "axes_match":
            return call(S.axes_match_seg_dims, eff, self.geff, self.seg)
        if kind == "in_bounds":
            if self.scale is None:
                return call(S.graph_is_in_seg_bounds, eff, self.geff, self.seg)
            return call(S.graph_is_in_seg_bounds, eff, self.geff, self.seg, scale=self.scale)
        if kind == "time":
            return call(S.has_seg_ids_at_time_points, eff, self.seg, self.tps, self.ids, self.md)
        if kind == "coords":
            if self.scale is None:
                return call(S.has_seg_ids_at_coords, eff, self.seg, self.coords, self.ids)
            return call(S.has_seg_ids_at_coords, eff, self.seg, self.coords, self.ids, scale=self.scale)
        raise ValueError(kind)


def run_calls(case):
    """-> {"calls": [(kind, effective case, impl obs, expected)], "extra": [(key, what, observed, expected)]}
    One call for an ordinary case; for a history (`calls`: list of kinds) the same argument objects are
    handed to every call.  After every call each argument is compared with its snapshot."""
    args = Args(case)
    steps = case.get("steps") or case.get("calls") or [case["kind"]]
    out, extra = [], []
    first = {}
    edited = False
    n = -1
    for step in steps:
        if isinstance(step, dict):               # the caller edits the same objects between two calls
            args.apply_edit(step)
            first = {}
            edited = True
            continue
        kind = step
        n += 1
        eff_now = args.effective(kind)           # the CURRENT contents: what this call is judged by
        before = {k: snap(v) for k, v in args.objs.items()}
        im = args.invoke(kind, eff_now)
        after = {k: snap(v) for k, v in args.objs.items()}
        changed = [k for k in before if before[k] != after[k]]
        if changed:
            extra.append(("C19:function-modifies-argument",
                          f"call {n} ({kind}) modified its argument(s) {changed}", changed, "arguments unchanged"))
        if kind not in first:
            first[kind] = (eff_now, im)
            eff_ref = eff_now
        else:
            # no edit since the previous call of this function: same verdict, judged by the contents as
            # first handed over (an in-place modification by the function must not move the goal)
            eff_ref, im0 = first[kind]
            if im != im0:
                extra.append(("C19:history-dependent-verdict",
                              f"call {n} ({kind}) with the same argument objects returned {im} after {im0}", im, im0))
        if edited:
            # the same contents in freshly built objects: the verdict must not depend on what was
            # checked before the edit
            fresh = dict(eff_ref)
            fresh_args = Args(fresh)
            im_fresh = fresh_args.invoke(kind, fresh_args.effective(kind))
            if im_fresh != im:
                extra.append(("C19:history-dependent-verdict",
                              f"call {n} ({kind}) after an edit of its arguments returned {im}; the same contents in "
                              f"fresh objects give {im_fresh}", im, im_fresh))
        out.append((kind, {k: v for k, v in eff_ref.items() if k != "coord_strs"}, im, oracle(eff_ref)))
    return {"calls": out, "extra": extra}


def impl_obs(case):
    from geff.validate import segmentation as S

    k = case["kind"]
    if k == "valid":
        props = {}
        for name, info in case["props"].items():
            n = case.get("n", 3)
            dt = "<U3" if info["dtype"] == "str" else info["dtype"]
            vals = np.zeros(n, dtype=dt)
            if case.get("extreme") and np.dtype(dt).kind in "iu":
                vals[...] = np.iinfo(dt).max
            if case.get("extreme"):
                vals.setflags(write=False)
            props[name] = {"values": vals,
                           "missing": None if info["missing"] is None else np.asarray(info["missing"], dtype=bool)}
        g = {"node_props": props}
        before = snap(props)
        r = call(S.has_valid_seg_id, case, g, case["key"]) if case["key"] != "seg_id" or case.get("explicit_key") \
            else call(S.has_valid_seg_id, case, g)
        if snap(props) != before:
            r["modified"] = True
        return r
    raise ValueError(k)


# ----------------------------------------------------------------- oracle (documented conditions)
def truthy_axes(axes):
    return axes if (axes not in (None, "nometa") and len(axes) > 0) else None


def ravel(shape, idx):
    r = 0
    for n, i in zip(shape, idx):
        r = r * n + i
    return r


def oracle(case):
    """-> {"ok":bool, "errors":[...]} expected from the documentation, plus "sensitive": True when
    float rounding of a product changes a decision (then no verdict)"""
    k = case["kind"]
    if k == "valid":
        info = case["props"].get(case["key"])
        if info is None:
            return {"ok": False, "errors": [["missingSegId"]]}
        if not (info["dtype"].startswith("int") or info["dtype"].startswith("uint")):
            return {"ok": False, "errors": [["nonIntegerDtype"]]}
        if info["missing"] is not None and any(info["missing"]):
            return {"ok": False, "errors": [["missingEntries"]]}
        return {"ok": True, "errors": []}
    if k == "axes_match":
        ax = truthy_axes(case["axes"])
        if ax is None:
            return {"ok": False, "errors": [["noAxes"]]}
        return {"ok": len(ax) == len(case["seg_shape"]), "errors": []}
    if k == "in_bounds":
        shape = case["seg_shape"]
        nd = len(shape)
        scale = case["scale"] if case["scale"] is not None else [1.0] * nd
        if len(scale) != nd:
            return {"ok": False, "errors": [["scaleLength", len(scale), nd]]}
        ax = truthy_axes(case["axes"])
        if ax is None:
            return {"ok": False, "errors": [["noAxes"]]}
        if len(ax) != nd:
            return {"ok": False, "errors": [["axesLength", len(ax), nd]]}
        sensitive = False
        for i, a in enumerate(ax):
            if a.get("max") is None:
                return {"ok": False, "errors": [["noAxisMax"]], "sensitive": sensitive}
            mx = Fraction(float(a["max"]))
            exact = shape[i] * Fraction(scale[i]) <= mx
            flt = shape[i] * scale[i] <= float(a["max"])
            if exact != flt:
                sensitive = True
            if exact:
                return {"ok": False, "errors": [["axisOutOfBounds", i]], "sensitive": sensitive}
        return {"ok": True, "errors": [], "sensitive": sensitive}
    if k == "time":
        shape, flat = case["shape"], case["flat"]
        ax = truthy_axes(case["axes"])
        ti = 0
        if ax is not None:
            tis = [i for i, a in enumerate(ax) if a.get("type") == "time"]
            if len(tis) == 1:
                ti = tis[0]
        errs, anymiss = [], False
        pairs = list(zip(case["tps"], case["ids"]))
        for t in case["tps"]:
            if ti >= len(shape) or not (0 <= t < shape[ti]):
                return {"ok": False, "errors": errs + [["timeOutOfBounds", t]]}
            labels = {flat[ravel(shape, idx)] for idx in itertools.product(*[range(n) for n in shape]) if idx[ti] == t}
            for tt, i in pairs:
                if tt == t and i not in labels:
                    errs.append(["missingLabel", i, t])
                    anymiss = True
        return {"ok": not anymiss, "errors": errs}
    if k == "coords":
        shape, flat = case["shape"], case["flat"]
        nd = len(shape)
        if len(case["coords"]) != len(case["ids"]):
            return {"ok": False, "errors": [["lengthMismatch"]]}
        scale = case["scale"] if case["scale"] is not None else [1.0] * nd
        if len(scale) != nd:
            return {"ok": False, "errors": [["scaleLength", len(scale), nd]]}
        anymiss, sensitive = False, False
        for kk, (c, i) in enumerate(zip(case["coords"], case["ids"])):
            if len(c) != nd:
                return {"ok": False, "errors": [["coordLength", kk]], "sensitive": sensitive}
            ex = [Fraction(x) * Fraction(s) for x, s in zip(c, scale)]
            fl = [Fraction(x * s) for x, s in zip(c, scale)]
            dec_e = [(0 <= v < n, math.floor(v)) for v, n in zip(ex, shape)]
            dec_f = [(0 <= v < n, math.floor(v)) for v, n in zip(fl, shape)]
            if dec_e != dec_f:
                sensitive = True
            if not all(d[0] for d in dec_e):
                return {"ok": False, "errors": [["coordOutOfBounds", kk]], "sensitive": sensitive}
            if flat[ravel(shape, [d[1] for d in dec_e])] != i:
                anymiss = True
        return {"ok": not anymiss, "errors": [], "sensitive": sensitive}
    raise ValueError(k)


# ----------------------------------------------------------------- model requests
def dy(x):
    fr = Fraction(x)
    e = fr.denominator.bit_length() - 1
    assert fr.denominator == 1 << e
    m = fr.numerator
    return [m if abs(m) < 2 ** 53 else str(m), e]


def ji(v):
    return v if abs(v) < 2 ** 53 else str(v)


def unstr(o):
    """driver answers carry integers above 2^53 as decimal strings"""
    if isinstance(o, list):
        return [unstr(x) for x in o]
    if isinstance(o, dict):
        return {k: unstr(v) for k, v in o.items()}
    if isinstance(o, str) and re.fullmatch(r"-?\d+", o):
        return int(o)
    return o


def axes_json(axes):
    if axes in (None, "nometa"):
        return None
    return [{"type": a.get("type"), "max": None if a.get("max") is None else dy(float(a["max"]))} for a in axes]


def model_req(case):
    k = case["kind"]
    if k == "valid":
        return {"op": "valid_seg_id", "key": case["key"],
                "props": [[n, {"dtype": i["dtype"], "missing": i["missing"]}] for n, i in case["props"].items()]}
    if k == "axes_match":
        return {"op": "axes_match", "axes": axes_json(case["axes"]), "nd": len(case["seg_shape"])}
    if k == "in_bounds":
        return {"op": "in_bounds", "axes": axes_json(case["axes"]), "shape": case["seg_shape"],
                "scale": None if case["scale"] is None else [dy(s) for s in case["scale"]]}
    if k == "time":
        return {"op": "time_points", "shape": case["shape"], "flat": [ji(v) for v in case["flat"]],
                "tps": [ji(v) for v in case["tps"]], "ids": [ji(v) for v in case["ids"]], "axes": axes_json(case["axes"])}
    if k == "coords":
        return {"op": "coords", "shape": case["shape"], "flat": [ji(v) for v in case["flat"]], "ids": [ji(v) for v in case["ids"]],
                "coords": [[dy(x) for x in c] for c in case["coords"]],
                "scale": None if case["scale"] is None else [dy(s) for s in case["scale"]]}
    raise ValueError(k)


# ----------------------------------------------------------------- generators
def labels_for(shape, mode=0):
    n = math.prod(shape)
    if mode == 0:
        return [i + 1 for i in range(n)]                       # all distinct
    if mode == 1:
        return [(i * 7) % 4 for i in range(n)]                 # repeats, zeros
    return [5] * n


ALL3 = [list(s) for s in itertools.product([1, 2, 3], repeat=3)]
ALL4 = [list(s) for s in itertools.product([1, 2, 3], repeat=4)]


def gen_valid():
    for present in (True, False):
        for dt in DTYPES:
            for miss in (None, [], [False, False, False], [False, True, False], [True, True, True]):
                for other in (False, True):
                    props = {}
                    if other:
                        props["other"] = {"dtype": "int64", "missing": None}
                    if present:
                        props["seg_id"] = {"dtype": dt, "missing": miss}
                    yield {"kind": "valid", "props": props, "key": "seg_id", "n": 3 if miss != [] else 0}
    yield {"kind": "valid", "props": {"label": {"dtype": "uint16", "missing": None}}, "key": "label", "explicit_key": True}
    yield {"kind": "valid", "props": {"label": {"dtype": "uint16", "missing": None}}, "key": "seg_id"}


def gen_axes_match():
    for nd in range(1, 5):
        shape = [2] * nd
        for axes in [None, []] + [[{"type": "space"}] * n for n in range(1, 6)]:
            yield {"kind": "axes_match", "axes": axes, "seg_shape": shape}


def gen_in_bounds(ck):
    shapes3 = ALL3[::3] if ck.quick else ALL3
    shapes4 = [[1, 2, 1, 3], [3, 1, 2, 2]] if ck.quick else ALL4[::5]
    for shape in shapes3 + shapes4:
        nd = len(shape)
        scales = [None, [1.0] * nd, [1] * nd, [0.5, 1.0, 2.0, 4.0][:nd], [2.0] * nd, [1.0] * (nd - 1), [1.0] * (nd + 1)]
        for la in (nd - 1, nd, nd + 1):
            opts = []
            for i in range(la):
                ext = shape[i] if i < nd else 2
                opts.append([None, 0, ext - 1, ext] if (nd == 3 or i < 2) else [ext - 1, ext])
            for si, scale in enumerate(scales):
                for combo in itertools.product(*opts):
                    # maxima are given in the *scaled* extent so that the boundary cases stay boundary cases
                    axes = []
                    for i, mx in enumerate(combo):
                        s = 1.0 if (scale is None or i >= len(scale)) else scale[i]
                        axes.append({"type": "time" if i == 0 else "space", "max": None if mx is None else mx * s})
                    if la != nd and len(set(combo)) > 1 and not (si == 0 and combo[0] is not None):
                        continue
                    yield {"kind": "in_bounds", "axes": axes, "seg_shape": shape, "scale": scale}
        yield {"kind": "in_bounds", "axes": None, "seg_shape": shape, "scale": None}
        yield {"kind": "in_bounds", "axes": [], "seg_shape": shape, "scale": None}


def time_axes(nd, pos, extra=0):
    return [{"type": "time" if i == pos else "space"} for i in range(nd + extra)]


def gen_time(ck):
    shapes = ALL3[::2] + [[1, 2, 1, 2], [2, 3, 1, 1], [3, 1, 2, 3]] if ck.quick else ALL3 + ALL4[::4]
    for shape in shapes:
        nd = len(shape)
        for mode in (0, 1):
            flat = labels_for(shape, mode)
            axes_opts = [("nometa", 0), (None, 0)] + [(time_axes(nd, p), p) for p in range(nd)] + \
                        [(time_axes(nd, -1), 0), ([{"type": "time"}] * nd, 0), (time_axes(nd, nd, extra=1), nd),
                         # two time axes, none of them first: ambiguous -> axis 0
                         ([{"type": "time" if i in (1, nd - 1) else "space"} for i in range(nd)], 0),
                         ([{"type": "time" if i >= 1 else None} for i in range(nd)], 0)]
            for axes, ti in axes_opts:
                ext = shape[ti] if ti < nd else 1
                tvals = sorted({-1, 0, ext - 1, ext, -ext})
                present = {}
                for t in tvals:
                    tw = t if 0 <= t < ext else (t + ext if -ext <= t < 0 else None)
                    if tw is None or ti >= nd:
                        present[t] = flat[0]
                    else:
                        present[t] = next(flat[ravel(shape, idx)] for idx in itertools.product(*[range(n) for n in shape]) if idx[ti] == tw)
                absent = 999
                for t in tvals:
                    yield {"kind": "time", "shape": shape, "flat": flat, "tps": [t], "ids": [present[t]], "axes": axes}
                    yield {"kind": "time", "shape": shape, "flat": flat, "tps": [t], "ids": [absent], "axes": axes}
                for t1, t2 in itertools.product(tvals, repeat=2):
                    yield {"kind": "time", "shape": shape, "flat": flat, "tps": [t1, t2], "ids": [present[t1], absent], "axes": axes}
                    if mode == 0:
                        yield {"kind": "time", "shape": shape, "flat": flat, "tps": [t1, t2, t1], "ids": [absent, present[t2], present[t1]], "axes": axes}
                yield {"kind": "time", "shape": shape, "flat": flat, "tps": [], "ids": [], "axes": axes}
                yield {"kind": "time", "shape": shape, "flat": flat, "tps": [0, 0], "ids": [present[0]], "axes": axes}
                yield {"kind": "time", "shape": shape, "flat": flat, "tps": [0], "ids": [present[0], absent], "axes": axes}


def gen_coords(ck):
    shapes = ALL3 + [[1, 2, 1, 2], [2, 3, 1, 1], [3, 1, 2, 3]] if ck.quick else ALL3 + ALL4
    for shape in shapes:
        nd = len(shape)
        flat = labels_for(shape, 0)
        scales = [None, [1.0] * nd, [0.5, 1.0, 2.0, 4.0][:nd], [2, 1, 1, 1][:nd]]
        for scale in scales:
            sc = scale if scale is not None else [1.0] * nd
            grid = [sorted({-1, 0, n - 1, n}) for n in shape]
            for pix in itertools.product(*grid):
                # world coordinate whose scaled value is exactly the pixel index (dyadic scales)
                coord = [p / s if isinstance(s, float) else Fraction(p, s) for p, s in zip(pix, sc)]
                coord = [float(c) if isinstance(c, Fraction) and c.denominator != 1 else (int(c) if isinstance(c, Fraction) else c) for c in coord]
                coord = [int(c) if float(c).is_integer() and scale is None else c for c in coord]
                wrapped = [p if 0 <= p < n else (p + n if -n <= p < 0 else None) for p, n in zip(pix, shape)]
                lab = flat[ravel(shape, wrapped)] if None not in wrapped else flat[0]
                yield {"kind": "coords", "shape": shape, "flat": flat, "coords": [coord], "ids": [lab], "scale": scale}
                if all(0 <= p < n for p, n in zip(pix, shape)):
                    yield {"kind": "coords", "shape": shape, "flat": flat, "coords": [coord], "ids": [lab + 1], "scale": scale}
                    # half a pixel further: same pixel
                    half = [c + 0.5 / s for c, s in zip(coord, sc)]
                    yield {"kind": "coords", "shape": shape, "flat": flat, "coords": [coord, half], "ids": [lab, lab], "scale": scale}
                    # just below zero on the first axis: int() truncation would give pixel 0
                    if pix[0] == 0:
                        neg = [-0.5 / sc[0]] + list(coord[1:])
                        yield {"kind": "coords", "shape": shape, "flat": flat, "coords": [neg], "ids": [lab], "scale": scale}
        # malformed: lengths
        c0 = [0] * nd
        yield {"kind": "coords", "shape": shape, "flat": flat, "coords": [c0], "ids": [flat[0], 2], "scale": None}
        yield {"kind": "coords", "shape": shape, "flat": flat, "coords": [c0, c0], "ids": [flat[0]], "scale": None}
        yield {"kind": "coords", "shape": shape, "flat": flat, "coords": [c0], "ids": [flat[0]], "scale": [1.0] * (nd - 1)}
        yield {"kind": "coords", "shape": shape, "flat": flat, "coords": [c0], "ids": [flat[0]], "scale": [1.0] * (nd + 1)}
        yield {"kind": "coords", "shape": shape, "flat": flat, "coords": [c0[:-1]], "ids": [flat[0]], "scale": None}
        yield {"kind": "coords", "shape": shape, "flat": flat, "coords": [c0, c0 + [0]], "ids": [flat[0], flat[0]], "scale": None}
        yield {"kind": "coords", "shape": shape, "flat": flat, "coords": [c0, []], "ids": [flat[0], flat[0]], "scale": None}
        yield {"kind": "coords", "shape": shape, "flat": flat, "coords": [], "ids": [], "scale": None}


def gen_random(rng, n):
    for i in range(n):
        nd = rng.choice([2, 3, 3, 4])
        shape = [rng.randint(1, 4) for _ in range(nd)]
        flat = [rng.choice([0, 1, 2, 3, 7]) for _ in range(math.prod(shape))]
        kind = rng.choice(["time", "coords", "coords", "in_bounds"])
        pool = [0.5, 1.0, 2.0, 4.0, 0.25, 1, 3, 0.1, 0.3, 1.7, 100.0, 1e-3]
        scale = None if rng.random() < 0.25 else [rng.choice(pool) for _ in range(nd if rng.random() < 0.9 else rng.randint(0, 5))]
        if kind == "time":
            pos = rng.randint(0, nd - 1)
            axes = rng.choice(["nometa", None, time_axes(nd, pos), time_axes(nd, pos, extra=rng.choice([0, 0, 1]))])
            m = rng.randint(0, 5)
            tps = [rng.randint(-2, 4) if rng.random() < 0.3 else rng.randint(0, max(shape) - 1) for _ in range(m)]
            ids = [rng.choice([0, 1, 2, 3, 7, 9]) for _ in range(m + rng.choice([0, 0, 0, -1, 1]) if m else 0)]
            yield {"kind": "time", "shape": shape, "flat": flat, "tps": tps, "ids": ids, "axes": axes}
        elif kind == "coords":
            m = rng.randint(0, 4)
            sc = scale if (scale is not None and len(scale) == nd) else [1.0] * nd
            coords = []
            ids = []
            for _ in range(m):
                pix = [rng.randint(0, n - 1) if rng.random() < 0.85 else rng.choice([-1, n, n + 1, -n]) for n in shape]
                c = [(p + rng.choice([0, 0, 0.5, 0.25])) / s for p, s in zip(pix, sc)]
                if rng.random() < 0.07:
                    c = c[:-1] if rng.random() < 0.5 else c + [0]
                coords.append(c)
                ok = len(c) == nd and all(0 <= p < n for p, n in zip(pix, shape))
                ids.append(flat[ravel(shape, pix)] if ok and rng.random() < 0.8 else rng.choice([0, 1, 9]))
            if rng.random() < 0.05 and ids:
                ids = ids[:-1]
            yield {"kind": "coords", "shape": shape, "flat": flat, "coords": coords, "ids": ids, "scale": scale}
        else:
            la = rng.choice([nd, nd, nd, nd - 1, nd + 1])
            axes = []
            for j in range(la):
                ext = shape[j] if j < nd else 2
                s = scale[j] if (scale is not None and j < len(scale)) else 1.0
                mx = rng.choice([None, 0, ext - 1, ext, ext - 0.5, ext + 3])
                axes.append({"type": rng.choice(["time", "space", None]), "max": None if mx is None else mx * s})
            yield {"kind": "in_bounds", "axes": rng.choice([axes, axes, axes, None, []]), "seg_shape": shape, "scale": scale}


INT_DTYPES = ["int8", "int16", "int32", "int64", "uint8", "uint16", "uint32", "uint64"]
COORDS_FL = ["list_of_tuples", "f64_2d", "f32_2d", "i64_2d", "f64_2d_ro", "tuple_of_arrays"]
IDS_FL = ["np_scalars", "array", "tuple", "array_ro", "array:int16", "array:uint64"]
TPS_FL = ["tuple", "array", "np_scalars", "array_ro", "array:int8"]
SCALE_FL = ["tuple", "array_f64", "array_f64_ro", "array_i64"]


def flavour(k):
    return {"coords": COORDS_FL[k % 6], "ids": IDS_FL[(k // 2) % 6], "tps": TPS_FL[(k // 3) % 5],
            "scale": SCALE_FL[k % 4], "seg": "ro" if k % 3 == 0 else None}


def gen_narrow():
    """label volumes of every integer dtype (and bool), seg ids / expected labels outside the dtype's
    range and congruent to present labels modulo 2^8, 2^16, 2^32, 2^64"""
    k = 0
    shape = [2, 1, 2]
    for dt in ["bool"] + INT_DTYPES:
        lo, hi = (0, 1) if dt == "bool" else (int(np.iinfo(dt).min), int(np.iinfo(dt).max))
        flat = [1, hi, lo, min(2, hi)] if dt != "bool" else [1, 0, 0, 1]
        for p, lab in enumerate(flat):
            idx = [p // 2, 0, p % 2]
            cand = {lab, -lab, -1, 0, 2 ** 63, 2 ** 64 - 1, lab + (hi - lo + 1), lab - (hi - lo + 1)}
            for b in (8, 16, 32, 64):
                cand |= {lab + 2 ** b, lab - 2 ** b}
            if dt == "bool":                      # np.bool_ != <int beyond int64> raises inside numpy: not a label volume
                cand = {c for c in cand if fits(c, "int64")}
            for ident in sorted(cand):
                for rep in range(2):
                    k += 1
                    fl = {"ids": (["list"] + IDS_FL + [f"array:{dt}" if dt != "bool" else "array"])[k % 8],
                          "coords": ([None] + COORDS_FL)[k % 7]}
                    yield {"kind": "time", "shape": shape, "flat": flat, "seg_dtype": dt, "tps": [idx[0]], "ids": [ident],
                           "axes": "nometa", "flavour": fl}
                    yield {"kind": "coords", "shape": shape, "flat": flat, "seg_dtype": dt, "coords": [idx], "ids": [ident],
                           "scale": None, "flavour": fl}
            # several ids at once, a wrapped one among present ones
            k += 1
            yield {"kind": "time", "shape": shape, "flat": flat, "seg_dtype": dt, "tps": [idx[0]] * 3,
                   "ids": [lab, lab + (hi - lo + 1), lab], "axes": "nometa", "flavour": {"ids": IDS_FL[k % 6]}}
            yield {"kind": "coords", "shape": shape, "flat": flat, "seg_dtype": dt, "coords": [idx] * 3,
                   "ids": [lab, lab + (hi - lo + 1), lab], "scale": [1, 1, 1], "flavour": flavour(k)}


def flavour_variants(cases, every):
    """every `every`-th time / coords / in_bounds case again with its arguments in another Python/numpy
    flavour (tuples, numpy scalars, 1-D and 2-D arrays of several dtypes, read-only arrays)"""
    k = 0
    for c in cases:
        if c["kind"] in ("time", "coords", "in_bounds") and "flavour" not in c:
            k += 1
            if k % every == 0:
                c2 = dict(c)
                c2["flavour"] = flavour(k // every)
                yield c2


def histories(cases, every):
    """the same function twice, and different functions in sequence, on the SAME argument objects"""
    k = 0
    for c in cases:
        if c["kind"] not in ("time", "coords") or "calls" in c:
            continue
        k += 1
        if k % every:
            continue
        j = k // every
        h = dict(c)
        h["kind"] = "history"
        h["flavour"] = flavour(j) if j % 4 else {"coords": "f64_2d", "scale": SCALE_FL[j % 4], "ids": IDS_FL[j % 6]}
        if c["kind"] == "coords":
            h.setdefault("tps", [0 for _ in c["ids"]])
            h.setdefault("axes", "nometa")
            h["calls"] = [["coords", "coords"], ["coords", "time", "in_bounds", "coords"], ["coords", "coords", "coords"]][j % 3]
        else:
            h["calls"] = [["time", "time"], ["time", "axes_match", "time"]][j % 2]
        yield h


def gen_edit_histories(ck):
    """histories in which the caller legitimately changes the SAME objects between two calls"""
    shapes = [[1, 1, 1], [2, 3, 1], [3, 2, 2], [1, 2, 1, 3]] if ck.quick else [[1, 1, 1], [2, 3, 1], [3, 2, 2], [1, 2, 1, 3], [2, 2, 2], [3, 1, 2, 2]]
    k = 0
    for shape in shapes:
        nd = len(shape)
        for scale in (None, [1.0] * nd, [0.5, 1.0, 2.0, 4.0][:nd], [2] * nd):
            sc = scale if scale is not None else [1.0] * nd
            inside = [(n - 1) * s for n, s in zip(shape, sc)]
            for j in range(nd):
                ext = shape[j]
                for m0, m1 in ((ext - 1, ext), (ext, ext - 1), (0, ext), (ext, 0), (ext - 1, None), (None, ext - 1), (ext - 1, ext - 1),
                               (ext - 1, ext + 3)):
                    v0 = None if m0 is None else m0 * sc[j]
                    v1 = None if m1 is None else m1 * sc[j]
                    axes = [{"type": "time" if i == 0 else "space", "max": (v0 if i == j else inside[i])} for i in range(nd)]
                    after = [v1 if i == j else inside[i] for i in range(nd)]
                    set1 = {"edit": "axis_max", "i": j, "max": v1}
                    set0 = {"edit": "axis_max", "i": j, "max": v0}
                    mechs = [[set1], [{"edit": "model_copy"}, set1], [{"edit": "deepcopy"}, set1],
                             [{"edit": "axes_replace", "axes": [{"type": a["type"], "max": m} for a, m in zip(axes, after)]}]]
                    if v1 is not None:
                        mechs.append([{"edit": "recompute", "maxima": after}])
                    for mech in mechs:
                        k += 1
                        base = {"kind": "history", "seg_shape": shape, "axes": axes, "scale": scale,
                                "flavour": {"scale": SCALE_FL[k % 4]} if k % 2 else {}}
                        yield {**base, "steps": ["in_bounds", *mech, "in_bounds"]}
                        if k % 3 == 0:
                            yield {**base, "steps": ["in_bounds", "axes_match", *mech, "in_bounds", set0, "in_bounds", "in_bounds"]}
            axes = [{"type": "space", "max": m} for m in inside]
            yield {"kind": "history", "seg_shape": shape, "axes": axes, "scale": scale,
                   "steps": ["in_bounds", "axes_match", {"edit": "axes_reverse"}, "in_bounds", "axes_match"]}
            yield {"kind": "history", "seg_shape": shape, "axes": axes, "scale": scale,
                   "steps": ["axes_match", "in_bounds", {"edit": "axes_replace", "axes": axes[:-1]}, "axes_match", "in_bounds",
                             {"edit": "axes_replace", "axes": axes + [{"type": "space", "max": 0}]}, "axes_match", "in_bounds",
                             {"edit": "axes_replace", "axes": axes}, "axes_match", "in_bounds"]}
            if scale is not None and not isinstance(scale[0], int):
                # the caller rescales: same scale list object, new factor
                yield {"kind": "history", "seg_shape": shape, "axes": axes, "scale": scale,
                       "steps": ["in_bounds", {"edit": "scale_set", "i": 0, "value": sc[0] / 4}, "in_bounds",
                                 {"edit": "scale_set", "i": 0, "value": sc[0]}, "in_bounds"]}
        # ---- label volume edited in place, lists extended, time axis retyped
        flat = labels_for(shape, 0)
        last = [n - 1 for n in shape]
        lab_last, lab0 = flat[-1], flat[0]
        for tfl in (None, "array", "tuple"):
            base = {"kind": "history", "shape": shape, "flat": flat, "axes": time_axes(nd, 0), "tps": [last[0], 0], "ids": [lab_last, lab0],
                    "coords": [last, [0] * nd], "scale": None, "flavour": {"tps": tfl} if tfl else {}}
            yield {**base, "steps": ["time", "coords", {"edit": "relabel", "idx": last, "label": 999}, "time", "coords",
                                     {"edit": "relabel", "idx": last, "label": lab_last}, "time", "coords"]}
            yield {**base, "steps": ["coords", "time", {"edit": "zero_slab"}, "coords", "time"]}
        base = {"kind": "history", "shape": shape, "flat": flat, "axes": time_axes(nd, 0), "tps": [0], "ids": [lab0],
                "coords": [[0] * nd], "scale": None}
        yield {**base, "steps": ["coords", {"edit": "extend_coords", "coord": last, "id": lab_last}, "coords",
                                 {"edit": "extend_coords", "coord": [n for n in shape], "id": 1}, "coords"]}
        yield {**base, "steps": ["time", {"edit": "extend_time", "t": last[0], "id": lab_last}, "time",
                                 {"edit": "extend_time", "t": shape[0], "id": 1}, "time"]}
        if nd >= 2 and shape[0] != shape[1]:
            # the time axis moves: axis 1 becomes the time axis
            yield {**base, "tps": [max(shape[0], shape[1]) - 1], "ids": [flat[-1]],
                   "steps": ["time", {"edit": "axis_type", "i": 0, "type": "space"}, {"edit": "axis_type", "i": 1, "type": "time"}, "time",
                             {"edit": "axis_type", "i": 0, "type": "time"}, "time"]}


def corpus():
    d = common.VERIF / "harness" / "corpus" / PROP
    for f in sorted(d.glob("*.json")):
        yield json.loads(f.read_text())


# ----------------------------------------------------------------- the check
def classify(case, im, exp):
    """key of the violated clause, or None"""
    k = case["kind"]
    if "exc" in im:
        return f"C19:{k}:exception", f"raised {im['exc']} (documented: a (False, [message]) result)"
    if exp.get("sensitive"):
        return None
    if im["ok"] != exp["ok"]:
        why = "accepts" if im["ok"] else "rejects"
        detail = ""
        if k == "in_bounds" and not exp["ok"] and exp["errors"] and exp["errors"][0][0] == "axisOutOfBounds":
            detail = ":out-of-bounds-max"
        elif k == "in_bounds" and exp["ok"]:
            detail = ":max-zero" if any(a.get("max") == 0 for a in (truthy_axes(case["axes"]) or [])) else ""
        elif k == "in_bounds" and exp["errors"] and exp["errors"][0][0] == "axesLength":
            detail = ":rank-mismatch"
        elif k in ("time", "coords") and not exp["ok"] and exp["errors"] and exp["errors"][-1][0] in ("timeOutOfBounds", "coordOutOfBounds"):
            detail = ":out-of-range"
        elif k in ("time", "coords") and im["ok"] and any(not in_dtype(i, case.get("seg_dtype", "int64")) for i in case["ids"]):
            return f"C19:{k}:narrow-dtype-wrap", ("a seg id outside the range of the label volume's dtype "
                                                  f"({case.get('seg_dtype', 'int64')}) was reported present")
        return f"C19:{k}:{why}{detail}", f"returned {im['ok']} but the documented condition is {exp['ok']}"
    # "out-of-range coordinates or time points give a false result with an explanatory message":
    # the message must be there and must be about an out-of-range item; other wording / ordering
    # differences are not a matter of the specification (the model comparison sees them).
    if not exp["ok"] and exp["errors"] and exp["errors"][-1][0] in ("timeOutOfBounds", "coordOutOfBounds", "coordLength"):
        want = exp["errors"][-1][0]
        kinds = {e[0] for e in im["errors"]}
        if want == "timeOutOfBounds":
            okmsg = any(e[0] == "timeOutOfBounds" and e[1] in case["tps"] for e in im["errors"])
        else:
            okmsg = bool(kinds & {"coordOutOfBounds", "coordLength"})
        if not okmsg:
            return f"C19:{k}:out-of-range-without-message", f"out-of-range input: false, but messages {im['errors']} do not explain it"
    elif not im["ok"] and exp["errors"] and not im["errors"]:
        return f"C19:{k}:no-message", "false result without the documented message"
    return None


def in_dtype(v, dt):
    if dt == "bool":
        return v in (0, 1)
    return fits(v, dt)


def _work(case):
    if case["kind"] == "valid":
        im = impl_obs(case)
        extra = []
        if im.pop("modified", False):
            extra.append(("C19:function-modifies-argument", "has_valid_seg_id modified the property arrays", None, None))
        return {"calls": [("valid", case, im, oracle(case))], "extra": extra}
    return run_calls(case)


def run(ck: common.Check):
    # C19Gen: the five functions as translated from the working tree (T13, Gen/Segmentation.lean) are
    # proved equal to the hand-written model, and the C19 theorems are restated on them
    ck.prove(["GeffProps.C19", "GeffProps.C19Gen"])
    ck.rule = ("cases = corpus + (has_valid_seg_id) presence x 13 dtypes x 5 missing patterns + (axes_match) axes None/[]/1..5 x rank "
               "1..4 + (graph_is_in_seg_bounds) label volumes of rank 3 and 4 with extents 1..3, axes lists of length rank-1..rank+1 "
               "with every maximum in {None,0,extent-1,extent} (scaled), 7 scale vectors incl. wrong lengths + (time points) time axis "
               "in every position / absent / ambiguous / beyond the rank, time points in {-extent,-1,0,extent-1,extent} singly and in "
               "pairs/triples with present and absent labels [quick: every 2nd rank-3 shape + 3 rank-4; thorough: all 27 + every 4th rank-4] + (coords) [quick: all 27 rank-3 shapes + 3 rank-4; thorough: all 27 + all 81] every pixel tuple in {-1,0,max,max+1}^rank under 4 scale "
               "vectors (dyadic), half-pixel and just-below-zero offsets, malformed lengths + seeded random volumes with dyadic and "
               "non-dyadic scales + label volumes of bool and all 8 integer dtypes with seg ids / expected labels at the present "
               "labels +-2^8, +-2^16, +-2^32, +-2^64, +-(dtype range), negatives, 2^63, 2^64-1 in 8 id flavours + every 3rd "
               "(thorough: every 2nd) time/coords/in_bounds case again in another argument flavour (tuples, numpy scalars, 1-D and "
               "2-D float64/float32/int64 arrays, read-only arrays, tuples of arrays) + histories (every 7th, thorough every 3rd "
               "time/coords case: the same function 2-3 times, and coords/time/in_bounds/axes_match interleaved, on the same "
               "argument objects, arguments snapshotted around every call) + edit histories: between two calls the caller changes the "
               "same objects (ax.max/ax.min/ax.type assigned, metadata.axes reversed or replaced, metadata model_copy()/deepcopy/"
               "compute_and_add_axis_min_max after a first check, scale entry reassigned, label volume relabelled or zeroed in "
               "place, coords/time-point/seg-id lists extended), each call judged by the specification for the current contents "
               "and compared with the same contents in freshly built objects; non-trivial = all cases except the empty lists; distinct = distinct canonical JSON")
    cases = list(corpus())
    ck.extra["corpus_cases"] = len(cases)
    gen = []
    gen += list(gen_valid())
    gen += list(gen_axes_match())
    gen += list(gen_in_bounds(ck))
    gen += list(gen_time(ck))
    gen += list(gen_coords(ck))
    gen += list(gen_random(ck.rng, 3000 if ck.quick else 40000))
    narrow = list(gen_narrow())
    variants = list(flavour_variants(gen, 3 if ck.quick else 2))
    hist = list(histories(gen + narrow, 7 if ck.quick else 3))
    edits = list(gen_edit_histories(ck))
    hist += edits
    ck.extra["edit_history_cases"] = len(edits)
    cases += gen + narrow + variants + hist
    ck.extra["narrow_dtype_cases"] = len(narrow)
    ck.extra["flavour_variant_cases"] = len(variants)
    ck.extra["history_cases"] = len(hist)
    results = common.pmap(_work, cases, chunksize=128)
    drv = ck.driver()
    reqs, where = [], []
    for idx, res in enumerate(results):
        for n, (kind, eff, im, exp) in enumerate(res["calls"]):
            reqs.append(model_req(eff))
            where.append((idx, n))
    answers = drv.ask(reqs)
    if answers is None:
        ck.broken.append({"what": "driver Drivers/C19.lean", "detail": drv.broken})
    n_sens = 0
    fl_hist: dict = {}
    for idx, (c, res) in enumerate(zip(cases, results)):
        kind, eff, im, exp = res["calls"][0]
        tag = c["kind"] + ":" + ("exc" if "exc" in im else ("true" if im["ok"] else "false:" + (im["errors"][-1][0] if im["errors"] else "nomsg")))
        ck.case(c, tag, nontrivial=not (c["kind"] in ("time", "coords") and not c.get("tps", c.get("coords"))))
        for a, f in (c.get("flavour") or {}).items():
            if f:
                fl_hist[f"{a}:{f}"] = fl_hist.get(f"{a}:{f}", 0) + 1
        if "seg_dtype" in c:
            fl_hist["seg_dtype:" + c["seg_dtype"]] = fl_hist.get("seg_dtype:" + c["seg_dtype"], 0) + 1
        for key, what, observed, expected in res["extra"]:
            ck.fail(key, what, c, observed, expected)
        for n, (kind, eff, im, exp) in enumerate(res["calls"]):
            if exp.get("sensitive"):
                n_sens += 1
            r = classify(eff, im, exp)
            if r is not None:
                ck.fail(r[0], r[1] + (f" [call {n} of {c.get('steps') or c['calls']}]" if ("calls" in c or "steps" in c) else ""), c, im,
                        {k: v for k, v in exp.items() if k != "sensitive"})
    if answers is not None:
        for (idx, n), mo in zip(where, answers):
            c = cases[idx]
            kind, eff, im, exp = results[idx]["calls"][n]
            mo = unstr(mo)
            if "err" in mo:
                ck.corr_broken("C19:driver", c, im, mo)
            elif not exp.get("sensitive"):
                if mo != im:
                    ck.corr_broken(f"C19:{kind}", c, im, mo)
                e2 = {k: v for k, v in exp.items() if k != "sensitive"}
                if mo != e2:
                    ck.corr_broken(f"C19:{kind}:model-vs-oracle", c, e2, mo)
    # primitive stream: the primitives of GeffModel/PyDoSeg.lean (what the generated code calls) against Python /
    # numpy, also at the points the guards of the source exclude
    from harness.corr import _c19_prims

    _c19_prims.run(ck, drv, unstr)
    ck.extra["argument_flavour_histogram"] = fl_hist
    ck.extra["rounding_sensitive_cases"] = n_sens
    ck.assumptions += [
        "numpy integer indexing / np.take / np.unique are modelled (wrap-around and IndexError included), not verified",
        "scale factors, coordinates and axis maxima are exact dyadic rationals in the model; where the implementation's "
        "float product c*s is rounded and the rounding changes an index or a comparison (tag rounding-sensitive) the case is "
        "outside the proof and only the exception-freedom and the agreement with a float-arithmetic reading are checked",
        "seg ids, labels and time points are integers; pydantic coerces axis maxima to float",
        "labels and seg ids are unbounded integers in the model: the dtype of the label volume (every integer dtype and "
        "bool are exercised, with seg ids outside the dtype's range and congruent to present labels), the Python/numpy "
        "flavour of the arguments (lists, tuples, numpy scalars, 1-D/2-D arrays of several dtypes, read-only arrays) and "
        "argument aliasing are below the model and exercised by the correspondence: every call is checked against the "
        "specification, every argument is snapshotted before and compared after each call, and histories repeat calls on "
        "the same argument objects, and edit histories change those objects between calls (the model is a pure function of the "
        "current contents; caching inside argument objects is below the model)",
        "bool label volumes are called with seg ids inside the int64 range only (np.bool_ != <larger Python int> raises "
        "OverflowError inside numpy)",
        "the check graph_is_in_seg_bounds looks at axis maxima only (not minima), as documented",
        "T13: the translator's tables (message texts -> Msg constructors, primitive typing) are trusted; the primitives of "
        "GeffModel/PyDoSeg.lean are compared with Python / numpy one by one on small inputs, error points included "
        "(primitive stream); not compared: np.take out of range on a ZERO-SIZE volume (numpy does not bounds-check there, "
        "the model raises IndexError — unreachable behind the guard), the insertion of the default on a defaultdict read, "
        "the value a Python dict keeps for a repeated key, Axis equality beyond the fields type/max (names are a function "
        "of them in the stream)",
    ]


def replay(rp):
    c = rp["case"]
    res = _work(c)
    bad = [{"key": k, "what": w} for k, w, _, _ in res["extra"]]
    for n, (kind, eff, im, exp) in enumerate(res["calls"]):
        r = classify(eff, im, exp)
        if r:
            bad.append({"key": r[0], "what": r[1], "call": n})
    print(json.dumps({"case": c, "calls": [{"kind": k, "impl": im, "documented": exp} for k, _, im, exp in res["calls"]],
                      "failures": bad}, default=str)[:4000])
    print("REPLAY: property FAILS on this input" if bad else "REPLAY: property holds on this input")
    return 1 if bad else 0
