"""C14 — lineage validation decides the documented lineage definition.

Implementation: geff.validate.tracks.validate_lineages (and validate_data(lineage=True)).
Model: Geff.Lineage.validateLineages / lineageErrors via Drivers/C14.lean; the theorem
GeffProps.C14.C14_iff proves model <-> specification for every graph and labelling, so a
model/implementation disagreement on a graph with unique node ids is a concrete violation.
A pure-Python union-find oracle gives a third, Lean-independent verdict (used when the Lean
side is broken, and to cross-check the model).
"""
from __future__ import annotations

import itertools
import json
import re

import numpy as np

from harness import common

PROP = "C14"
MSG = re.compile(r"^Lineage (-?\d+): ")


# ----------------------------------------------------------------- oracle (spec, independent)
def spec_oracle(nodes, labels, edges):
    """(valid, bad labels in first-occurrence order) straight from the definition."""
    parent = {}

    def find(x):
        parent.setdefault(x, x)
        while parent[x] != x:
            parent[x] = parent[parent[x]]
            x = parent[x]
        return x

    for n in nodes:
        find(n)
    for u, v in edges:
        ru, rv = find(u), find(v)
        if ru != rv:
            parent[ru] = rv
    comp_members: dict = {}
    for x in list(parent):
        comp_members.setdefault(find(x), set()).add(x)
    classes: dict = {}
    for n, l in zip(nodes, labels):
        classes.setdefault(l, set()).add(n)
    bad = []
    for l, cls in classes.items():
        r = find(next(iter(cls)))
        if comp_members[r] != cls:
            bad.append(l)
    return (not bad), bad


# ----------------------------------------------------------------- implementation observation
def impl_obs(case):
    from geff.validate.tracks import validate_lineages

    nodes, labels, edges = case["nodes"], case["labels"], case["edges"]
    e = np.asarray(edges, dtype=np.int64).reshape(-1, 2)
    try:
        valid, errors = validate_lineages(np.asarray(nodes, dtype=np.int64), e, np.asarray(labels, dtype=np.int64))
    except Exception as ex:  # noqa: BLE001
        return {"exc": type(ex).__name__}
    bad = []
    for m in errors:
        mm = MSG.match(m)
        bad.append(int(mm.group(1)) if mm else None)
    return {"valid": bool(valid), "bad": bad}


def tracklet_partition(nodes, edges):
    """the documented tracklet partition (docs/tracking.md): join u,v when (u,v) is the only edge
    leaving u and the only edge entering v"""
    outd, ind = {}, {}
    for u, v in edges:
        outd[u] = outd.get(u, 0) + 1
        ind[v] = ind.get(v, 0) + 1
    parent = {n: n for n in nodes}

    def find(x):
        while parent[x] != x:
            parent[x] = parent[parent[x]]
            x = parent[x]
        return x
    for u, v in edges:
        if outd[u] == 1 and ind[v] == 1:
            parent[find(u)] = find(v)
    ids = {}
    return [ids.setdefault(find(n), 100 + len(ids)) for n in nodes]


def dag_clean(case):
    """unique nodes, every edge inside the node list, strictly forward in list position (acyclic),
    no repeated edge: the other validators pass, so validate_data's verdict is the lineage verdict"""
    pos = {n: i for i, n in enumerate(case["nodes"])}
    if len(pos) != len(case["nodes"]):
        return False
    seen = set()
    for u, v in case["edges"]:
        if u not in pos or v not in pos or pos[u] >= pos[v] or (u, v) in seen:
            return False
        seen.add((u, v))
    return True


def impl_via_validate_data(case, cfg=None, with_tracklets=False):
    """Same labelling through validate_data(lineage=True, …): ValueError iff invalid."""
    import geff_spec
    from geff.validate.data import ValidationConfig, validate_data

    nodes = np.asarray(case["nodes"], dtype=np.int64)
    npm = {"lin": geff_spec.PropMetadata(identifier="lin", dtype="int64")}
    props = {"lin": {"values": np.asarray(case["labels"], dtype=np.int64), "missing": None}}
    tnp = {"lineage": "lin"}
    if with_tracklets:
        npm["trk"] = geff_spec.PropMetadata(identifier="trk", dtype="int64")
        props["trk"] = {"values": np.asarray(tracklet_partition(case["nodes"], [tuple(e) for e in case["edges"]]), dtype=np.int64),
                        "missing": None}
        # the key ORDER of track_node_props varies too (dict order survives pydantic and zarr)
        if (len(case["nodes"]) + len(case["edges"])) % 2:
            tnp = {"tracklet": "trk", "lineage": "lin"}
        else:
            tnp["tracklet"] = "trk"
    md = geff_spec.GeffMetadata(
        geff_version="1.0.0", directed=True, node_props_metadata=npm, edge_props_metadata={}, track_node_props=tnp,
    )
    g = {"metadata": md, "node_ids": nodes,
         "edge_ids": np.asarray(case["edges"], dtype=np.int64).reshape(-1, 2),
         "node_props": props, "edge_props": {}}
    try:
        validate_data(g, ValidationConfig(**(cfg or {"lineage": True})))
        return "ok"
    except ValueError:
        return "ValueError"
    except Exception as ex:  # noqa: BLE001
        return type(ex).__name__


# ----------------------------------------------------------------- further implementation streams
INT_DTYPES = ["int8", "int16", "int32", "int64", "uint8", "uint16", "uint32", "uint64"]


def snapshot(*arrs):
    return [(a.dtype.str, a.shape, a.tobytes()) for a in arrs]


def impl_dtyped(v):
    """validate_lineages on arrays of independently chosen integer dtypes / memory layouts, ids
    shifted by a large offset.  v = {case, nd, ed, ld, off, layout}.  The function documents a cast
    to int64, so the verdict must be the one for the integer VALUES, whatever the dtypes."""
    from geff.validate.tracks import validate_lineages

    c, off = v["case"], v["off"]
    nodes = np.asarray([x + off for x in c["nodes"]], dtype=v["nd"])
    edges = np.asarray([[a + off, b + off] for a, b in c["edges"]], dtype=v["ed"]).reshape(-1, 2)
    loff = v.get("loff", 0)
    labels = np.asarray([x + loff for x in c["labels"]], dtype=v["ld"])
    if v["layout"] == "fortran":
        edges = np.asfortranarray(edges)
    elif v["layout"] == "strided":
        big = np.zeros((max(len(c["edges"]), 1) * 2, 2), dtype=v["ed"])
        big[::2][: len(c["edges"])] = edges
        edges = big[::2][: len(c["edges"])]
        bn = np.zeros(len(c["nodes"]) * 2, dtype=v["nd"])
        bn[::2] = nodes
        nodes = bn[::2]
    elif v["layout"] == "readonly":
        for a in (nodes, edges, labels):
            a.setflags(write=False)
    elif v["layout"] == "bigendian":
        nodes, edges, labels = (a.astype(a.dtype.newbyteorder(">")) for a in (nodes, edges, labels))
    before = snapshot(nodes, edges, labels)
    try:
        valid, errors = validate_lineages(nodes, edges, labels)
    except Exception as ex:  # noqa: BLE001
        return {"exc": type(ex).__name__ + ": " + str(ex)[:80]}
    bad = []
    for m in errors:
        mm = MSG.match(m)
        bad.append(int(mm.group(1)) if mm else None)
    return {"valid": bool(valid), "bad": bad, "messages": [str(m) for m in errors],
            "modified": snapshot(nodes, edges, labels) != before}


def wrap64(x):
    return (x + 2**63) % 2**64 - 2**63


def dtyped_request(v):
    """the same arrays, as integers, for the model's `arrays` op (`validateLineagesArrays`)"""
    c, off, loff = v["case"], v["off"], v.get("loff", 0)
    return {"op": "arrays", "nodes": [str(x + off) for x in c["nodes"]], "labels": [str(x + loff) for x in c["labels"]],
            "edges": [[str(a + off), str(b + off)] for a, b in c["edges"]]}


def dtyped_verdict(v, r):
    """(key, message) of the violation shown by observation r of impl_dtyped(v), or None"""
    c, loff = v["case"], v.get("loff", 0)
    s_valid, s_bad = spec_oracle(c["nodes"], c["labels"], c["edges"])
    want_bad = [x + loff for x in s_bad]
    dt = f"node/edge/label dtypes {v['nd']}/{v['ed']}/{v['ld']}, ids shifted by {v['off']}, lineage ids by {loff}"
    if "exc" in r:
        return "C14:exception-for-integer-dtype", f"validate_lineages raised {r['exc']} for {dt}, layout {v['layout']}"
    if r["valid"] != s_valid:
        return "C14:verdict-depends-on-dtype", f"{dt}: got {r['valid']} {r['bad']}, the definition says {s_valid} {want_bad}"
    if r["bad"] != want_bad:
        if r["bad"] == [wrap64(x) for x in want_bad] and any(x >= 2**63 for x in want_bad):
            return ("C14:uint64-id-wrapped-in-message",
                    f"{dt}: the verdict is right but the messages name {r['bad']} instead of the offending lineage ids {want_bad}")
        return "C14:verdict-depends-on-dtype", f"{dt}: got {r['valid']} {r['bad']}, the definition says {s_valid} {want_bad}"
    if r["modified"]:
        return "C14:validator-modifies-input", "validate_lineages modified its argument arrays"
    return None


def masked_geff(v):
    import geff_spec

    c = v["case"]
    nodes = np.asarray(c["nodes"], dtype=np.int64)
    npm = {"lin": geff_spec.PropMetadata(identifier="lin", dtype="int64"),
           "trk": geff_spec.PropMetadata(identifier="trk", dtype="int64")}
    lm = np.asarray(v["lin_missing"], dtype=bool) if v["lin_missing"] is not None else None
    tm = np.asarray(v["trk_missing"], dtype=bool) if v["trk_missing"] is not None else None
    props = {"lin": {"values": np.asarray(c["labels"], dtype=np.int64), "missing": lm},
             "trk": {"values": np.asarray(v["trk"], dtype=np.int64), "missing": tm}}
    tnp = {"lineage": "lin", "tracklet": "trk"} if (len(c["nodes"]) + len(c["edges"])) % 2 else {"tracklet": "trk", "lineage": "lin"}
    md = geff_spec.GeffMetadata(geff_version="1.0.0", directed=True, node_props_metadata=npm,
                                edge_props_metadata={}, track_node_props=tnp)
    return {"metadata": md, "node_ids": nodes, "edge_ids": np.asarray(c["edges"], dtype=np.int64).reshape(-1, 2),
            "node_props": props, "edge_props": {}}


def run_vd(g, cfg):
    from geff.validate.data import ValidationConfig, validate_data

    try:
        validate_data(g, ValidationConfig(**cfg))
        return "ok"
    except ValueError:
        return "ValueError"
    except Exception as ex:  # noqa: BLE001
        return type(ex).__name__


def impl_masked(v):
    """validate_data on a geff declaring lineage AND tracklet ids, either of which may carry a
    missing mask: verdicts under lineage-only, tracklet-only and both (fresh geff per call)."""
    out = {}
    for name, cfg in (("lin", {"lineage": True}), ("trk", {"tracklet": True}),
                      ("both", {"lineage": True, "tracklet": True}),
                      ("all", {"lineage": True, "tracklet": True, "graph": False, "sphere": True, "ellipsoid": True})):
        out[name] = run_vd(masked_geff(v), cfg)
    # the exception arguments of the lineage-only call, verbatim (the model renders them itself)
    from geff.validate.data import ValidationConfig as _VC, validate_data as _vd
    try:
        _vd(masked_geff(v), _VC(lineage=True))
        out["lin_args"] = None
    except Exception as ex:  # noqa: BLE001
        out["lin_args"] = [str(a) for a in ex.args]
    # the same in-memory geff object validated repeatedly (as after a validated read): every call
    # must give the verdict of a fresh object, and no array of the geff may be modified
    g = masked_geff(v)

    def snap():
        arrs = [g["node_ids"], g["edge_ids"]]
        for pr in g["node_props"].values():
            arrs.append(pr["values"])
            if pr["missing"] is not None:
                arrs.append(pr["missing"])
        return snapshot(*arrs)
    before = snap()
    seq = [("lin", {"lineage": True}), ("lin", {"lineage": True}), ("both", {"lineage": True, "tracklet": True}),
           ("trk", {"tracklet": True}), ("lin", {"lineage": True})]
    out["history"] = [[name, run_vd(g, cfg)] for name, cfg in seq]
    out["history_modified"] = snap() != before
    # ONE ValidationConfig object re-used over several geffs with different declarations: the
    # verdict on the last one must be that of a fresh config, and the object must stay as it was
    import geff_spec
    from geff.validate.data import ValidationConfig, validate_data

    cfg = ValidationConfig(lineage=True, tracklet=True, sphere=True, ellipsoid=True)
    cfg0 = cfg.model_dump()
    c = v["case"]
    others = []
    for tnp in (None, {"tracklet": "trk"}, {"lineage": "lin"}):
        g2 = masked_geff(v)
        md = g2["metadata"]
        g2["metadata"] = geff_spec.GeffMetadata(geff_version="1.0.0", directed=True, node_props_metadata=md.node_props_metadata,
                                                edge_props_metadata={}, track_node_props=tnp)
        try:
            validate_data(g2, cfg)
            others.append("ok")
        except Exception as ex:  # noqa: BLE001
            others.append(type(ex).__name__)
    try:
        validate_data(masked_geff(v), cfg)
        out["reused_config"] = "ok"
    except ValueError:
        out["reused_config"] = "ValueError"
    except Exception as ex:  # noqa: BLE001
        out["reused_config"] = type(ex).__name__
    out["config_modified"] = cfg.model_dump() != cfg0
    return out


def impl_history(h):
    """validate_lineages called repeatedly on the SAME array objects, which the caller edits in
    place between calls: every verdict must be the one for the current contents, and no call may
    modify its arguments."""
    from geff.validate.tracks import validate_lineages

    c0 = h["steps"][0]
    nodes = np.asarray(c0["nodes"], dtype=np.int64)
    edges = np.asarray(c0["edges"], dtype=np.int64).reshape(-1, 2)
    labels = np.asarray(c0["labels"], dtype=np.int64)
    res = []
    for st in h["steps"]:
        nodes[:] = st["nodes"]
        labels[:] = st["labels"]
        if len(st["edges"]):
            edges[:] = np.asarray(st["edges"], dtype=np.int64).reshape(-1, 2)
        before = snapshot(nodes, edges, labels)
        try:
            valid, errors = validate_lineages(nodes, edges, labels)
            r = {"valid": bool(valid), "bad": [int(MSG.match(m).group(1)) if MSG.match(m) else None for m in errors]}
        except Exception as ex:  # noqa: BLE001
            r = {"exc": type(ex).__name__}
        r["modified"] = snapshot(nodes, edges, labels) != before
        res.append(r)
    return res


def gen_dtyped(rng, c):
    vals = c["nodes"] + [x for e in c["edges"] for x in e]
    lo, hi = (min(vals), max(vals)) if vals else (0, 0)
    if rng.random() < 0.2:
        # uint64 arrays whose values reach beyond the int64 range (the pool has ids 0..127):
        # around the 2^63 boundary, well above it, and at the top of the range
        off = rng.choice([2**63 - 2, 2**63, 2**63 + 10, 2**64 - 200, 2**62])
        loff = rng.choice([0, 0, 2**63 - 11, 2**63 + 3, 2**64 - 1000])
        return {"case": c, "nd": "uint64", "ed": "uint64", "ld": "uint64" if loff else rng.choice(["uint64", "int64", "uint8"]),
                "off": off, "loff": loff, "layout": rng.choice(["plain", "plain", "fortran", "strided", "readonly", "bigendian"])}
    nd, ed = rng.choice(INT_DTYPES), rng.choice(INT_DTYPES)
    if rng.random() < 0.5:
        ed = nd
    ld = rng.choice(INT_DTYPES)
    offs = [0]
    import numpy as _np
    for cand in (2**53 - 2, 2**53 + 1, 2**60, 2**62, 2**31 - 3, 200):
        offs.append(cand)
    rng.shuffle(offs)
    for off in offs:
        ok = all(_np.iinfo(d).min <= lo + off and hi + off <= min(_np.iinfo(d).max, 2**63 - 1) for d in (nd, ed))
        if ok:
            break
    else:
        nd = ed = "int64"
        off = 0
    if not all(_np.iinfo(ld).min <= x <= min(_np.iinfo(ld).max, 2**63 - 1) for x in c["labels"]):
        ld = "int64"
    return {"case": c, "nd": nd, "ed": ed, "ld": ld, "off": off,
            "layout": rng.choice(["plain", "plain", "fortran", "strided", "readonly", "bigendian"])}


def gen_masked(rng, c):
    n = len(c["nodes"])
    def mask(p):
        m = [rng.random() < p for _ in range(n)]
        return m if rng.random() < 0.8 else None
    trk = tracklet_partition(c["nodes"], [tuple(e) for e in c["edges"]])
    if rng.random() < 0.25 and n:
        i = rng.randrange(n)
        trk[i] = rng.choice(trk + [999])
    v = {"case": c, "trk": trk, "lin_missing": mask(0.3) if rng.random() < 0.6 else None,
         "trk_missing": mask(0.3) if rng.random() < 0.7 else None}
    if rng.random() < 0.03:   # a mask of the wrong length: numpy's IndexError (model: DataOutcome.indexError)
        # (a mask of length 0 is the exception: numpy accepts it against any length and selects nothing)
        v["lin_missing"] = [rng.random() < 0.3 for _ in range(n + rng.choice([-1, 1, 2, -n]))] if n else [True]
    return v


def gen_history(rng):
    base = random_case(rng)
    while not base["nodes"] or len(set(base["nodes"])) != len(base["nodes"]) or not base["edges"]:
        base = random_case(rng)
    steps = [base]
    for _ in range(rng.randint(1, 3)):
        prev = steps[-1]
        st = {"nodes": list(prev["nodes"]), "labels": list(prev["labels"]), "edges": [list(e) for e in prev["edges"]]}
        what = rng.random()
        if what < 0.5:   # rewire one edge endpoint
            i = rng.randrange(len(st["edges"]))
            st["edges"][i][rng.randrange(2)] = rng.choice(st["nodes"] + [99])
        elif what < 0.8:  # relabel one node
            i = rng.randrange(len(st["labels"]))
            st["labels"][i] = rng.choice(st["labels"] + [555])
        else:            # swap two node ids (same set)
            if len(st["nodes"]) > 1:
                i, j = rng.sample(range(len(st["nodes"])), 2)
                st["nodes"][i], st["nodes"][j] = st["nodes"][j], st["nodes"][i]
        steps.append(st)
    return {"steps": steps}


# ----------------------------------------------------------------- generators
def set_partitions(n):
    """restricted growth strings = labellings up to renaming"""
    def rec(i, cur, mx):
        if i == n:
            yield list(cur)
            return
        for v in range(mx + 2):
            cur.append(v)
            yield from rec(i + 1, cur, max(mx, v))
            cur.pop()
    if n == 0:
        yield []
    else:
        yield from rec(0, [], -1)


def exhaustive(n_nodes, phantom):
    verts = list(range(n_nodes + (1 if phantom else 0)))
    pairs = [(a, b) for a in verts for b in verts if a != b]
    for k in range(2 ** len(pairs)):
        edges = [p for i, p in enumerate(pairs) if k >> i & 1]
        if phantom and not any(n_nodes in e for e in edges):
            continue  # already covered by the phantom-free enumeration
        for lab in set_partitions(n_nodes):
            yield {"nodes": list(range(n_nodes)), "labels": [10 + x for x in lab], "edges": [list(e) for e in edges]}


def random_case(rng, big=False):
    n = rng.randint(1, 7)
    alphabet = rng.sample(range(-5, 40), n) if not big else rng.sample(
        [-(2**63), -1, 0, 1, 2**31, 2**62, 2**63 - 1, 7, 8, 9, 10, 11], n)
    nodes = alphabet
    m = rng.randint(0, n + 2)
    pool = list(nodes) + ([rng.choice([99, 100])] if rng.random() < 0.2 else [])
    edges = [[rng.choice(pool), rng.choice(pool)] for _ in range(m)]
    # mostly-valid labelling: true components, then maybe one corruption
    _, _ = None, None
    parent = {x: x for x in pool}

    def find(x):
        while parent[x] != x:
            parent[x] = parent[parent[x]]
            x = parent[x]
        return x
    for u, v in edges:
        parent[find(u)] = find(v)
    base = {}
    labels = [base.setdefault(find(x), rng.randint(-3, 50) * (1 if not big else 2**40)) for x in nodes]
    # distinct labels per component
    seen = {}
    for i, x in enumerate(nodes):
        r = find(x)
        if r not in seen:
            seen[r] = len(seen) * 7 + (labels[i] % 5)
        labels[i] = seen[r]
    mode = rng.random()
    if mode < 0.35 and n >= 1:
        i = rng.randrange(n)
        labels[i] = rng.choice(labels + [777])
    elif mode < 0.5:
        labels = [rng.randint(0, 2) for _ in nodes]
    return {"nodes": nodes, "labels": labels, "edges": edges}


def corpus():
    d = common.VERIF / "harness" / "corpus" / PROP
    for f in sorted(d.glob("*.json")):
        yield json.loads(f.read_text())


# ----------------------------------------------------------------- the check
def classify(case, impl):
    s_valid, s_bad = spec_oracle(case["nodes"], case["labels"], case["edges"])
    return s_valid, s_bad


def run(ck: common.Check):
    ck.prove(["GeffProps.C14", "GeffProps.C14Inv", "GeffProps.C14Data", "GeffProps.C14Gen"])
    ck.rule = ("cases = corpus + all digraphs (no self loops) on <=N nodes x all labellings up to renaming "
               "(+ one phantom endpoint) + seeded random graphs of 1..7 nodes with component labellings and "
               "single-edit corruptions; non-trivial = at least one edge or two labels; distinct = distinct "
               "canonical JSON of (nodes, labels, edges)")
    cases = list(corpus())
    nmax = 4
    for n in range(0, nmax + 1):
        cases.extend(exhaustive(n, False))
    for n in range(0, 3 + 1):
        cases.extend(exhaustive(n, True))
    ck.extra["exhaustive_upto_nodes"] = nmax
    nrand = 3000 if ck.quick else 60000
    for i in range(nrand):
        cases.append(random_case(ck.rng, big=(i % 10 == 0)))
    if not ck.quick:
        # sampled digraphs on 5 nodes x all 52 labellings up to renaming
        pairs5 = [(a, b) for a in range(5) for b in range(5) if a != b]
        parts5 = list(set_partitions(5))
        for _ in range(4000):
            k = ck.rng.getrandbits(len(pairs5)) & ck.rng.getrandbits(len(pairs5))  # sparse
            edges = [list(p) for i, p in enumerate(pairs5) if k >> i & 1]
            for lab in parts5:
                cases.append({"nodes": list(range(5)), "labels": [10 + x for x in lab], "edges": edges})
    # self loops / duplicate edges / duplicate node ids: correspondence only
    extra = [
        {"nodes": [1, 2], "labels": [5, 5], "edges": [[1, 1], [1, 2], [1, 2]]},
        {"nodes": [1, 2], "labels": [5, 6], "edges": [[1, 1]]},
        {"nodes": [], "labels": [], "edges": []},
        {"nodes": [1, 1, 2], "labels": [5, 5, 6], "edges": []},
        {"nodes": [1, 1, 2], "labels": [5, 6, 6], "edges": [[1, 2]]},
    ]
    cases.extend(extra)

    impl = common.pmap(impl_obs, cases, chunksize=512)
    drv = ck.driver()
    model = drv.ask([{"nodes": [str(x) for x in c["nodes"]], "labels": [str(x) for x in c["labels"]],
                      "edges": [[str(a), str(b)] for a, b in c["edges"]]} for c in cases])
    if model is None:
        ck.broken.append({"what": "driver Drivers/C14.lean", "detail": drv.broken})
    n_vd = 0
    n_cfg = 0
    for idx, (c, im) in enumerate(zip(cases, impl)):
        uniq = len(set(c["nodes"])) == len(c["nodes"])
        s_valid, s_bad = spec_oracle(c["nodes"], c["labels"], c["edges"])
        tag = ("valid" if s_valid else "invalid") + ("" if uniq else "-dupnodes")
        ck.case(c, tag, nontrivial=bool(c["edges"]) or len(set(c["labels"])) > 1)
        if "exc" in im:
            ck.fail("C14:exception", f"validate_lineages raised {im['exc']}", c, im, {"valid": s_valid})
            continue
        if uniq:
            if im["valid"] != s_valid:
                key = "C14:accepts-invalid" if im["valid"] else "C14:rejects-valid"
                ck.fail(key, f"validate_lineages returned {im['valid']} but the definition says {s_valid}", c, im,
                        {"valid": s_valid, "bad": s_bad})
            elif im["bad"] != s_bad:
                ck.fail("C14:wrong-offenders", f"reported lineages {im['bad']} but the offending ones are {s_bad}", c, im,
                        {"valid": s_valid, "bad": s_bad})
        if model is not None:
            mo = model[idx]
            if "err" in mo:
                ck.corr_broken("C14:driver", c, im, mo)
            else:
                mbad = [int(x) for x in mo["bad"]]
                if mo["valid"] != im["valid"] or mbad != im["bad"]:
                    ck.corr_broken("C14:validateLineages", c, im, {"valid": mo["valid"], "bad": mbad})
                if uniq and (mo["valid"] != s_valid or mbad != s_bad):
                    ck.corr_broken("C14:model-vs-python-oracle", c, {"valid": s_valid, "bad": s_bad}, mo)
        # through validate_data on a sample
        if uniq and c["nodes"] and idx % 23 == 0:
            n_vd += 1
            r = impl_via_validate_data(c)
            want = "ok" if s_valid else "ValueError"
            if r != want:
                ck.fail("C14:validate_data-dispatch", f"validate_data(lineage=True) gave {r}, expected {want}", c, r, want)
        # every validation config that enables lineage, on graphs where the other validators pass
        if c["nodes"] and idx % 7 == 0 and n_cfg < (4000 if ck.quick else 40000) and dag_clean(c):
            want = "ok" if s_valid else "ValueError"
            for bits in range(16):
                cfg = {"lineage": True, "graph": bool(bits & 1), "tracklet": bool(bits & 2),
                       "sphere": bool(bits & 4), "ellipsoid": bool(bits & 8)}
                n_cfg += 1
                r = impl_via_validate_data(c, cfg, with_tracklets=True)
                if r != want:
                    ck.fail("C14:validate_data-dispatch-config",
                            f"validate_data({cfg}) on a geff declaring tracklet and lineage ids gave {r}, expected {want}",
                            {**c, "cfg": cfg}, r, want)
    ck.extra["through_validate_data"] = n_vd
    ck.extra["through_validate_data_all_configs"] = n_cfg

    # ---- dtype / memory-layout stream (verdict must depend on the integer values only)
    pool = [c for c in cases if c["nodes"] and len(set(c["nodes"])) == len(c["nodes"])
            and all(-100 <= x <= 127 for x in c["nodes"] + c["labels"] + [y for e in c["edges"] for y in e])
            and all(x >= 0 for x in c["nodes"] + c["labels"] + [y for e in c["edges"] for y in e])]
    nd_n = 2500 if ck.quick else 30000
    fixed = [{"case": {"nodes": [1, 2, 5], "labels": [7, 8, 3], "edges": [[1, 2]]}, "nd": "uint64", "ed": "uint64", "ld": "uint64",
              "off": 2**63, "loff": 2**63, "layout": "plain"},
             {"case": {"nodes": [1, 2, 5], "labels": [7, 7, 3], "edges": [[1, 2]]}, "nd": "uint64", "ed": "uint64", "ld": "uint64",
              "off": 2**63 - 2, "loff": 2**63 - 5, "layout": "plain"}]
    dts = fixed + [gen_dtyped(ck.rng, ck.rng.choice(pool)) for _ in range(nd_n)]
    dmodel = drv.ask([dtyped_request(v) for v in dts])
    if dmodel is None:
        ck.broken.append({"what": "driver Drivers/C14.lean (arrays op)", "detail": drv.broken})
    for i, (v, r) in enumerate(zip(dts, common.pmap(impl_dtyped, dts, chunksize=256))):
        c = v["case"]
        big = v["off"] + 127 >= 2**63 or v.get("loff", 0) + 127 >= 2**63
        ck.case({k: v.get(k, 0) for k in ("nd", "ed", "ld", "off", "loff", "layout")} | {"case": c},
                f"dtyped-{'same' if v['nd'] == v['ed'] else 'mixed'}-{v['layout']}{'-beyond-int64' if big else ''}")
        bad = dtyped_verdict(v, r)
        if bad:
            ck.fail(bad[0], bad[1], {"dtyped": v}, r, None)
        if dmodel is not None:
            mo = dmodel[i]
            if "err" in mo:
                ck.corr_broken("C14:driver", v, r, mo)
            elif "exc" in r or mo["valid"] != r["valid"] or mo["messages"] != r["messages"]:
                # the model renders the messages itself: compared verbatim
                ck.corr_broken("C14:validateLineagesArrays", v, r, mo)
    ck.extra["dtyped_cases"] = nd_n

    # ---- missing masks on the lineage and/or tracklet id property, every combination of the two validators
    mpool = [c for c in cases if c["nodes"] and dag_clean(c)]
    nm_n = 1500 if ck.quick else 20000
    ms = [gen_masked(ck.rng, ck.rng.choice(mpool)) for _ in range(nm_n)]
    mmodel = drv.ask([{"op": "data", "nodes": [str(x) for x in v["case"]["nodes"]], "values": [str(x) for x in v["case"]["labels"]],
                       "missing": v["lin_missing"], "edges": [[str(a), str(b)] for a, b in v["case"]["edges"]]} for v in ms])
    if mmodel is None:
        ck.broken.append({"what": "driver Drivers/C14.lean (data op)", "detail": drv.broken})
    for i, (v, r) in enumerate(zip(ms, common.pmap(impl_masked, ms, chunksize=128))):
        c = v["case"]
        if mmodel is not None:
            mo = mmodel[i]
            if "err" in mo:
                ck.corr_broken("C14:driver", v, r, mo)
            elif mo["outcome"] != r["lin"] or (mo.get("args") != r["lin_args"] and r["lin"] == "ValueError"):
                ck.corr_broken("C14:validateDataLineage", v, {"lin": r["lin"], "lin_args": r["lin_args"]}, mo)
        if v["lin_missing"] is not None and len(v["lin_missing"]) != len(c["nodes"]):
            ck.case(v, "masked-wrong-length-mask")
            continue   # numpy rejects the mask; nothing for the property to say (correspondence only)
        keep = [i for i in range(len(c["nodes"])) if not (v["lin_missing"] and v["lin_missing"][i])]
        l_valid, _ = spec_oracle([c["nodes"][i] for i in keep], [c["labels"][i] for i in keep], c["edges"])
        want_lin = "ok" if l_valid else "ValueError"
        ck.case(v, f"masked-lin{'M' if v['lin_missing'] else '-'}-trk{'M' if v['trk_missing'] else '-'}-{want_lin}")
        if r["lin"] != want_lin:
            ck.fail("C14:masked-lineage-ids", f"validate_data(lineage=True) with a missing mask on the lineage ids gave {r['lin']}, "
                    f"the definition on the nodes that carry an id says {want_lin}", {"masked": v}, r, want_lin)
            continue
        if r["history_modified"]:
            ck.fail("C14:validator-modifies-input", "validate_data modified an array of the in-memory geff it validated "
                    f"(masks: lineage {v['lin_missing']}, tracklet {v['trk_missing']})", {"masked": v}, r, None)
            continue
        if r["config_modified"]:
            ck.fail("C14:validate-modifies-config", "validate_data modified the caller's ValidationConfig object", {"masked": v}, r, None)
            continue
        if r["reused_config"] != r["all"]:
            ck.fail("C14:history-dependent-verdict", f"a ValidationConfig object re-used after geffs with other declarations gives {r['reused_config']}, "
                    f"a fresh equal config gives {r['all']}", {"masked": v}, r, r["all"])
            continue
        bad_steps = [(i, name, got) for i, (name, got) in enumerate(r["history"]) if got != r[name]]
        if bad_steps:
            i, name, got = bad_steps[0]
            ck.fail("C14:history-dependent-verdict", f"call {i} ({name}) on the SAME in-memory geff object gave {got}, a fresh object gives {r[name]} "
                    f"(masks: lineage {v['lin_missing']}, tracklet {v['trk_missing']})", {"masked": v}, r, r[name])
            continue
        if r["trk"] not in ("ok", "ValueError"):
            continue  # tracklet validation itself is C13's business
        want_both = "ValueError" if (r["trk"] == "ValueError" or not l_valid) else "ok"
        for k in ("both", "all"):
            if r[k] != want_both:
                ck.fail("C14:lineage-verdict-changes-with-tracklet-validation",
                        f"lineage-only gives {r['lin']}, tracklet-only {r['trk']}, but with both enabled ({k}) validate_data gave {r[k]} "
                        f"(masks: lineage {v['lin_missing']}, tracklet {v['trk_missing']})", {"masked": v}, r, want_both)
                break
    ck.extra["masked_cases"] = nm_n

    # ---- histories on the same array objects, edited in place between calls
    nh = 600 if ck.quick else 8000
    hs = [gen_history(ck.rng) for _ in range(nh)]
    for h, rs in zip(hs, common.pmap(impl_history, hs, chunksize=64)):
        ck.case(h, f"history-{len(h['steps'])}")
        for k, (st, r) in enumerate(zip(h["steps"], rs)):
            if len(set(st["nodes"])) != len(st["nodes"]):
                continue
            s_valid, s_bad = spec_oracle(st["nodes"], st["labels"], st["edges"])
            if "exc" in r:
                ck.fail("C14:exception", f"history step {k}: validate_lineages raised {r['exc']}", {"history": h}, rs, None)
                break
            if r["valid"] != s_valid or r["bad"] != s_bad:
                ck.fail("C14:history-dependent-verdict", f"step {k} of a history on the same array objects (edited in place): got "
                        f"{r['valid']} {r['bad']}, the definition says {s_valid} {s_bad}", {"history": h}, rs, {"step": k, "valid": s_valid, "bad": s_bad})
                break
            if r["modified"]:
                ck.fail("C14:validator-modifies-input", f"history step {k}: validate_lineages modified its arguments", {"history": h}, rs, None)
                break
    ck.extra["histories"] = nh
    ck.assumptions += [
        "networkx weakly_connected_components / DiGraph construction are modelled (component closure), not verified",
        "ids and labels are int64 (the function casts to int64); theorem is over any DecidableEq id type",
        "C14_iff assumes unique node ids (property C12 validates that separately)",
    ]


def replay(rp):
    c = rp["case"]
    if "dtyped" in c:
        v = c["dtyped"]
        r = impl_dtyped(v)
        bad = dtyped_verdict(v, r)
        print(json.dumps({"case": v, "impl": r, "violation": bad}))
        print("REPLAY: property holds on this input" if bad is None else "REPLAY: property FAILS on this input")
        return 0 if bad is None else 1
    if "masked" in c:
        v = c["masked"]
        r = impl_masked(v)
        cc = v["case"]
        keep = [i for i in range(len(cc["nodes"])) if not (v["lin_missing"] and v["lin_missing"][i])]
        l_valid, _ = spec_oracle([cc["nodes"][i] for i in keep], [cc["labels"][i] for i in keep], cc["edges"])
        want_lin = "ok" if l_valid else "ValueError"
        want_both = "ValueError" if (r["trk"] == "ValueError" or not l_valid) else "ok"
        ok = r["lin"] == want_lin and (r["trk"] not in ("ok", "ValueError") or (r["both"] == want_both and r["all"] == want_both))
        ok = ok and not r["history_modified"] and all(got == r[name] for name, got in r["history"])
        ok = ok and not r["config_modified"] and r["reused_config"] == r["all"]
        print(json.dumps({"case": v, "impl": r, "expected": {"lin": want_lin, "both": want_both}}))
        print("REPLAY: property holds on this input" if ok else "REPLAY: property FAILS on this input")
        return 0 if ok else 1
    if "history" in c:
        h = c["history"]
        rs = impl_history(h)
        ok = True
        for st, r in zip(h["steps"], rs):
            if len(set(st["nodes"])) != len(st["nodes"]):
                continue
            s_valid, s_bad = spec_oracle(st["nodes"], st["labels"], st["edges"])
            ok = ok and "exc" not in r and r["valid"] == s_valid and r["bad"] == s_bad and not r["modified"]
        print(json.dumps({"history": h, "impl": rs}))
        print("REPLAY: property holds on this input" if ok else "REPLAY: property FAILS on this input")
        return 0 if ok else 1
    if "cfg" in c:
        s_valid, _ = spec_oracle(c["nodes"], c["labels"], c["edges"])
        r = impl_via_validate_data(c, c["cfg"], with_tracklets=True)
        want = "ok" if s_valid else "ValueError"
        print(json.dumps({"case": c, "impl": r, "expected": want}))
        print("REPLAY: property holds on this input" if r == want else "REPLAY: property FAILS on this input")
        return 0 if r == want else 1
    im = impl_obs(c)
    s_valid, s_bad = spec_oracle(c["nodes"], c["labels"], c["edges"])
    print(json.dumps({"case": c, "impl": im, "spec": {"valid": s_valid, "bad": s_bad}}))
    ok = "exc" not in im and im["valid"] == s_valid and im["bad"] == s_bad
    print("REPLAY: property holds on this input" if ok else "REPLAY: property FAILS on this input")
    return 0 if ok else 1
