"""C14 — lineage validation decides the documented lineage definition.

Implementation: geff.validate.tracks.validate_lineages (and validate_data(lineage=True)).
Model: Geff.Lineage.validateLineages / lineageErrors via Drivers/C14.lean; the theorem
GeffProps.C14.C14_iff proves model <-> specification for every graph and labelling, so a
model/implementation disagreement on a graph with unique node ids is a concrete violation.
A pure-Python union-find oracle gives a third, Lean-independent verdict (used when the Lean
side is broken, and to cross-check the model).
"""
from __future__ import annotations

import itertools
import json
import re

import numpy as np

from harness import common

PROP = "C14"
MSG = re.compile(r"^Lineage (-?\d+): ")


# ----------------------------------------------------------------- oracle (spec, independent)
def spec_oracle(nodes, labels, edges):
    """(valid, bad labels in first-occurrence order) straight from the definition."""
    parent = {}

    def find(x):
        parent.setdefault(x, x)
        while parent[x] != x:
            parent[x] = parent[parent[x]]
            x = parent[x]
        return x

    for n in nodes:
        find(n)
    for u, v in edges:
        ru, rv = find(u), find(v)
        if ru != rv:
            parent[ru] = rv
    comp_members: dict = {}
    for x in list(parent):
        comp_members.setdefault(find(x), set()).add(x)
    classes: dict = {}
    for n, l in zip(nodes, labels):
        classes.setdefault(l, set()).add(n)
    bad = []
    for l, cls in classes.items():
        r = find(next(iter(cls)))
        if comp_members[r] != cls:
            bad.append(l)
    return (not bad), bad


# ----------------------------------------------------------------- implementation observation
def impl_obs(case):
    from geff.validate.tracks import validate_lineages

    nodes, labels, edges = case["nodes"], case["labels"], case["edges"]
    e = np.asarray(edges, dtype=np.int64).reshape(-1, 2)
    try:
        valid, errors = validate_lineages(np.asarray(nodes, dtype=np.int64), e, np.asarray(labels, dtype=np.int64))
    except Exception as ex:  # noqa: BLE001
        return {"exc": type(ex).__name__}
    bad = []
    for m in errors:
        mm = MSG.match(m)
        bad.append(int(mm.group(1)) if mm else None)
    return {"valid": bool(valid), "bad": bad}


def tracklet_partition(nodes, edges):
    """the documented tracklet partition (docs/tracking.md): join u,v when (u,v) is the only edge
    leaving u and the only edge entering v"""
    outd, ind = {}, {}
    for u, v in edges:
        outd[u] = outd.get(u, 0) + 1
        ind[v] = ind.get(v, 0) + 1
    parent = {n: n for n in nodes}

    def find(x):
        while parent[x] != x:
            parent[x] = parent[parent[x]]
            x = parent[x]
        return x
    for u, v in edges:
        if outd[u] == 1 and ind[v] == 1:
            parent[find(u)] = find(v)
    ids = {}
    return [ids.setdefault(find(n), 100 + len(ids)) for n in nodes]


def dag_clean(case):
    """unique nodes, every edge inside the node list, strictly forward in list position (acyclic),
    no repeated edge: the other validators pass, so validate_data's verdict is the lineage verdict"""
    pos = {n: i for i, n in enumerate(case["nodes"])}
    if len(pos) != len(case["nodes"]):
        return False
    seen = set()
    for u, v in case["edges"]:
        if u not in pos or v not in pos or pos[u] >= pos[v] or (u, v) in seen:
            return False
        seen.add((u, v))
    return True


def impl_via_validate_data(case, cfg=None, with_tracklets=False):
    """Same labelling through validate_data(lineage=True, …): ValueError iff invalid."""
    import geff_spec
    from geff.validate.data import ValidationConfig, validate_data

    nodes = np.asarray(case["nodes"], dtype=np.int64)
    npm = {"lin": geff_spec.PropMetadata(identifier="lin", dtype="int64")}
    props = {"lin": {"values": np.asarray(case["labels"], dtype=np.int64), "missing": None}}
    tnp = {"lineage": "lin"}
    if with_tracklets:
        npm["trk"] = geff_spec.PropMetadata(identifier="trk", dtype="int64")
        props["trk"] = {"values": np.asarray(tracklet_partition(case["nodes"], [tuple(e) for e in case["edges"]]), dtype=np.int64),
                        "missing": None}
        tnp["tracklet"] = "trk"
    md = geff_spec.GeffMetadata(
        geff_version="1.0.0", directed=True, node_props_metadata=npm, edge_props_metadata={}, track_node_props=tnp,
    )
    g = {"metadata": md, "node_ids": nodes,
         "edge_ids": np.asarray(case["edges"], dtype=np.int64).reshape(-1, 2),
         "node_props": props, "edge_props": {}}
    try:
        validate_data(g, ValidationConfig(**(cfg or {"lineage": True})))
        return "ok"
    except ValueError:
        return "ValueError"
    except Exception as ex:  # noqa: BLE001
        return type(ex).__name__


# ----------------------------------------------------------------- generators
def set_partitions(n):
    """restricted growth strings = labellings up to renaming"""
    def rec(i, cur, mx):
        if i == n:
            yield list(cur)
            return
        for v in range(mx + 2):
            cur.append(v)
            yield from rec(i + 1, cur, max(mx, v))
            cur.pop()
    if n == 0:
        yield []
    else:
        yield from rec(0, [], -1)


def exhaustive(n_nodes, phantom):
    verts = list(range(n_nodes + (1 if phantom else 0)))
    pairs = [(a, b) for a in verts for b in verts if a != b]
    for k in range(2 ** len(pairs)):
        edges = [p for i, p in enumerate(pairs) if k >> i & 1]
        if phantom and not any(n_nodes in e for e in edges):
            continue  # already covered by the phantom-free enumeration
        for lab in set_partitions(n_nodes):
            yield {"nodes": list(range(n_nodes)), "labels": [10 + x for x in lab], "edges": [list(e) for e in edges]}


def random_case(rng, big=False):
    n = rng.randint(1, 7)
    alphabet = rng.sample(range(-5, 40), n) if not big else rng.sample(
        [-(2**63), -1, 0, 1, 2**31, 2**62, 2**63 - 1, 7, 8, 9, 10, 11], n)
    nodes = alphabet
    m = rng.randint(0, n + 2)
    pool = list(nodes) + ([rng.choice([99, 100])] if rng.random() < 0.2 else [])
    edges = [[rng.choice(pool), rng.choice(pool)] for _ in range(m)]
    # mostly-valid labelling: true components, then maybe one corruption
    _, _ = None, None
    parent = {x: x for x in pool}

    def find(x):
        while parent[x] != x:
            parent[x] = parent[parent[x]]
            x = parent[x]
        return x
    for u, v in edges:
        parent[find(u)] = find(v)
    base = {}
    labels = [base.setdefault(find(x), rng.randint(-3, 50) * (1 if not big else 2**40)) for x in nodes]
    # distinct labels per component
    seen = {}
    for i, x in enumerate(nodes):
        r = find(x)
        if r not in seen:
            seen[r] = len(seen) * 7 + (labels[i] % 5)
        labels[i] = seen[r]
    mode = rng.random()
    if mode < 0.35 and n >= 1:
        i = rng.randrange(n)
        labels[i] = rng.choice(labels + [777])
    elif mode < 0.5:
        labels = [rng.randint(0, 2) for _ in nodes]
    return {"nodes": nodes, "labels": labels, "edges": edges}


def corpus():
    d = common.VERIF / "harness" / "corpus" / PROP
    for f in sorted(d.glob("*.json")):
        yield json.loads(f.read_text())


# ----------------------------------------------------------------- the check
def classify(case, impl):
    s_valid, s_bad = spec_oracle(case["nodes"], case["labels"], case["edges"])
    return s_valid, s_bad


def run(ck: common.Check):
    ck.prove(["GeffProps.C14"])
    ck.rule = ("cases = corpus + all digraphs (no self loops) on <=N nodes x all labellings up to renaming "
               "(+ one phantom endpoint) + seeded random graphs of 1..7 nodes with component labellings and "
               "single-edit corruptions; non-trivial = at least one edge or two labels; distinct = distinct "
               "canonical JSON of (nodes, labels, edges)")
    cases = list(corpus())
    nmax = 4
    for n in range(0, nmax + 1):
        cases.extend(exhaustive(n, False))
    for n in range(0, 3 + 1):
        cases.extend(exhaustive(n, True))
    ck.extra["exhaustive_upto_nodes"] = nmax
    nrand = 3000 if ck.quick else 60000
    for i in range(nrand):
        cases.append(random_case(ck.rng, big=(i % 10 == 0)))
    if not ck.quick:
        # sampled digraphs on 5 nodes x all 52 labellings up to renaming
        pairs5 = [(a, b) for a in range(5) for b in range(5) if a != b]
        parts5 = list(set_partitions(5))
        for _ in range(4000):
            k = ck.rng.getrandbits(len(pairs5)) & ck.rng.getrandbits(len(pairs5))  # sparse
            edges = [list(p) for i, p in enumerate(pairs5) if k >> i & 1]
            for lab in parts5:
                cases.append({"nodes": list(range(5)), "labels": [10 + x for x in lab], "edges": edges})
    # self loops / duplicate edges / duplicate node ids: correspondence only
    extra = [
        {"nodes": [1, 2], "labels": [5, 5], "edges": [[1, 1], [1, 2], [1, 2]]},
        {"nodes": [1, 2], "labels": [5, 6], "edges": [[1, 1]]},
        {"nodes": [], "labels": [], "edges": []},
        {"nodes": [1, 1, 2], "labels": [5, 5, 6], "edges": []},
        {"nodes": [1, 1, 2], "labels": [5, 6, 6], "edges": [[1, 2]]},
    ]
    cases.extend(extra)

    impl = common.pmap(impl_obs, cases, chunksize=512)
    drv = ck.driver()
    model = drv.ask([{"nodes": [str(x) for x in c["nodes"]], "labels": [str(x) for x in c["labels"]],
                      "edges": [[str(a), str(b)] for a, b in c["edges"]]} for c in cases])
    if model is None:
        ck.broken.append({"what": "driver Drivers/C14.lean", "detail": drv.broken})
    n_vd = 0
    n_cfg = 0
    for idx, (c, im) in enumerate(zip(cases, impl)):
        uniq = len(set(c["nodes"])) == len(c["nodes"])
        s_valid, s_bad = spec_oracle(c["nodes"], c["labels"], c["edges"])
        tag = ("valid" if s_valid else "invalid") + ("" if uniq else "-dupnodes")
        ck.case(c, tag, nontrivial=bool(c["edges"]) or len(set(c["labels"])) > 1)
        if "exc" in im:
            ck.fail("C14:exception", f"validate_lineages raised {im['exc']}", c, im, {"valid": s_valid})
            continue
        if uniq:
            if im["valid"] != s_valid:
                key = "C14:accepts-invalid" if im["valid"] else "C14:rejects-valid"
                ck.fail(key, f"validate_lineages returned {im['valid']} but the definition says {s_valid}", c, im,
                        {"valid": s_valid, "bad": s_bad})
            elif im["bad"] != s_bad:
                ck.fail("C14:wrong-offenders", f"reported lineages {im['bad']} but the offending ones are {s_bad}", c, im,
                        {"valid": s_valid, "bad": s_bad})
        if model is not None:
            mo = model[idx]
            if "err" in mo:
                ck.corr_broken("C14:driver", c, im, mo)
            else:
                mbad = [int(x) for x in mo["bad"]]
                if mo["valid"] != im["valid"] or mbad != im["bad"]:
                    ck.corr_broken("C14:validateLineages", c, im, {"valid": mo["valid"], "bad": mbad})
                if uniq and (mo["valid"] != s_valid or mbad != s_bad):
                    ck.corr_broken("C14:model-vs-python-oracle", c, {"valid": s_valid, "bad": s_bad}, mo)
        # through validate_data on a sample
        if uniq and c["nodes"] and idx % 23 == 0:
            n_vd += 1
            r = impl_via_validate_data(c)
            want = "ok" if s_valid else "ValueError"
            if r != want:
                ck.fail("C14:validate_data-dispatch", f"validate_data(lineage=True) gave {r}, expected {want}", c, r, want)
        # every validation config that enables lineage, on graphs where the other validators pass
        if c["nodes"] and idx % 7 == 0 and n_cfg < (4000 if ck.quick else 40000) and dag_clean(c):
            want = "ok" if s_valid else "ValueError"
            for bits in range(16):
                cfg = {"lineage": True, "graph": bool(bits & 1), "tracklet": bool(bits & 2),
                       "sphere": bool(bits & 4), "ellipsoid": bool(bits & 8)}
                n_cfg += 1
                r = impl_via_validate_data(c, cfg, with_tracklets=True)
                if r != want:
                    ck.fail("C14:validate_data-dispatch-config",
                            f"validate_data({cfg}) on a geff declaring tracklet and lineage ids gave {r}, expected {want}",
                            {**c, "cfg": cfg}, r, want)
    ck.extra["through_validate_data"] = n_vd
    ck.extra["through_validate_data_all_configs"] = n_cfg
    ck.assumptions += [
        "networkx weakly_connected_components / DiGraph construction are modelled (component closure), not verified",
        "ids and labels are int64 (the function casts to int64); theorem is over any DecidableEq id type",
        "C14_iff assumes unique node ids (property C12 validates that separately)",
    ]


def replay(rp):
    c = rp["case"]
    if "cfg" in c:
        s_valid, _ = spec_oracle(c["nodes"], c["labels"], c["edges"])
        r = impl_via_validate_data(c, c["cfg"], with_tracklets=True)
        want = "ok" if s_valid else "ValueError"
        print(json.dumps({"case": c, "impl": r, "expected": want}))
        print("REPLAY: property holds on this input" if r == want else "REPLAY: property FAILS on this input")
        return 0 if r == want else 1
    im = impl_obs(c)
    s_valid, s_bad = spec_oracle(c["nodes"], c["labels"], c["edges"])
    print(json.dumps({"case": c, "impl": im, "spec": {"valid": s_valid, "bad": s_bad}}))
    ok = "exc" not in im and im["valid"] == s_valid and im["bad"] == s_bad
    print("REPLAY: property holds on this input" if ok else "REPLAY: property FAILS on this input")
    return 0 if ok else 1
