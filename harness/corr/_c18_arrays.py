"""C18, array half: ties of the buffer-heap model (GeffModel/ArrHeap.lean) and of translator T11.

  * `exercise_allow_list`: every library call that T11 assumed not to modify its array arguments *and that
    the current source uses* is run on a battery of arrays (contiguous, Fortran, strided view, big-endian,
    read-only, object array of arrays, strings, empty); the argument's header and bytes must be unchanged, and
    for the calls classified "fresh result" the result must not share memory with the argument;
  * `heap_cases` / `heap_compare`: random sequences of numpy operations of the vocabulary (copies, views, in-place
    writes, header assignments) on real arrays against `Geff.ArrHeap.run` through the driver: which array
    objects share a buffer, the contents of every buffer, every header, and the model's `safeRun` verdict
    against "the entry arrays still have their bytes".
"""
from __future__ import annotations

import copy

import numpy as np


def state(a):
    if a.dtype == object:
        return (a.dtype.str, a.shape, a.strides, bool(a.flags.writeable), [id(x) for x in a.ravel()],
                [state(x) if isinstance(x, np.ndarray) else repr(x) for x in a.ravel()])
    return (a.dtype.str, a.shape, a.strides, bool(a.flags.writeable), a.tobytes())


def battery():
    base = np.arange(24, dtype="int64")
    ro = np.linspace(0, 1, 6)
    ro.setflags(write=False)
    obj = np.empty(3, dtype=object)
    for i in range(3):
        obj[i] = np.arange(i + 1, dtype="float32")
    big = np.arange(6).astype(">u4")
    return {
        "int64-1d": np.arange(5, dtype="int64"), "float64-2d": np.arange(6, dtype="float64").reshape(3, 2) / 4,
        "fortran": np.asfortranarray(np.arange(6, dtype="float32").reshape(2, 3)), "strided-view": base[1::3],
        "negative-stride": base[::-1][:4], "big-endian": big, "read-only": ro, "object": obj,
        "bool": np.array([True, False, True]), "str": np.array(["a", "bc", ""], dtype="<U3"),
        "empty": np.zeros((0,), dtype="uint8"), "nan": np.array([np.nan, -0.0, np.inf]), "uint64": np.array([2 ** 64 - 1, 0], dtype="uint64"),
    }


def _zarr_setitem(a, fmt):
    import zarr
    from zarr.storage import MemoryStore

    g = zarr.open_group(MemoryStore(), mode="w", zarr_format=fmt)
    g["x"] = a
    return None


def _zarr_create_group(a):
    import zarr
    from zarr.storage import MemoryStore

    g = zarr.open_group(MemoryStore(), mode="w", zarr_format=2)
    g.create_group("p")
    return None


def _propdict(a):
    from geff._typing import PropDictNpArray

    return PropDictNpArray(values=a, missing=None)


SPECIFIC = {
    "builtins:all": lambda a: all(a.ravel().tolist()), "builtins:any": lambda a: any(a.ravel().tolist()),
    "builtins:bool": lambda a: bool(a.size), "builtins:enumerate": lambda a: list(enumerate(a)),
    "builtins:getattr": lambda a: getattr(a, "T"), "builtins:isinstance": lambda a: isinstance(a, np.ndarray),
    "builtins:len": len, "builtins:list": list, "builtins:max": lambda a: max(a.ravel(), default=None),
    "builtins:min": lambda a: min(a.ravel(), default=None), "builtins:range": lambda a: range(len(a)),
    "builtins:sorted": lambda a: sorted(a.ravel()), "builtins:tuple": tuple, "builtins:type": type,
    "builtins:zip": lambda a: list(zip(a, a)), "builtins:sum": lambda a: sum(a.ravel().tolist()),
    "builtins:set": lambda a: set(a.ravel().tolist()), "builtins:dict": lambda a: dict(enumerate(a)),
    "builtins:str": str, "builtins:repr": repr, "builtins:reversed": lambda a: list(reversed(a)),
    "builtins:iter": lambda a: next(iter(a), None), "builtins:next": lambda a: next(iter(a), None),
    "builtins:int": lambda a: int(a.size), "builtins:float": lambda a: float(a.size), "builtins:id": id,
    "builtins:hasattr": lambda a: hasattr(a, "shape"), "builtins:print": lambda a: None, "builtins:abs": lambda a: abs(a.size),
    "constructors:PropDictNpArray": _propdict,
    "constructors:Axis": lambda a: __import__("geff_spec").Axis(name="x", min=0.0, max=float(len(a))),
    "constructors:PropMetadata": lambda a: __import__("geff_spec").PropMetadata(identifier="p", dtype=a.dtype if a.dtype != object else "int8"),
    "constructors:GeffMetadata": lambda a: __import__("geff_spec").GeffMetadata(
        geff_version="1.0.0", directed=True, axes=None, node_props_metadata={}, edge_props_metadata={}),
    "ndarray methods:astype": lambda a: (a.astype(np.float32) if a.dtype.kind in "iufb" else a.astype(a.dtype)),
    "ndarray methods:item": lambda a: a.ravel()[0].item() if a.size and a.dtype != object else None,
    "ndarray methods:reshape": lambda a: a.reshape(-1), "ndarray methods:view": lambda a: a.view(),
    "ndarray methods:transpose": lambda a: a.transpose(), "ndarray methods:take": lambda a: a.take([0]) if a.size else None,
    "ndarray methods:repeat": lambda a: a.repeat(2), "ndarray methods:clip": lambda a: a.clip(0, 1) if a.dtype.kind in "iuf" else None,
    "ndarray methods:round": lambda a: a.round() if a.dtype.kind in "iuf" else None,
    "ndarray methods:swapaxes": lambda a: a.swapaxes(0, -1), "ndarray methods:dot": lambda a: a.ravel().dot(a.ravel()) if a.dtype.kind in "iuf" else None,
    "numpy:arange": lambda a: np.arange(len(a)), "numpy:array": lambda a: np.array(a),
    "numpy:asarray": lambda a: np.asarray(a), "numpy:can_cast": lambda a: np.can_cast(a.dtype, np.float64),
    "numpy:concatenate": lambda a: np.concatenate([a.ravel(), a.ravel()]),
    "numpy:empty": lambda a: np.empty(shape=a.shape, dtype=a.dtype), "numpy:zeros": lambda a: np.zeros(shape=a.shape, dtype=a.dtype),
    "numpy:ones": lambda a: np.ones(shape=a.shape, dtype=a.dtype if a.dtype.kind in "iufb" else "int8"),
    "numpy:full": lambda a: np.full(a.shape, 0), "numpy:expand_dims": lambda a: np.expand_dims(a, axis=0),
    "numpy:linspace": lambda a: np.linspace(0, 1, len(a)), "numpy:result_type": lambda a: np.result_type(a.dtype, a.dtype),
    "numpy:stack": lambda a: np.stack([a, a], axis=0), "numpy:vstack": lambda a: np.vstack([a, a]),
    "numpy:hstack": lambda a: np.hstack([a, a]), "numpy:where": lambda a: np.where(np.ones(a.shape, bool), a, a),
    "numpy:isin": lambda a: np.isin(a, a) if a.dtype != object else None, "numpy:issubdtype": lambda a: np.issubdtype(a.dtype, np.integer),
    "numpy:dtype": lambda a: np.dtype(a.dtype), "numpy:reshape": lambda a: np.reshape(a, (-1,)),
    "numpy:broadcast_to": lambda a: np.broadcast_to(a, (2,) + a.shape), "numpy:array_equal": lambda a: np.array_equal(a, a),
    "numpy:zeros_like": lambda a: np.zeros_like(a), "numpy:ones_like": lambda a: np.ones_like(a) if a.dtype.kind in "iufb" else None,
    "numpy:empty_like": lambda a: np.empty_like(a), "numpy:full_like": lambda a: np.full_like(a, 0) if a.dtype.kind in "iufb" else None,
    "numpy:moveaxis": lambda a: np.moveaxis(a, 0, -1), "numpy:swapaxes": lambda a: np.swapaxes(a, 0, -1),
    "numpy:promote_types": lambda a: np.promote_types(a.dtype, a.dtype), "numpy:iinfo": lambda a: np.iinfo(a.dtype) if a.dtype.kind in "iu" else None,
    "numpy:finfo": lambda a: np.finfo(a.dtype) if a.dtype.kind == "f" else None,
    "zarr:Group.__setitem__": lambda a: (_zarr_setitem(a, 2), _zarr_setitem(a, 3)),
    "zarr:Group.create_group": _zarr_create_group, "zarr:Group.require_group": _zarr_create_group,
    "zarr:Group.get": _zarr_create_group, "zarr:Group.create_array": lambda a: _zarr_setitem(a, 3),
}


def exercise_one(entry, fresh_names):
    """-> (ran: int, problems: [str])"""
    group, name = entry.split(":", 1)
    fn = SPECIFIC.get(entry)
    if fn is None:
        if group == "numpy":
            fn = lambda a, f=getattr(np, name, None): f(a)  # noqa: E731
        elif group == "ndarray methods":
            fn = lambda a, m=name: getattr(a, m)()  # noqa: E731
        elif group in ("container methods", "graph library readers"):
            return 1, []            # methods of dicts / lists / graph objects: no ndarray receives anything
        else:
            return 0, [f"no exerciser for allow-listed call {entry}"]
    ran, problems = 0, []
    import warnings

    for label, a in battery().items():
        before = state(a)
        try:
            with warnings.catch_warnings():
                warnings.simplefilter("ignore")
                r = fn(a)
            ran += 1
        except Exception:  # noqa: BLE001  not applicable to this array (dtype, rank): the argument must still be intact
            r = None
        if state(a) != before:
            problems.append(f"{entry} modified its argument ({label})")
        if r is not None and isinstance(r, np.ndarray) and name in fresh_names and group in ("numpy", "ndarray methods") \
                and a.size and r.size and np.shares_memory(r, a):
            problems.append(f"{entry} is classified 'fresh result' but its result shares memory with the argument ({label})")
    if ran == 0:
        problems.append(f"exerciser of {entry} never ran")
    return ran, problems


# ------------------------------------------------------------------ heap model vs numpy
def _root(a):
    while isinstance(a.base, np.ndarray):
        a = a.base
    return a


ALLOCS = {
    "copy": lambda c: c.copy(), "np.array": lambda c: np.array(c), "arith": lambda c: c + 1,
    "mask-index": lambda c: c[np.ones(c.shape, dtype=bool)], "int-index": lambda c: c.ravel()[np.arange(c.size)],
    "astype-copy": lambda c: c.astype(np.int32), "concatenate": lambda c: np.concatenate([c.ravel()[:2], c.ravel()[2:]]),
    "deepcopy": lambda c: copy.deepcopy(c), "stack": lambda c: np.stack([c.ravel(), c.ravel()]),
    "asarray-of-list": lambda c: np.asarray(c.tolist()), "zeros": lambda c: np.zeros(4, dtype="int64"),
    "flatten": lambda c: c.flatten(), "where": lambda c: np.where(c > 1, c, 0),
}
VIEWS = {
    "slice": lambda c: c[1:], "reverse": lambda c: c[::-1], "reshape": lambda c: c.reshape(-1), "view": lambda c: c.view(),
    "T": lambda c: c.T, "asarray": lambda c: np.asarray(c), "ravel-contiguous": lambda c: c.ravel() if c.flags.c_contiguous else c.T,
    "astype-nocopy": lambda c: c.astype(c.dtype, copy=False), "squeeze": lambda c: np.squeeze(c),
    "expand_dims": lambda c: np.expand_dims(c, 0), "ellipsis": lambda c: c[...], "asanyarray": lambda c: np.asanyarray(c),
}


def _w_setitem(c, v):
    c[...] = v


def _w_first(c, v):
    c[0:1] = v


def _w_iadd(c, v):
    c += v


def _w_sort(c, v):
    c.sort(axis=None) if c.ndim == 1 else c.fill(v)


WRITES = {
    "setitem": _w_setitem, "slice-assign": _w_first, "iadd": _w_iadd, "fill": lambda c, v: c.fill(v),
    "copyto": lambda c, v: np.copyto(c, v), "sort": _w_sort, "putmask": lambda c, v: np.putmask(c, c >= 0, v),
    "out=": lambda c, v: np.add(c, v, out=c), "place": lambda c, v: np.place(c, c >= 0, [v]),
    "put": lambda c, v: c.put([0], v) if c.size else None,
}


def heap_cases(rng, count):
    """abstract scripts: [("alloc", kind, src) | ("view", kind, src) | ("write", kind, tgt, v) | ("hdr", tgt, flag)]"""
    out = []
    for _ in range(count):
        n_entry = rng.randint(1, 3)
        entry = [rng.choice(("own", "view-of-previous")) if i else "own" for i in range(n_entry)]
        script, ncell = [], n_entry
        for _ in range(rng.randint(1, 9)):
            r = rng.random()
            if r < 0.3:
                script.append(["alloc", rng.choice(sorted(ALLOCS)), rng.randrange(ncell)])
                ncell += 1
            elif r < 0.6:
                script.append(["view", rng.choice(sorted(VIEWS)), rng.randrange(ncell)])
                ncell += 1
            elif r < 0.9:
                script.append(["write", rng.choice(sorted(WRITES)), rng.randrange(ncell), rng.randint(0, 50)])
            else:
                script.append(["hdr", rng.randrange(ncell), rng.random() < 0.5])
        out.append({"entry": entry, "script": script})
    return out


def heap_run(case):
    """run the script on real arrays; returns the driver request and the real observation"""
    cells = []
    for i, kind in enumerate(case["entry"]):
        if kind == "own" or not cells:
            cells.append(np.arange(4, dtype="int64") + 10 * i)
        else:
            cells.append(cells[-1][::-1])
    roots: list = []                      # buffer id -> root array (held: ids stay meaningful)
    hdrs: dict = {}

    def buf_id(a):
        r = _root(a)
        for j, x in enumerate(roots):
            if x is r:
                return j
        roots.append(r)
        return len(roots) - 1

    def hdr(a):
        return hdrs.setdefault((a.dtype.str, a.shape, a.strides, bool(a.flags.writeable)), len(hdrs))

    def contents(r):
        return [int(x) for x in r.ravel().tolist()]

    req = {"op": "heap", "bufs": [], "cells": [], "ops": []}
    for c in cells:
        b = buf_id(c)
        req["cells"].append([b, hdr(c)])
    req["bufs"] = [contents(r) for r in roots]
    entry_snap = [state(c) for c in cells]
    n_entry_roots = len(roots)
    entry_root_snap = [state(r) for r in roots]
    slots = list(range(len(cells)))        # script-level names -> model cells (an operation that returns the
    skipped = aliases = 0                  # very same object adds a name, not a cell: `Ev.bindAlias` in layer B)
    for op in case["script"]:
        if op[0] == "alloc":
            a = ALLOCS[op[1]](cells[slots[op[2]]])
            nb = len(roots)
            b = buf_id(a)
            if b != nb:                                   # not a fresh buffer: numpy disagrees with the classification
                return req, {"vocabulary": f"alloc kind {op[1]} returned an array on an existing buffer"}
            cells.append(a)
            slots.append(len(cells) - 1)
            req["ops"].append(["alloc", contents(roots[b]), hdr(a)])
        elif op[0] == "view":
            src = cells[slots[op[2]]]
            a = VIEWS[op[1]](src)
            if _root(a) is not _root(src):
                return req, {"vocabulary": f"view kind {op[1]} returned an array on another buffer"}
            if a is src:
                slots.append(slots[op[2]])
                aliases += 1
                continue
            cells.append(a)
            slots.append(len(cells) - 1)
            req["ops"].append(["view", slots[op[2]], hdr(a)])
        elif op[0] == "write":
            c = cells[slots[op[2]]]
            if not c.flags.writeable:
                skipped += 1
                continue
            try:
                WRITES[op[1]](c, op[3])
            except Exception:  # noqa: BLE001
                skipped += 1
                continue
            req["ops"].append(["write", slots[op[2]], contents(_root(c))])
        else:
            c = cells[slots[op[1]]]
            try:
                c.flags.writeable = op[2]
            except ValueError:                            # cannot make a view of a read-only base writeable
                skipped += 1
                continue
            req["ops"].append(["hdr", slots[op[1]], hdr(c)])
    obs = {"bufs": [contents(r) for r in roots], "cells": [[buf_id(c), hdr(c)] for c in cells],
           "entry_intact": all(state(r) == s for r, s in zip(roots[:n_entry_roots], entry_root_snap))
           and [state(c) for c in cells[:len(entry_snap)]] == entry_snap, "skipped": skipped, "aliases": aliases}
    return req, obs
