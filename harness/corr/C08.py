"""C08 — metadata survives serialisation and matches the published JSON schema.

Implementation side (working tree): a valid metadata document is turned into a real
`GeffMetadata`; then
* `model_dump(mode="json")` is compared with the model's `dump`;
* JSON text: `model_validate_json(model_dump_json())` and `model_validate(json.loads(json.dumps(dump)))`
  must give back an equal object;
* zarr attributes: `write` into a v2 and a v3 group that already carries foreign attributes (and
  sometimes a stale `geff`), `read` back — equal object, foreign attributes untouched; a sample
  also goes through a directory store and `geff info`; multi-step store histories (write m1, then
  read / clear fields / write back, or write a minimal or otherwise different m2 over it) must read
  back exactly the object written last;
* the dump (`{"geff": dump}`) must validate against the published `geff-schema.json`
  (`jsonschema`, Draft 2020-12) — and the Lean evaluator `validates` must agree;
* single structural mutations of the dump (dropped key, wrong JSON type, bad enum / pattern /
  length, unknown key) are judged by `jsonschema` under the published and under the freshly
  exported schema (must agree: no drift) and by the Lean evaluator (must agree with `jsonschema`:
  the evaluator means what the standard means on this keyword set).

When the published and the exported schema differ as documents the Lean obligation
`exported_parses_to_spec` / `published_parses_to_spec` breaks; the mutation corpus is then searched
for an instance with different verdicts, which is the concrete, replayable violation.
"""
from __future__ import annotations

import json
import time
import tempfile

from harness import common
from harness.corr import meta_common as mc

PROP = "C08"
ALT = [None, True, 5, 1.5, "s", [], {}]


# ----------------------------------------------------------------- schemas
_SCH: dict = {}


def schemas():
    if not _SCH:
        from geff_spec._schema import _formatted_schema_json

        _SCH["published"] = json.loads((common.REPO / "geff-schema.json").read_text())
        _SCH["exported"] = json.loads(_formatted_schema_json())
        import jsonschema

        for k in ("published", "exported"):
            jsonschema.Draft202012Validator.check_schema(_SCH[k])
            _SCH["v_" + k] = jsonschema.Draft202012Validator(_SCH[k])
    return _SCH


def verdicts(inst):
    s = schemas()
    vp = s["v_published"].is_valid(inst)
    ve = vp if s["published"] == s["exported"] else s["v_exported"].is_valid(inst)
    return vp, ve


# ----------------------------------------------------------------- mutations
def paths(d, pre=()):
    """every (path, container kind) of a JSON value"""
    yield pre
    if isinstance(d, dict):
        for k, v in d.items():
            yield from paths(v, pre + (k,))
    elif isinstance(d, list):
        for i, v in enumerate(d):
            yield from paths(v, pre + (i,))


def _get(d, p):
    for k in p:
        d = d[k]
    return d


def _with(d, p, f):
    """deep copy of d with f(parent container, key) applied at path p (p non-empty)"""
    import copy

    d2 = copy.deepcopy(d)
    f(_get(d2, p[:-1]), p[-1])
    return d2


def _jtype(v):
    return ("null" if v is None else "bool" if isinstance(v, bool) else "int" if isinstance(v, int) else
            "float" if isinstance(v, float) else "str" if isinstance(v, str) else "list" if isinstance(v, list) else "dict")


def mutations(inst):
    """all single structural mutations of an instance: (description, mutated instance)"""
    out = []
    for p in paths(inst):
        if not p:
            continue
        cur = _get(inst, p)
        ps = "/".join(map(str, p))
        if isinstance(p[-1], str):
            out.append((f"drop {ps}", _with(inst, p, lambda par, k: par.pop(k))))
        for alt in ALT:
            if _jtype(alt) == _jtype(cur) and not (isinstance(cur, (list, dict)) and cur):
                continue
            out.append((f"retype {ps} -> {json.dumps(alt)}", _with(inst, p, lambda par, k, alt=alt: par.__setitem__(k, alt))))
        if isinstance(cur, str):
            for bad in ("", "foo", "abc", "v1.2", "Space", "1"):
                if bad != cur:
                    out.append((f"string {ps} -> {bad!r}", _with(inst, p, lambda par, k, bad=bad: par.__setitem__(k, bad))))
        if isinstance(cur, dict):
            out.append((f"unknown {ps} +scalar", _with(inst, p, lambda par, k: par[k].__setitem__("zzz_unknown", 1))))
            out.append((f"unknown {ps} +object", _with(
                inst, p, lambda par, k: par[k].__setitem__("zzz_unknown", {"identifier": "zzz_unknown", "dtype": "int8"}))))
    out.append(("root not an object", [inst]))
    out.append(("root geff missing", {}))
    out.append(("root unknown key", {**inst, "other": 1}))
    return out


def drift_search(d):
    """first single mutation of {"geff": d} (or the instance itself) on which the two schemas disagree"""
    inst = {"geff": d}
    for desc, mi in [("unmutated dump", inst)] + mutations(inst):
        vp, ve = verdicts(mi)
        if vp != ve:
            return {"desc": desc, "inst": mi, "published": vp, "exported": ve}
    return None


# ----------------------------------------------------------------- implementation side
def _raw_attrs_memory(store, fmt):
    """the attribute document as stored, parsed from the stored bytes by Python's json (not by zarr)"""
    from zarr.core.buffer import default_buffer_prototype
    from zarr.core.sync import sync

    key = ".zattrs" if fmt == 2 else "zarr.json"
    buf = sync(store.get(key, prototype=default_buffer_prototype()))
    doc = json.loads(buf.to_bytes().decode("utf-8"))
    return doc if fmt == 2 else doc.get("attributes", {})


def _raw_attrs_disk(path, fmt):
    import os

    with open(os.path.join(path, ".zattrs" if fmt == 2 else "zarr.json"), encoding="utf-8") as fh:
        doc = json.load(fh)
    return doc if fmt == 2 else doc.get("attributes", {})


CLI_ENVS = {
    # what a user at a colour terminal has
    "tty-like": {"set": {"TERM": "xterm-256color", "COLUMNS": "80", "LINES": "24", "FORCE_COLOR": "1", "CLICOLOR_FORCE": "1",
                         "COLORTERM": "truecolor"}, "unset": ["NO_COLOR"]},
    # what a pipe / CI job has
    "dumb": {"set": {"TERM": "dumb", "NO_COLOR": "1"}, "unset": ["COLUMNS", "LINES", "FORCE_COLOR", "CLICOLOR_FORCE", "COLORTERM"]},
    "narrow": {"set": {"TERM": "xterm", "COLUMNS": "20"}, "unset": ["NO_COLOR", "FORCE_COLOR"]},
}


def _geff_info_subprocess(path, envname):
    import os
    import subprocess
    import sys

    env = dict(os.environ)
    for k in CLI_ENVS[envname]["unset"]:
        env.pop(k, None)
    env.update(CLI_ENVS[envname]["set"])
    env["PYTHONIOENCODING"] = "utf-8"
    env["PYTHONWARNINGS"] = "ignore"
    code = ("import warnings; warnings.simplefilter('ignore'); import sys, geff; "
            f"assert geff.__file__.startswith({str(common.REPO)!r}), geff.__file__; "
            "from geff._cli import app; app()")
    p = subprocess.run([sys.executable, "-c", code, "info", path], capture_output=True, env=env, timeout=300)
    return {"rc": p.returncode, "stdout": p.stdout.decode("utf-8", "replace"), "err": p.stderr.decode("utf-8", "replace")}


def _has_nan(t):
    if isinstance(t, list):
        return any(_has_nan(x) for x in t)
    if isinstance(t, dict):
        if t.get("f") == "nan":
            return True
        return any(_has_nan(x) for _, x in t.get("o", []))
    return False


def _form(forms, name, geff_value, dump_tok):
    """register one serialised form of the metadata: its verdict under the published schema and whether
    its leaves (values AND JSON types: a number must stay a number) are those of model_dump(mode="json")"""
    try:
        tok = mc.canon(mc.enc(geff_value))
    except TypeError as e:
        tok = f"not JSON-native: {e}"
    inst = {"geff": geff_value}
    vp = schemas()["v_published"].is_valid(inst)
    f = {"name": name, "valid": vp, "same_as_dump": tok == dump_tok}
    if not vp:
        f["errors"] = [f"{'/'.join(map(str, e.absolute_path))}: {e.message[:120]}"
                       for e in list(schemas()["v_published"].iter_errors(inst))[:3]]
    if not f["same_as_dump"]:
        f["inst"] = inst
        f["tok"] = tok
    forms.append(f)


def _same(a, b):
    return mc.canon(mc.enc(a.model_dump())) == mc.canon(mc.enc(b.model_dump()))


def impl_obs(case):
    import warnings

    warnings.simplefilter("ignore")
    import zarr
    from geff_spec import GeffMetadata
    from zarr.storage import MemoryStore

    if case.get("kind") == "drift":
        vp, ve = verdicts(case["inst"])
        return {"published": vp, "exported": ve}
    doc, foreign = case["doc"], case.get("foreign", {})
    obs: dict = {}
    try:
        via = case.get("via", "validate")
        obj = GeffMetadata(**doc) if via == "kwargs" else (
            GeffMetadata.model_validate_json(json.dumps(doc)) if via == "json" else GeffMetadata.model_validate(doc))
    except Exception as e:  # noqa: BLE001
        return {"parse": type(e).__name__}
    obs["parse"] = "ok"
    d = obj.model_dump(mode="json")
    obs["viol"] = mc.spec_violation(obj.model_dump())
    try:
        obs["dump"] = mc.canon(mc.enc(d))
    except TypeError as e:
        obs["dump"] = f"not JSON-native: {e}"
    # every serialised form is collected here and judged against the published schema
    forms: list = []
    dump_tok = obs["dump"]
    has_nan = _has_nan(dump_tok)
    # JSON text
    probs = []
    try:
        txt = obj.model_dump_json()
        o2 = GeffMetadata.model_validate_json(txt)
        if not _same(o2, obj):
            probs.append({"route": "model_dump_json -> model_validate_json", "text": txt[:400],
                          "back": mc.canon(mc.enc(o2.model_dump()))})
        elif obs["viol"] == "valid" and not has_nan and o2 != obj:
            probs.append({"route": "model_dump_json -> model_validate_json (==)", "text": txt[:400]})
        txt2 = obj.model_dump_json(indent=2)
        o2b = GeffMetadata.model_validate_json(txt2)
        if not _same(o2b, obj):
            probs.append({"route": "model_dump_json(indent=2) -> model_validate_json"})
        # the text as any JSON reader sees it (Python's json reads the Infinity / NaN constants)
        _form(forms, "model_dump_json()", json.loads(txt), dump_tok)
        _form(forms, "model_dump_json(indent=2)", json.loads(txt2), dump_tok)
    except Exception as e:  # noqa: BLE001
        probs.append({"route": "model_dump_json -> model_validate_json", "exc": f"{type(e).__name__}: {str(e)[:200]}"})
    try:
        from geff_spec import GeffSchema

        _form(forms, "GeffSchema(geff=obj).model_dump_json()", json.loads(GeffSchema(geff=obj).model_dump_json()).get("geff"), dump_tok)
    except Exception as e:  # noqa: BLE001
        probs.append({"route": "GeffSchema.model_dump_json", "exc": f"{type(e).__name__}: {str(e)[:200]}"})
    try:
        o3 = GeffMetadata.model_validate(json.loads(json.dumps(d)))
        if not _same(o3, obj):
            probs.append({"route": "json.dumps(model_dump(mode=json)) -> json.loads -> model_validate",
                          "back": mc.canon(mc.enc(o3.model_dump()))})
    except Exception as e:  # noqa: BLE001
        probs.append({"route": "json.dumps -> json.loads", "exc": f"{type(e).__name__}: {str(e)[:200]}"})
    obs["json_text"] = probs
    # zarr attributes, both formats, MemoryStore
    zp = []
    for fmt in (2, 3):
        try:
            store = MemoryStore()
            g = zarr.open_group(store, mode="w", zarr_format=fmt)
            pre = dict(foreign)
            if case.get("stale"):
                pre["geff"] = {"directed": False, "stale": True}
            if pre:
                g.attrs.update(pre)
            obj.write(store)
            back = GeffMetadata.read(store)
            attrs = dict(zarr.open_group(store, mode="r").attrs)
            if not _same(back, obj):
                zp.append({"fmt": fmt, "what": "object differs", "back": mc.canon(mc.enc(back.model_dump()))})
            # the stored attribute, as zarr decodes it and as parsed from the stored bytes
            _form(forms, f"zarr v{fmt} attrs['geff'] (zarr's decoding)", attrs.get("geff"), dump_tok)
            _form(forms, f"zarr v{fmt} stored bytes ({'.zattrs' if fmt == 2 else 'zarr.json'})",
                  _raw_attrs_memory(store, fmt).get("geff"), dump_tok)
            rest = {k: v for k, v in attrs.items() if k != "geff"}
            if mc.canon(mc.enc(rest)) != mc.canon(mc.enc(foreign)):
                zp.append({"fmt": fmt, "what": "foreign attributes changed", "attrs": mc.canon(mc.enc(rest))})
        except Exception as e:  # noqa: BLE001
            zp.append({"fmt": fmt, "exc": f"{type(e).__name__}: {str(e)[:200]}"})
    # multi-step store histories: write m1, then write m2 over it; reading must return exactly m2
    rw = []
    for vi, var in enumerate(case.get("rewrite", [])):
        for fmt in (2, 3):
            try:
                store = MemoryStore()
                g = zarr.open_group(store, mode="w", zarr_format=fmt)
                if foreign:
                    g.attrs.update(foreign)
                obj.write(store)
                if var["how"] == "clear":
                    m2 = GeffMetadata.read(store)          # read -> clear fields by assignment -> write back
                    for fld in var["fields"]:
                        setattr(m2, fld, None)
                else:
                    m2 = GeffMetadata.model_validate(var["doc"])
                m2.write(store)
                back = GeffMetadata.read(store)
                attrs = dict(zarr.open_group(store, mode="r").attrs)
                want = mc.canon(mc.enc(m2.model_dump()))
                got = mc.canon(mc.enc(back.model_dump()))
                if got != want:
                    diff = sorted(k for k in mc.FIELD_NAMES if dict(map(tuple, got["o"])).get(k) != dict(map(tuple, want["o"])).get(k))
                    rw.append({"fmt": fmt, "variant": var, "what": "rewrite: read after the second write is not the second object",
                               "fields_differing": diff, "read_back": got, "written": want})
                rest = {k: v for k, v in attrs.items() if k != "geff"}
                if mc.canon(mc.enc(rest)) != mc.canon(mc.enc(foreign)):
                    rw.append({"fmt": fmt, "variant": var, "what": "rewrite: foreign attributes changed"})
                _form(forms, f"zarr v{fmt} stored bytes after rewrite #{vi} ({var['how']})",
                      _raw_attrs_memory(store, fmt).get("geff"), mc.canon(mc.enc(m2.model_dump(mode="json"))))
            except Exception as e:  # noqa: BLE001
                rw.append({"fmt": fmt, "variant": var, "exc": f"{type(e).__name__}: {str(e)[:200]}"})
    obs["rewrite"] = rw
    if case.get("disk"):
        try:
            from geff._cli import app
            from typer.testing import CliRunner

            with tempfile.TemporaryDirectory() as td:
                for fmt in (2, 3):
                    path = f"{td}/g{fmt}.zarr"
                    g = zarr.open_group(path, mode="w", zarr_format=fmt)
                    if foreign:
                        g.attrs.update(foreign)
                    obj.write(path)
                    back = GeffMetadata.read(path)
                    if not _same(back, obj):
                        zp.append({"fmt": fmt, "what": "directory store: object differs"})
                    rest = {k: v for k, v in dict(zarr.open_group(path, mode="r").attrs).items() if k != "geff"}
                    if mc.canon(mc.enc(rest)) != mc.canon(mc.enc(foreign)):
                        zp.append({"fmt": fmt, "what": "directory store: foreign attributes changed"})
                    _form(forms, f"directory store v{fmt} file on disk", _raw_attrs_disk(path, fmt).get("geff"), dump_tok)
                    res = CliRunner().invoke(app, ["info", path])
                    if res.exit_code != 0:
                        zp.append({"fmt": fmt, "what": f"geff info exit {res.exit_code}: {str(res.exception)[:200]}"})
                    else:
                        _form(forms, f"geff info (v{fmt} directory store)", json.loads(res.stdout), dump_tok)
                        o4 = GeffMetadata.model_validate_json(res.stdout)
                        if not _same(o4, obj):
                            zp.append({"fmt": fmt, "what": "geff info output does not read back to the same object",
                                       "text": res.stdout[:300]})
                    # the real command in a child process, with a terminal-like and a dumb environment
                    for envname in (case.get("cli_sub") or []):
                        out = _geff_info_subprocess(path, envname)
                        if out["rc"] != 0:
                            zp.append({"fmt": fmt, "what": f"geff info ({envname} child process) exit {out['rc']}: {out['err'][-200:]}"})
                            continue
                        try:
                            parsed = json.loads(out["stdout"])
                        except Exception as e:  # noqa: BLE001
                            zp.append({"fmt": fmt, "what": f"geff info ({envname} child process) output is not JSON: {e}",
                                       "text": out["stdout"][:300]})
                            continue
                        _form(forms, f"geff info ({envname} child process, v{fmt} directory store)", parsed, dump_tok)
                        if mc.canon(mc.enc(parsed)) != dump_tok:
                            zp.append({"fmt": fmt, "what": f"geff info ({envname} child process) output does not read back to the "
                                       "stored metadata", "text": out["stdout"][:300]})
        except Exception as e:  # noqa: BLE001
            zp.append({"what": "directory store / geff info", "exc": f"{type(e).__name__}: {str(e)[:200]}"})
    obs["zarr"] = zp
    obs["forms"] = forms
    # schema
    inst = {"geff": d}
    vp, ve = verdicts(inst)
    obs["schema"] = {"published": vp, "exported": ve}
    if not vp:
        s = schemas()
        obs["schema"]["errors"] = [f"{'/'.join(map(str, e.absolute_path))}: {e.message[:120]}"
                                   for e in list(s["v_published"].iter_errors(inst))[:3]]
    # mutations
    muts = mutations(inst)
    sel = case.get("mut_idx")
    if sel is not None:
        muts = [muts[i % len(muts)] for i in sel]
    ml = []
    for desc, mi in muts:
        p, e = verdicts(mi)
        ml.append({"desc": desc, "inst": mi, "published": p, "exported": e})
    obs["mutations"] = ml
    return obs


def malformed_obs(case):
    """`extra` holding values JSON cannot carry (NaN, tuples, numpy scalars): outside the domain of the
    round-trip claim; what is still required is "raises, or the geff-defined fields come back unchanged"."""
    import warnings

    warnings.simplefilter("ignore")
    import numpy as np
    import zarr
    from geff_spec import GeffMetadata
    from zarr.storage import MemoryStore

    bad = {"nan": {"v": mc.NAN, "l": [1.0, mc.NAN]}, "tuple": {"t": (1, 2, ("a", None))}, "numpy": {"n": np.int64(5), "f": np.float32(1.5)},
           "nparray": {"a": np.arange(3)}, "bytes": {"b": b"xy"}, "set": {"s": {1, 2}}}[case["malformed"]]
    try:
        obj = GeffMetadata(**{**case["doc"], "extra": bad})
    except Exception as e:  # noqa: BLE001
        return {"construct": type(e).__name__, "problems": []}

    def defined(o):
        d = o.model_dump()
        d.pop("extra", None)
        return mc.canon(mc.enc(d))

    want = defined(obj)
    probs, outcomes = [], {}
    try:
        back = GeffMetadata.model_validate_json(obj.model_dump_json())
        outcomes["json"] = "ok"
        if defined(back) != want:
            probs.append({"route": "json text", "back": defined(back)})
    except Exception as e:  # noqa: BLE001
        outcomes["json"] = type(e).__name__
    for fmt in (2, 3):
        try:
            store = MemoryStore()
            zarr.open_group(store, mode="w", zarr_format=fmt)
            obj.write(store)
            back = GeffMetadata.read(store)
            outcomes[f"zarr{fmt}"] = "ok"
            if defined(back) != want:
                probs.append({"route": f"zarr v{fmt}", "back": defined(back)})
        except Exception as e:  # noqa: BLE001
            outcomes[f"zarr{fmt}"] = type(e).__name__
    return {"construct": "ok", "outcomes": outcomes, "problems": probs}


# ----------------------------------------------------------------- generators
def exhaustive_presence():
    """all subsets of the 8 optional top-level keys x 3 axis shapes on a small object"""
    ax_shapes = [None, [], [{"name": "x", "type": "space", "unit": "micrometer", "min": 0, "max": 1.5, "scale": 0.5,
                             "scaled_unit": "nanometer", "offset": -1},
                            {"name": "t", "type": "time", "unit": "frame"}]]
    opt = {"geff_version": "1.2.3.dev4+abc", "sphere": "r", "ellipsoid": "cov", "track_node_props": {"lineage": "l"},
           "related_objects": [{"type": "labels", "path": "../s", "label_prop": "seg"}],
           "display_hints": {"display_horizontal": "x", "display_vertical": "t", "display_time": "t"},
           "extra": {"k": [1, {"z": None}]}}
    keys = list(opt)
    out = []
    for ai, axv in enumerate(ax_shapes):
        for mask in range(2 ** len(keys)):
            d = {"directed": bool(mask & 1), "node_props_metadata": {"x": {"identifier": "x", "dtype": "float64"}},
                 "edge_props_metadata": {}}
            if ai != 0 or mask & 2:
                d["axes"] = axv
            for i, k in enumerate(keys):
                if mask >> i & 1:
                    d[k] = opt[k]
            if "display_hints" in d and axv == []:
                d["display_hints"] = None
            out.append(d)
    return out


def units_and_types():
    import geff_spec._valid_values as vv

    out = []
    req = {"directed": True, "node_props_metadata": {}, "edge_props_metadata": {}}
    for u in list(vv.VALID_SPACE_UNITS) + list(vv.VALID_TIME_UNITS) + ["furlong", ""]:
        for t in list(vv.VALID_AXIS_TYPES) + [None]:
            out.append({**req, "axes": [{"name": "a", "type": t, "unit": u, "scale": 2.0, "scaled_unit": u}]})
    # every float field x every non-finite value the domain allows (NaN only where no invariant speaks)
    inf, nan = mc.INF, mc.NAN
    for fld, vals in (("scale", (inf, -inf, nan)), ("offset", (inf, -inf, nan))):
        for v in vals:
            out.append({**req, "axes": [{"name": "a", fld: v}, {"name": "b", "type": "time", fld: v, "unit": "second"}]})
    for lo, hi in ((-inf, inf), (-inf, 0), (0, inf), (-inf, -inf), (inf, inf), (-inf, 1.5)):
        out.append({**req, "axes": [{"name": "a", "min": lo, "max": hi}]})
        out.append({**req, "axes": [{"name": "a", "min": lo, "max": hi, "scale": inf, "offset": nan, "scaled_unit": "meter"},
                                    {"name": "b"}],
                    "display_hints": {"display_horizontal": "a", "display_vertical": "b"}})
    for dt in vv.VALID_DTYPES:
        for vl in (False, True):
            out.append({**req, "node_props_metadata": {"p": {"identifier": "p", "dtype": dt, "varlength": vl}},
                        "edge_props_metadata": {"q": {"identifier": "q", "dtype": dt, "unit": "u", "name": "n", "description": "d"}}})
    return out


def _nonfinite(d):
    for a in (d.get("axes") or []):
        for k in ("min", "max", "scale", "offset"):
            v = a.get(k)
            if isinstance(v, float) and (v != v or v in (mc.INF, -mc.INF)):
                return True
    return False


def corpus():
    d = common.VERIF / "harness" / "corpus" / PROP
    for f in sorted(d.glob("*.json")):
        c = json.loads(f.read_text())
        c["corpus"] = f.name
        yield c


# ----------------------------------------------------------------- the check
def judge(ck, case, im):
    """model-independent verdicts"""
    if case.get("kind") == "drift":
        if im["published"] != im["exported"]:
            ck.fail("C08:schema-drift", f"published schema says {im['published']}, exported schema says {im['exported']}",
                    case, im, "same verdict")
        return
    if im.get("parse") != "ok" or im.get("viol") != "valid":
        return  # not a valid metadata object: outside the claim (generator problem, counted in the histogram)
    for p in im["json_text"]:
        ck.fail("C08:json-text-roundtrip", f"JSON text does not read back to an equal object ({p['route']})", case, p, "equal object")
        break
    for p in im["zarr"]:
        what = p.get("what", "")
        key = ("C08:foreign-attrs-changed" if "foreign" in what else "C08:geff-info-output-differs-from-stored-metadata"
               if "geff info" in what else "C08:zarr-attrs-roundtrip")
        ck.fail(key, f"zarr attributes (format {p.get('fmt')}): {p.get('what') or p.get('exc')}", case, p, "equal object, foreign attributes preserved")
        break
    for p in im.get("rewrite", []):
        what = p.get("what", "")
        key = "C08:foreign-attrs-changed" if "foreign" in what else "C08:rewrite-keeps-stale-fields" if "rewrite" in what \
            else "C08:zarr-attrs-roundtrip"
        ck.fail(key, f"zarr attributes (format {p.get('fmt')}), write m1 then {p['variant']['how']} and write again: "
                     f"{what or p.get('exc')}" + (f" (fields {p['fields_differing']})" if p.get("fields_differing") else ""),
                case, p, "read returns exactly the object written last; foreign attributes preserved")
        break
    for f in im.get("forms", []):
        if not f["valid"]:
            ck.fail("C08:serialised-form-fails-published-schema",
                    f"the serialised form {f['name']} of a valid metadata object does not validate against geff-schema.json: "
                    + "; ".join(f.get("errors", [])), case, {k: v for k, v in f.items() if k != "tok"}, "valid")
            break
    if not im["schema"]["published"]:
        ck.fail("C08:dump-invalid-against-published-schema", "model_dump(mode='json') of a valid object does not validate against geff-schema.json",
                case, im["schema"], "valid")
    for m in im["mutations"]:
        if m["published"] != m["exported"]:
            ck.fail("C08:schema-drift", f"'{m['desc']}': published schema says {m['published']}, exported schema says {m['exported']}",
                    {"kind": "drift", "inst": m["inst"], "desc": m["desc"]}, {"published": m["published"], "exported": m["exported"]},
                    "same verdict")
            break


def run(ck: common.Check):
    _t = [time.time()]
    ck.prove(["GeffProps.C08"])
    _ph = {"prove": round(time.time() - _t[0], 1)}
    _t[0] = time.time()
    mc.init_env()
    lim = mc.CorrLimiter(ck)
    ck.rule = ("cases = corpus + all presence subsets of the optional top-level keys x 3 axis shapes + every unit x axis type "
               "and every dtype + seeded random valid documents (nested unicode `extra`, infinite bounds, aliases of dtype "
               "names), each through JSON text, zarr v2/v3 attributes with foreign attributes, jsonschema, and a sample of "
               "single structural mutations; non-trivial = every case; distinct = distinct canonical JSON of the document")
    s = schemas()
    ck.extra["schemas_identical_as_documents"] = s["published"] == s["exported"]
    cases = list(corpus())
    nmut = 10 if ck.quick else 20
    docs = exhaustive_presence() + units_and_types()
    nrand = 500 if ck.quick else 9000
    docs += [mc.gen_doc(ck.rng) for _ in range(nrand)]
    # free text that output layers interpret (console markup, emoji codes, ANSI, format directives, long lines):
    # every such string in every free-text field at once, plus random mixtures; all of them go through `geff info`
    tricky = [mc.gen_doc_tricky(ck.rng, everywhere=t) for t in mc.TRICKY]
    tricky += [mc.gen_doc_tricky(ck.rng) for _ in range(60 if ck.quick else 800)]
    n_plain = len(docs)
    docs += tricky
    sub_every = max(1, len(tricky) // (2 if ck.quick else 10))
    sub_envs = ["tty-like", "dumb"] if ck.quick else ["tty-like", "dumb", "narrow"]
    clearable = ["axes", "sphere", "ellipsoid", "track_node_props", "related_objects", "display_hints"]

    def rewrites(d):
        some = [f for f in clearable if ck.rng.random() < 0.5] or [ck.rng.choice(clearable)]
        if "axes" not in some and d.get("display_hints") is not None and "display_hints" not in some:
            pass  # hints stay valid when the axes stay
        return [{"how": "clear", "fields": clearable},
                {"how": "clear", "fields": sorted(some, key=clearable.index)},
                {"how": "overwrite", "doc": {"directed": not d["directed"], "node_props_metadata": {}, "edge_props_metadata": {}}},
                {"how": "overwrite", "doc": {**{k: v for k, v in d.items() if k != "geff_version"}, "extra": mc.gen_extra(ck.rng)}},
                {"how": "overwrite", "doc": {**d, "extra": {}}}]

    for i, d in enumerate(docs):
        foreign = mc.gen_extra(ck.rng) if ck.rng.random() < 0.7 else {}
        foreign.pop("geff", None)
        cases.append({"doc": d, "foreign": foreign, "via": ("validate", "kwargs", "json")[i % 3], "stale": i % 5 == 0,
                      "disk": i % (60 if ck.quick else 120) == 7 or (_nonfinite(d) and i % 4 == 0) or i >= n_plain,
                      "cli_sub": (sub_envs if (i >= n_plain and (i - n_plain) % sub_every == 3)
                                  or (i == 0 and not ck.quick) else []),
                      "rewrite": rewrites(d) if i % (4 if ck.quick else 3) == 0 else [],
                      "mut_idx": [ck.rng.randrange(10 ** 6) for _ in range(nmut)]})
    # the first documents get *all* their mutations
    for c in cases[: (5 if ck.quick else 40)]:
        if "doc" in c:
            c["mut_idx"] = None
    impl = common.pmap(impl_obs, cases, chunksize=16)
    _ph["implementation+jsonschema"] = round(time.time() - _t[0], 1)
    _t[0] = time.time()
    drv = ck.driver()
    reqs, owners = [], []
    for idx, (c, im) in enumerate(zip(cases, impl)):
        if c.get("kind") == "drift":
            continue
        reqs.append({"op": "roundtrip", "env": mc.make_env(c["doc"]), "doc": mc.enc(c["doc"]), "foreign": mc.enc(c.get("foreign", {}))})
        owners.append((idx, "rt", None))
        for fi, f in enumerate(im.get("forms", [])):
            if f["same_as_dump"] or "inst" not in f:
                continue  # equal to the dump: the roundtrip request already evaluates the Lean evaluator on it
            try:
                e = mc.enc(f["inst"])
            except TypeError:
                continue
            reqs.append({"op": "validate", "env": mc.make_env_light(f["inst"]), "which": "published", "inst": e})
            owners.append((idx, "form", fi))
        for mi, m in enumerate(im.get("mutations", [])):
            try:
                e = mc.enc(m["inst"])
            except TypeError:
                continue
            reqs.append({"op": "validate", "env": mc.make_env_light(m["inst"]), "which": "published", "inst": e})
            owners.append((idx, "mut", mi))
    _ph["requests"] = round(time.time() - _t[0], 1)
    _t[0] = time.time()
    model = drv.ask(reqs)
    _ph["lean_driver"] = round(time.time() - _t[0], 1)
    ck.extra["phase_seconds"] = _ph
    if model is None:
        ck.broken.append({"what": "driver Drivers/C08.lean", "detail": drv.broken})
    nm = nmut_dis = 0
    for idx, (c, im) in enumerate(zip(cases, impl)):
        tag = "drift-replay" if c.get("kind") == "drift" else (
            f"parse:{im.get('parse')}" if im.get("parse") != "ok" else
            ("valid" if im["viol"] == "valid" else f"outside-domain:{im['viol']}") + (":disk+cli" if c.get("disk") else ""))
        ck.case(c.get("doc", c.get("inst")), tag, nontrivial=True)
        judge(ck, c, im)
        nm += len(im.get("mutations", []))
    ck.extra["mutations_judged"] = nm
    ck.extra["serialised_forms_judged"] = sum(len(im.get("forms", [])) for im in impl)
    ck.extra["documents_with_nonfinite_axis_values"] = sum(1 for c in cases if "doc" in c and _nonfinite(c["doc"]))
    ck.extra["store_rewrite_histories"] = 2 * sum(len(c.get("rewrite", [])) for c in cases)
    ck.extra["documents_with_markup_like_free_text"] = len(tricky)
    ck.extra["geff_info_child_processes"] = 2 * sum(len(c.get("cli_sub") or []) for c in cases)
    ck.extra["documents_through_disk_and_cli"] = sum(1 for c in cases if c.get("disk"))
    if model is not None:
        for (idx, kind, mi), mo in zip(owners, model):
            c, im = cases[idx], impl[idx]
            if "err" in mo:
                lim.corr_broken("C08:driver", c.get("doc"), None, mo)
                continue
            if kind == "rt":
                if mo["parse"] != im["parse"]:
                    lim.corr_broken("C08:parse-outcome", c["doc"], im["parse"], mo["parse"])
                    continue
                if im["parse"] != "ok":
                    continue
                if mc.canon(mo["dump"]) != im["dump"]:
                    lim.corr_broken("C08:dump", c["doc"], im["dump"], mc.canon(mo["dump"]))
                for f in [f for f in im.get("forms", []) if not f["same_as_dump"]][:1]:
                    # the model says: every serialised form denotes the dump, leaf for leaf and JSON type for JSON type
                    lim.corr_broken("C08:serialised-form-is-dump(values-and-types)", c["doc"],
                                    {"form": f["name"], "serialised": f.get("tok")}, "equal to model_dump(mode='json')")
                if mo["valid"] != (im["viol"] == "valid"):
                    lim.corr_broken("C08:lean-spec-vs-python-oracle", c["doc"], im["viol"], mo["valid"])
                if im["viol"] == "valid":
                    if not (mo["reparse_same"] and mo["attrs_same"] and mo["foreign_kept"]):
                        lim.corr_broken("C08:model-roundtrip", c["doc"], "round trips", mo)
                    if mo["schema_ok"] != im["schema"]["published"] or mo["schema_ok_published"] != im["schema"]["published"]:
                        lim.corr_broken("C08:evaluator-vs-jsonschema(dump)", c["doc"], im["schema"],
                                       {"spec": mo["schema_ok"], "published": mo["schema_ok_published"]})
            elif kind == "form":
                f = im["forms"][mi]
                if mo["verdict"] != f["valid"]:
                    lim.corr_broken("C08:evaluator-vs-jsonschema(serialised form)", {"form": f["name"], "inst": f["inst"]},
                                    f["valid"], mo["verdict"])
            else:
                m = im["mutations"][mi]
                if mo["verdict"] != m["published"]:
                    nmut_dis += 1
                    lim.corr_broken("C08:evaluator-vs-jsonschema(mutation)", {"desc": m["desc"], "inst": m["inst"]},
                                   m["published"], mo["verdict"])
    # malformed stream: `extra` with values JSON cannot carry
    mal = [{"doc": mc.gen_doc(ck.rng), "malformed": k} for k in ("nan", "tuple", "numpy", "nparray", "bytes", "set")
           for _ in range(6 if ck.quick else 40)]
    mhist: dict = {}
    for mcase, mo_ in zip(mal, [malformed_obs(m) for m in mal]):
        t = f"malformed-extra:{mcase['malformed']}:" + (mo_["construct"] if mo_["construct"] != "ok" else
                                                         ",".join(f"{k}={v}" for k, v in sorted(mo_["outcomes"].items())))
        mhist[t] = mhist.get(t, 0) + 1
        ck.case(mcase, "malformed-extra", nontrivial=True)
        for pr in mo_["problems"][:1]:
            ck.fail("C08:malformed-extra-corrupts-defined-fields",
                    f"extra holding {mcase['malformed']}: the geff-defined fields silently differ after {pr['route']}", mcase, pr,
                    "an exception, or unchanged geff-defined fields")
    ck.extra["malformed_extra_outcomes"] = mhist
    hist = {}
    for im in impl:
        for m in im.get("mutations", []):
            k = ("accepted" if m["published"] else "rejected") + ":" + m["desc"].split(" ")[0]
            hist[k] = hist.get(k, 0) + 1
    ck.extra["mutation_histogram"] = hist
    # the schema documents differ: search the *whole* mutation space of many dumps for an instance
    # with different verdicts (the concrete form of "the published schema has drifted")
    if s["published"] != s["exported"] and not any(f["key"] == "C08:schema-drift" for f in ck.failures):
        dumps = [mc.dec_plain(im["dump"]) for im in impl if im.get("parse") == "ok" and isinstance(im.get("dump"), (dict, list))]
        dumps = dumps[: (400 if ck.quick else 4000)]
        hits = [h for h in common.pmap(drift_search, dumps, chunksize=4) if h]
        ck.extra["drift_search"] = {"dumps_searched": len(dumps), "hits": len(hits)}
        if hits:
            h = hits[0]
            ck.fail("C08:schema-drift", f"'{h['desc']}': published schema says {h['published']}, exported schema says {h['exported']}",
                    {"kind": "drift", "inst": h["inst"], "desc": h["desc"]}, {"published": h["published"], "exported": h["exported"]},
                    "same verdict")
    bad_np = [d for d in mc.DTYPES_OK if mc.np_name(d) != d]
    if bad_np:
        ck.corr_broken("C08:npName-identity-on-valid-dtypes", bad_np, [mc.np_name(d) for d in bad_np], bad_np)
    ck.assumptions += [
        "pydantic's serializer, zarr's attribute encoding and jsonschema (Draft 2020-12) are exercised, not verified",
        "`pattern` is an uninterpreted predicate in the Lean evaluator; its values are supplied by Python's re.search",
        "domain: `extra` holds JSON-native values (dict/list/str/int/finite float/bool/None); NaN axis bounds are outside "
        "(they already violate C07's min <= max); infinite bounds/scale/offset are inside",
        "valid names of VALID_DTYPES are fixed points of numpy's dtype-name normalisation (checked on every run)",
    ]


def replay(rp):
    mc.init_env()
    c = rp["case"]
    if "malformed" in c:
        mo_ = malformed_obs(c)
        print(json.dumps({"case": c, "impl": mo_}, default=str)[:6000])
        print("REPLAY: property FAILS on this input" if mo_["problems"] else "REPLAY: property holds on this input")
        return 1 if mo_["problems"] else 0
    im = impl_obs(c)
    print(json.dumps({"case": c, "impl": {k: v for k, v in im.items() if k != "mutations"}}, default=str)[:6000])

    class _Ck:
        def __init__(self):
            self.failures = []

        def fail(self, key, what, case, observed=None, expected=None):
            self.failures.append((key, what))

    ck = _Ck()
    judge(ck, c, im)
    for key, what in ck.failures:
        print(f"  [{key}] {what}")
    print("REPLAY: property FAILS on this input" if ck.failures else "REPLAY: property holds on this input")
    return 1 if ck.failures else 0
