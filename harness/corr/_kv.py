"""Shared machinery of the C05 / C06 checks (key view of a zarr store).

* recording / fault-injecting stores: a `MemoryStore` subclass and class-level patches of
  `LocalStore` (used by zarr for str/Path stores too) that log every store *mutation*
  (`set`, `set_if_not_exists`, `delete`, and `delete_dir` / `shutil.rmtree` as one atomic
  operation on directory stores) in program order and can raise at the k-th one;
* byte snapshots (key -> bytes) of a store of any kind;
* deterministic small graphs from a JSON spec and the write entry points under test;
* the translation of a real store / a graph into the abstract state the Lean key-view model
  (lean/GeffModel/KV.lean) works on: every stored document is represented by a hash of its
  bytes, the root attribute document by (hash of its `geff` entry, canonical JSON of the rest).
"""
from __future__ import annotations

import contextlib
import hashlib
import json
import os
import shutil
import tempfile
from pathlib import Path

import numpy as np
import zarr
from zarr.storage import LocalStore, MemoryStore


class Injected(OSError):
    """the storage failure injected by the harness"""


# --------------------------------------------------------------------------- recorder
class Recorder:
    def __init__(self):
        self.log: list[tuple[str, str]] = []   # (kind, key)
        self.n = 0                             # number of mutations seen so far
        self.fail_at: int | None = None        # absolute index of the mutation that raises
        self.root: str | None = None           # directory store being observed
        self.active = True                     # False: set-up / inspection, nothing recorded or failed

    def tick(self, kind: str, key: str):
        if not self.active:
            return
        i = self.n
        self.n += 1
        self.log.append((kind, key))
        if self.fail_at is not None and i == self.fail_at:
            raise Injected(f"injected storage failure at mutation {i} ({kind} {key})")


class RecMemoryStore(MemoryStore):
    """MemoryStore that reports its mutations to a Recorder.  `delete_dir` is the base-class
    loop over `delete`, so a directory deletion shows up as one `del` per key, in dict order."""

    def __init__(self, rec: Recorder | None = None):
        super().__init__()
        self.rec = rec or Recorder()

    async def set(self, key, value, byte_range=None):
        self.rec.tick("set", key)
        return await super().set(key, value)

    async def set_if_not_exists(self, key, value):
        self.rec.tick("setnx", key)
        return await super().set_if_not_exists(key, value)

    async def delete(self, key):
        self.rec.tick("del", key)
        return await super().delete(key)

    def with_read_only(self, read_only=False):
        return self


REC: Recorder | None = None     # recorder for directory stores (LocalStore patches consult it)
_PATCHED = False


def _rel(store: LocalStore, key: str) -> str | None:
    if REC is None or REC.root is None:
        return None
    root = os.path.realpath(str(store.root))
    if root == REC.root:
        return key
    return None


def patch_local():
    """Class-level patches: every LocalStore under REC.root reports to REC."""
    global _PATCHED
    if _PATCHED:
        return
    _PATCHED = True
    o_set, o_setnx, o_del, o_deldir = LocalStore.set, LocalStore.set_if_not_exists, LocalStore.delete, LocalStore.delete_dir

    async def p_set(self, key, value):
        if _rel(self, key) is not None:
            REC.tick("set", key)
        return await o_set(self, key, value)

    async def p_setnx(self, key, value):
        if _rel(self, key) is not None:
            REC.tick("setnx", key)
        return await o_setnx(self, key, value)

    async def p_del(self, key):
        if _rel(self, key) is not None:
            REC.tick("del", key)
        return await o_del(self, key)

    async def p_deldir(self, prefix):
        if _rel(self, prefix) is not None:
            # only an existing directory is a mutation; it is removed by shutil.rmtree (atomic here)
            if (self.root / prefix).is_dir():
                REC.tick("delprefix", prefix.rstrip("/"))
        return await o_deldir(self, prefix)

    LocalStore.set, LocalStore.set_if_not_exists = p_set, p_setnx
    LocalStore.delete, LocalStore.delete_dir = p_del, p_deldir

    # delete_geff removes a str/Path root with shutil.rmtree: one atomic `clear`
    import geff.core_io._utils as U

    class _Shutil:
        def __getattr__(self, name):
            return getattr(shutil, name)

        @staticmethod
        def rmtree(path, *a, **k):
            if REC is not None and REC.root is not None and os.path.realpath(str(path)) == REC.root:
                REC.tick("clear", "")
            return shutil.rmtree(path, *a, **k)

    U.shutil = _Shutil()


def drain():
    """wait until zarr's background event loop has finished every task that is still in flight (after a
    failure the siblings of the failing write in the same asyncio.gather keep running)"""
    import asyncio

    from zarr.core.sync import sync

    async def _drain():
        cur = asyncio.current_task()
        for _ in range(5):
            pend = [t for t in asyncio.all_tasks() if t is not cur and not t.done()]
            if not pend:
                return
            await asyncio.gather(*pend, return_exceptions=True)

    try:
        sync(_drain())
    except Exception:  # noqa: BLE001
        pass


def foreign_same(pre: dict, post: dict) -> bool:
    """foreign content (members and root attributes) unchanged"""
    return pre == post


# --------------------------------------------------------------------------- stores under test
KINDS = ("mem", "local", "path", "str")
# home-relative locations ("~/sub/x.geff" as str / Path): the caller points $HOME at a temporary
# directory (see `home_env`); the snapshot is taken of the expanded directory
TILDE_KINDS = ("tilde-str", "tilde-path")
# the target is a symbolic link to the geff directory (latest.geff -> real.geff; dangling before the first
# write); the snapshot is taken of the real directory, the store is additionally read through the link
SYMLINK_KINDS = ("symlink-str", "symlink-path")


@contextlib.contextmanager
def home_env(tmp: str):
    """$HOME -> tmp/home and cwd -> tmp for the duration (os.path.expanduser honours $HOME; a "~" that
    is not expanded would create a literal ./~ directory, which then lands in tmp and is detectable)"""
    home = os.path.join(os.path.realpath(tmp), "home")
    os.makedirs(home, exist_ok=True)
    old_home, old_cwd = os.environ.get("HOME"), os.getcwd()
    os.environ["HOME"] = home
    os.chdir(os.path.realpath(tmp))
    try:
        yield home
    finally:
        os.chdir(old_cwd)
        if old_home is None:
            os.environ.pop("HOME", None)
        else:
            os.environ["HOME"] = old_home


class Target:
    """One store location of a given kind; `handle()` is what is passed to geff."""

    def __init__(self, kind: str, tmp: str | None = None, name: str = "g.geff"):
        global REC
        self.kind = kind
        if kind == "mem":
            self.rec = Recorder()
            self.mem = RecMemoryStore(self.rec)
            self.dir = None
        else:
            patch_local()
            assert tmp is not None
            if kind in TILDE_KINDS:
                self.tilde = "~/sub/" + name
                self.dir = os.path.join(os.path.realpath(tmp), "home", "sub", name)
            elif kind in SYMLINK_KINDS:
                self.dir = os.path.join(os.path.realpath(tmp), "real-" + name)
                self.link = os.path.join(os.path.realpath(tmp), "latest-" + name)
                self.ensure_link()
            else:
                self.dir = os.path.join(os.path.realpath(tmp), name)
            self.rec = Recorder()
            self.rec.root = self.dir
            REC = self.rec
            self.mem = None

    def ensure_link(self):
        if self.kind in SYMLINK_KINDS and not os.path.lexists(self.link):
            os.symlink(self.dir, self.link)

    def setup_handle(self):
        """where the harness itself prepares content (never through a link / unexpanded name)"""
        if self.kind == "mem":
            return self.mem
        if self.kind == "local":
            return LocalStore(self.dir)
        return self.dir

    def handle(self):
        if self.kind == "mem":
            return self.mem
        if self.kind == "local":
            return LocalStore(self.dir)
        if self.kind == "path":
            return Path(self.dir)
        if self.kind == "tilde-str":
            return self.tilde
        if self.kind == "tilde-path":
            return Path(self.tilde)
        if self.kind == "symlink-str":
            return self.link
        if self.kind == "symlink-path":
            return Path(self.link)
        return self.dir

    def snapshot(self) -> dict[str, bytes] | None:
        """key -> bytes; None when a directory store does not exist at all"""
        if self.kind == "mem":
            return {k: bytes(v.to_bytes()) for k, v in self.mem._store_dict.items()}
        if not os.path.exists(self.dir):
            return None
        out = {}
        for dp, _dn, fn in os.walk(self.dir):
            for f in fn:
                q = os.path.join(dp, f)
                with open(q, "rb") as fh:
                    out[os.path.relpath(q, self.dir).replace(os.sep, "/")] = fh.read()
        return out

    def keys_in_order(self) -> list[str]:
        if self.kind == "mem":
            return list(self.mem._store_dict)
        s = self.snapshot()
        return sorted(s) if s else []

    def reader(self):
        """a store-like for reading that never reports to the recorder / never fails"""
        if self.kind == "mem":
            return self.mem
        return self.dir


@contextlib.contextmanager
def quiet(target: Target):
    """switch recording/fault injection off (set-up and inspection are not part of the write)"""
    saved = target.rec.active
    target.rec.active = False
    try:
        yield
    finally:
        target.rec.active = saved


SIB_VARIANTS = ("array+group", "array", "group", "nested", "attrs", "lookalike-prefix", "lookalike-mixed")
# foreign members / root attributes whose names share a prefix, suffix or substring with geff's own
# members (`nodes`, `edges`, `props`, `ids`) and metadata key (`geff`): (name, "array" | "group")
LOOKALIKE = {
    "lookalike-prefix": ([("nodes_raw", "array"), ("nodesets", "group"), ("nodes.bak", "array"), ("edges_v1", "array"),
                          ("edges.old", "group")], {"geff_old": {"v": 1}, "geffs": [1, 2]}),
    "lookalike-mixed": ([("Nodes", "group"), ("xnodes", "array"), ("node", "array"), ("edge", "group"), ("props", "array"),
                         ("ids", "array"), ("geff", "group"), ("geff_backup", "array"), (".nodes", "array"),
                         ("nodes ", "array")], {"Geff": "x", "geff_old": 3}),
}


def add_siblings(target: Target, fmt: int, variant=True):
    """foreign content in the same zarr container.  Variants: root-level array and a group (default),
    array only, (empty) group only, a nested group with arrays inside (image pyramid / labels), root
    attributes only"""
    if variant is True:
        variant = "array+group"
    with quiet(target):
        r = zarr.open_group(target.mem if target.kind == "mem" else target.dir, mode="a", zarr_format=fmt)
        if variant in ("array+group", "array"):
            r["raw"] = np.arange(4, dtype="int32")
        if variant == "array+group":
            g = r.require_group("other/sub")
            g.attrs["note"] = "keep"
        if variant == "group":
            g = r.require_group("labels")
            g.attrs["note"] = "keep"
        if variant == "nested":
            g = r.require_group("pyramid/s0")
            g["img"] = np.arange(6, dtype="uint8").reshape(2, 3)
            r["pyramid"]["s1"] = np.arange(2, dtype="uint8")
        if variant in LOOKALIKE:
            members, attrs = LOOKALIKE[variant]
            for i, (name, what) in enumerate(members):
                try:
                    if what == "array":
                        r[name] = np.arange(3 + i % 2, dtype="int16") + i
                    else:
                        g = r.require_group(name)
                        g.attrs["note"] = name
                        if i % 2 == 0:
                            g["inner"] = np.arange(2, dtype="uint8")
                except Exception:  # noqa: BLE001  (a name zarr does not allow is simply not used)
                    pass
            for k, v in attrs.items():
                r.attrs[k] = v
        elif variant != "group":
            r.attrs["foreign"] = {"a": 1}


def foreign_preserved(pre: dict, post: dict, kind: str) -> bool:
    """unrelated members byte-identical; foreign root attributes unchanged too, except that a str/Path
    root holding nothing but the geff is removed as a whole (delete_geff's documented behaviour)"""
    if foreign_members(pre) != foreign_members(post):
        return False
    return pre == post or (not foreign_members(pre) and kind not in ("mem", "local"))


def foreign_members(fp: dict) -> dict:
    """the member part of `foreign_part` (without the root attributes)"""
    return {k: v for k, v in fp.items() if k != "#rootattrs"}


# --------------------------------------------------------------------------- graphs
ID_DTYPES = ["uint8", "uint16", "uint32", "uint64", "int8", "int16", "int32", "int64"]
PROP_KINDS = ["f8", "f4", "i4", "u2", "bool", "str", "2d", "vlen", "zeros"]


def _prop_arrays(kind: str, n: int, missing: bool, salt: int):
    base = np.arange(n, dtype="int64") + salt
    if kind == "f8":
        v = (base * 1.5 + 0.25).astype("float64")
    elif kind == "f4":
        v = (base * 0.5 + 1).astype("float32")
    elif kind == "i4":
        v = (base * 3 - 2).astype("int32")
    elif kind == "u2":
        v = (base % 600 + 1).astype("uint16")
    elif kind == "i1":              # (not in PROP_KINDS: used by the C05 corpus only)
        v = (base % 100 + 7).astype("int8")
    elif kind == "bool":
        v = (base % 2 == 0)
    elif kind == "str":
        v = np.asarray([f"s{int(x)}" for x in base], dtype=str) if n else np.asarray([], dtype="<U2")
    elif kind == "2d":
        v = np.stack([base * 1.0, base * 2.0 + 1], axis=1).astype("float64") if n else np.zeros((0, 2))
    elif kind == "zeros":           # equals the fill value everywhere: zarr writes no chunk
        v = np.zeros(n, dtype="int64")
    elif kind == "vlen":
        v = np.empty(n, dtype=object)
        for i in range(n):
            v[i] = np.arange((i + salt) % 3 + 1, dtype="int64") + i
    else:
        raise ValueError(kind)
    m = None
    if missing and n > 0:
        m = np.zeros(n, dtype=bool)
        m[0] = True
    return v, m


def build_graph(spec: dict):
    """spec -> (node_ids, node_props, edge_ids, edge_props, metadata kwargs) — fresh arrays each call"""
    dt = np.dtype(spec["id_dtype"])
    node_ids = np.asarray(spec["ids"], dtype=dt).reshape(-1)
    edge_ids = np.asarray(spec["edges"], dtype=dt).reshape(-1, 2)
    salt = spec.get("salt", 0)
    n, e = len(node_ids), len(edge_ids)
    node_props, edge_props = {}, {}
    for p in spec.get("nprops", []):
        v, m = _prop_arrays(p["kind"], n, p.get("missing", False), salt)
        node_props[p["name"]] = {"values": v, "missing": m}
    for p in spec.get("eprops", []):
        v, m = _prop_arrays(p["kind"], e, p.get("missing", False), salt + 7)
        edge_props[p["name"]] = {"values": v, "missing": m}
    return node_ids, node_props, edge_ids, edge_props


def metadata_for(spec: dict):
    import geff_spec

    kw = dict(geff_version="1.0.0", directed=spec.get("directed", True),
              node_props_metadata={}, edge_props_metadata={})
    if spec.get("axes"):
        kw["axes"] = [geff_spec.Axis(name=a, type="space") for a in spec["axes"]]
    if spec.get("extra"):
        kw["extra"] = spec["extra"]
    bad = spec.get("invalid")
    if bad == "axis-absent":   # an axis that has no node property: found out after every array is written
        kw["axes"] = list(kw.get("axes", [])) + [geff_spec.Axis(name="zz", type="space")]
    if bad == "meta-absent-node":
        kw["node_props_metadata"] = {"ghost": geff_spec.PropMetadata(identifier="ghost", dtype="int8")}
    if bad == "meta-absent-edge":
        kw["edge_props_metadata"] = {"ghost": geff_spec.PropMetadata(identifier="ghost", dtype="int8")}
    return geff_spec.GeffMetadata(**kw)


def corrupt(spec: dict, node_ids, node_props, edge_ids, edge_props):
    """apply the structural defect named in spec['invalid'] to freshly built arrays"""
    bad = spec.get("invalid")
    if bad == "len-node":
        node_props["badlen"] = {"values": np.arange(len(node_ids) + 2, dtype="int64") + 1, "missing": None}
    elif bad == "len-edge":
        edge_props["badlen"] = {"values": np.arange(len(edge_ids) + 1, dtype="float64") + 1, "missing": None}
    elif bad and bad.startswith(("vlen-", "evlen-")):
        side, ids = (node_props, node_ids) if bad.startswith("vlen-") else (edge_props, edge_ids)
        what = bad.split("-", 1)[1]
        n = len(ids)
        cnt = {"len+1": n + 1, "len-1": max(n - 1, 0), "len0": 0, "lenN": 3}.get(what, n)
        if what == "len-1" and n == 0:
            cnt = 1
        v = np.empty(cnt, dtype=object)
        for i in range(cnt):
            v[i] = np.arange(i % 3 + 1, dtype="int64") + i
        m = None
        if what == "missing-len":
            m = np.zeros(n + 1, dtype=bool)
        elif what == "mixed-rank" and cnt:
            v[0] = np.zeros((2, 2), dtype="int64")
        elif what == "mixed-dtype" and cnt:
            v[0] = np.asarray(["a", "b"])
        side["vl"] = {"values": v, "missing": m}
    elif bad == "len-edge3":
        edge_props["badlen3"] = {"values": np.arange(3, dtype="float64") + 1 + len(edge_ids), "missing": None}
    elif bad == "len-emissing":
        edge_props["badmiss"] = {"values": np.arange(len(edge_ids), dtype="int64") + 1,
                                 "missing": np.zeros(len(edge_ids) + 2, dtype=bool)}
    elif bad == "complex-eprop":
        edge_props["cplx"] = {"values": (np.arange(len(edge_ids)) + 1j).astype("complex128"), "missing": None}
    elif bad == "len-missing":
        node_props["badmiss"] = {"values": np.arange(len(node_ids), dtype="int64") + 1,
                                 "missing": np.zeros(len(node_ids) + 1, dtype=bool)}
    elif bad == "id-dtype-mismatch":
        edge_ids = edge_ids.astype("int64" if edge_ids.dtype != np.dtype("int64") else "int32")
    elif bad == "float-ids":
        node_ids, edge_ids = node_ids.astype("float64"), edge_ids.astype("float64")
    elif bad == "complex-prop":
        node_props["cplx"] = {"values": (np.arange(len(node_ids)) + 1j).astype("complex128"), "missing": None}
    elif bad == "edge-2d-ids":
        edge_ids = edge_ids.reshape(-1)          # edges/ids of the wrong rank
    return node_ids, node_props, edge_ids, edge_props


def random_spec(rng, small=False, backend_ok=False, salt=0):
    n = rng.choice([0, 1, 2, 3]) if small else rng.choice([0, 1, 2, 3, 4, 6])
    idt = rng.choice(ID_DTYPES)
    lo = 0 if idt.startswith("u") else -3
    ids = rng.sample(range(max(lo, 0) if backend_ok else lo, 60), n)
    if backend_ok:
        ids = sorted(ids)
    m = 0 if n < 2 else rng.randint(0, min(4, n * (n - 1)))
    pairs = [(a, b) for a in ids for b in ids if a != b]
    edges = [list(p) for p in rng.sample(pairs, m)] if pairs else []
    names = ["a", "b", "c", "w", "score", "t"]
    kinds = ["f8", "i4", "bool", "str", "u2"] if backend_ok else PROP_KINDS
    nprops = [{"name": nm, "kind": rng.choice(kinds), "missing": rng.random() < 0.3}
              for nm in rng.sample(names, rng.randint(0, 2 if small else 3))]
    eprops = [{"name": nm, "kind": rng.choice(["f8", "i4", "bool", "zeros"] if not backend_ok else ["f8", "i4"]),
               "missing": rng.random() < 0.3}
              for nm in rng.sample(names, rng.randint(0, 1 if small else 2))]
    if n == 0:
        nprops = [p for p in nprops if p["kind"] != "vlen"]      # D15 (C01) is not ours
    return {"id_dtype": idt, "ids": ids, "edges": edges, "nprops": nprops, "eprops": eprops,
            "directed": rng.random() < 0.8, "salt": salt}


def spatial_spec(rng, salt=0):
    """graph with float x/y axes on every node: acceptable to all three backends"""
    n = rng.choice([1, 2, 3, 4])
    ids = sorted(rng.sample(range(0, 50), n))
    pairs = [(a, b) for a in ids for b in ids if a < b]
    edges = [list(p) for p in rng.sample(pairs, min(len(pairs), rng.randint(0, 3)))]
    nprops = [{"name": "x", "kind": "f8"}, {"name": "y", "kind": "f8"}]
    if rng.random() < 0.5:
        nprops.append({"name": rng.choice(["score", "lab"]), "kind": rng.choice(["f8", "i4"])})
    eprops = [{"name": "w", "kind": "f8"}] if rng.random() < 0.5 else []
    return {"id_dtype": "uint64", "ids": ids, "edges": edges, "nprops": nprops, "eprops": eprops,
            "directed": True, "axes": ["x", "y"], "salt": salt}


# --------------------------------------------------------------------------- entry points
ENTRIES = ("write_arrays", "write_dicts", "api_nx", "api_rx", "api_sg")


def do_write(entry: str, store, spec: dict, fmt: int, overwrite: bool, validation: bool = True):
    """call one write entry point of the implementation; exceptions propagate"""
    import geff
    from geff.core_io import write_arrays, write_dicts

    node_ids, node_props, edge_ids, edge_props = build_graph(spec)
    node_ids, node_props, edge_ids, edge_props = corrupt(spec, node_ids, node_props, edge_ids, edge_props)
    md = metadata_for(spec)
    if entry == "write_arrays":
        return write_arrays(store, node_ids, node_props, edge_ids, edge_props, md, zarr_format=fmt,
                            structure_validation=validation, overwrite=overwrite)
    if entry == "write_dicts":
        # write_dicts has no overwrite parameter
        nd = [(int(i), {k: _item(v, j) for k, v in node_props.items() if not _miss(v, j)})
              for j, i in enumerate(node_ids)]
        ed = [((int(a), int(b)), {k: _item(v, j) for k, v in edge_props.items() if not _miss(v, j)})
              for j, (a, b) in enumerate(edge_ids)]
        return write_dicts(store, nd, ed, list(node_props), list(edge_props), md, zarr_format=fmt,
                           structure_validation=validation)
    backend = {"api_nx": "networkx", "api_rx": "rustworkx", "api_sg": "spatial-graph"}[entry]
    from geff._graph_libs._api_wrapper import get_backend

    mem = {"metadata": md, "node_ids": node_ids, "edge_ids": edge_ids, "node_props": node_props,
           "edge_props": edge_props}
    b = get_backend(backend)
    graph = b.construct(**mem)
    kw = {}
    if entry == "api_rx":
        kw["node_id_dict"] = {v: k for k, v in graph.attrs["to_rx_id_map"].items()}
    return geff.write(graph, store, metadata=md, zarr_format=fmt, structure_validation=validation,
                      overwrite=overwrite, **kw)


def _miss(v, j):
    return v["missing"] is not None and bool(v["missing"][j])


def _item(v, j):
    x = v["values"][j]
    if isinstance(x, np.ndarray):
        return x
    return x.item() if hasattr(x, "item") else x


# --------------------------------------------------------------------------- reading back
def canon_read(store) -> dict:
    """what the store reads as: validate_structure + read_to_memory, canonicalised;
    {"reject": ExcName} when either refuses"""
    from geff.core_io import read_to_memory
    from geff.validate.structure import validate_structure

    try:
        validate_structure(store)
        g = read_to_memory(store)
    except Exception as e:  # noqa: BLE001
        return {"reject": type(e).__name__}

    def arr(a):
        if a is None:
            return None
        a = np.asarray(a)
        if a.dtype == object:
            return ["obj", [arr(x) for x in a]]
        return [str(a.dtype) if a.dtype.kind not in "U" else "str", list(a.shape),
                hashlib.sha1(np.ascontiguousarray(a).tobytes() if a.dtype.kind != "U"
                             else "\x00".join(a.ravel().tolist()).encode()).hexdigest()[:16]]

    def props(d):
        return {k: [arr(v["values"]), arr(v["missing"])] for k, v in sorted(d.items())}

    return {"node_ids": arr(g["node_ids"]), "edge_ids": arr(g["edge_ids"]),
            "node_props": props(g["node_props"]), "edge_props": props(g["edge_props"]),
            "metadata": json.loads(g["metadata"].model_dump_json())}


# --------------------------------------------------------------------------- abstraction for the model
def h(b: bytes) -> str:
    return hashlib.sha1(b).hexdigest()[:12]


def root_doc_key(fmt: int) -> str:
    return ".zattrs" if fmt == 2 else "zarr.json"


def abstract_blob(key: str, data: bytes):
    """bytes -> the model's blob: ["raw", hash] or ["root", geffhash|None, other-json]"""
    if key in (".zattrs", "zarr.json"):
        try:
            doc = json.loads(data)
        except Exception:  # noqa: BLE001
            return ["raw", h(data)]
        if key == ".zattrs":
            attrs = dict(doc)
            rest = {}
        else:
            attrs = dict(doc.get("attributes", {}))
            rest = {k: v for k, v in doc.items() if k != "attributes"}
        geff = attrs.pop("geff", None)
        gh = None if geff is None else h(json.dumps(geff, sort_keys=True).encode())
        other = json.dumps({"attrs": attrs, "rest": rest}, sort_keys=True)
        return ["root", gh, other]
    return ["raw", h(data)]


def abstract_state(snap: dict[str, bytes] | None, order: list[str] | None = None):
    if snap is None:
        return []
    keys = order if order is not None else sorted(snap)
    return [[k, abstract_blob(k, snap[k])] for k in keys]


def is_geff_key(key: str) -> bool:
    return key.startswith("nodes/") or key.startswith("edges/")


def geff_part(snap: dict[str, bytes] | None) -> dict:
    """the geff-owned part of a snapshot: nodes/, edges/ and the geff entry of the root attributes"""
    out = {}
    for k, v in (snap or {}).items():
        if is_geff_key(k):
            out[k] = h(v)
        elif k in (".zattrs", "zarr.json"):
            b = abstract_blob(k, v)
            if b[0] == "root" and b[1] is not None:
                out[k + "#geff"] = b[1]
    return out


def foreign_part(snap: dict[str, bytes] | None) -> dict:
    """everything that is not geff-owned: foreign members byte for byte, and the foreign root attributes
    (a missing root attribute document counts as no attributes; the root group's own format documents
    are not foreign content)"""
    out = {"#rootattrs": "{}"}
    for k, v in (snap or {}).items():
        if is_geff_key(k) or k == ".zgroup":
            continue
        if k in (".zattrs", "zarr.json"):
            b = abstract_blob(k, v)
            if b[0] == "root":
                out["#rootattrs"] = json.dumps(json.loads(b[2])["attrs"], sort_keys=True)
            else:
                out[k] = b[1]
        else:
            out[k] = h(v)
    return out


def graph_tables(spec: dict, fmt: int, entry: str = "write_arrays"):
    """Reference fresh write of `spec` into an empty MemoryStore: the documents (hashes) that make up
    the graph, in the form the Lean model takes as its input `G`.  Returns None when the write fails."""
    t = Target("mem")
    with quiet(t):
        try:
            do_write(entry, t.mem, {**spec, "invalid": None}, fmt, overwrite=False, validation=False)
        except Exception:  # noqa: BLE001
            return None
    snap = t.snapshot()
    return snap


@contextlib.contextmanager
def tmpdir():
    with tempfile.TemporaryDirectory(prefix="geffverif-") as d:
        yield d


# --------------------------------------------------------------------------- model requests
META_LEAF = {".zgroup": "zgroup", ".zattrs": "zattrs", ".zarray": "zarray", "zarr.json": "json"}


def parse_key(key: str):
    """zarr key -> [[path components], leaf, chunk] (the model's structured key)"""
    comps = key.split("/")
    if comps[-1] in META_LEAF:
        return [comps[:-1], META_LEAF[comps[-1]], ""]
    # format-3 chunk keys: …/c/i/j ; format-2: …/i.j
    for i in range(len(comps) - 1, -1, -1):
        if comps[i] == "c" and all(x.isdigit() for x in comps[i + 1:]):
            return [comps[:i], "chunk", "/".join(comps[i:])]
    return [comps[:-1], "chunk", comps[-1]]


def model_state(snap, order=None):
    return [[parse_key(k), b] for k, b in abstract_state(snap, order)]


_DOCS: dict[int, dict] = {}


def docs_for(fmt: int) -> dict:
    """the constant documents zarr writes for groups, taken from zarr itself"""
    if fmt in _DOCS:
        return _DOCS[fmt]
    s = MemoryStore()
    r = zarr.open_group(s, mode="a", zarr_format=fmt)
    snap0 = {k: bytes(v.to_bytes()) for k, v in s._store_dict.items()}
    r.require_group("x/y")
    snap = {k: bytes(v.to_bytes()) for k, v in s._store_dict.items()}
    d = {"zgroup": "-", "zattrs": "-", "gjson": "-"}
    if fmt == 2:
        d["zgroup"], d["zattrs"] = h(snap["x/.zgroup"]), h(snap["x/.zattrs"])
        assert h(snap["x/y/.zgroup"]) == d["zgroup"] and h(snap[".zgroup"]) == d["zgroup"]
    else:
        d["gjson"] = h(snap["x/zarr.json"])
        assert h(snap["x/y/zarr.json"]) == d["gjson"]
    d["emptyOther"] = abstract_blob(root_doc_key(fmt), snap0[root_doc_key(fmt)])[2]
    _DOCS[fmt] = d
    return d


def reference_write(spec: dict, fmt: int, entry: str, workdir: str | None = None):
    """fault-free write of `spec` through `entry` into an empty location; (snapshot, key order, reading)
    or None when it fails.  Converters need a directory (`workdir`)."""
    global REC
    saved = REC
    if entry in CONVERTERS:
        sub = tempfile.mkdtemp(prefix="ref-", dir=workdir)
        t = Target("path", sub, name="ref.geff")
    else:
        t = Target("mem")
    try:
        with quiet(t):
            try:
                do_any(entry, t.handle(), spec, fmt, False, False, workdir)
            except Exception:  # noqa: BLE001
                return None
            drain()
            snap = t.snapshot()
            order = t.keys_in_order()
            if entry in CONVERTERS:
                # directory order is not insertion order: rebuild the writing order from a recorded run
                order = sorted(snap)
            return snap, order, canon_read(t.reader())
    finally:
        REC = saved


def do_any(entry: str, store, spec: dict, fmt: int, overwrite: bool, validation: bool = True, workdir: str | None = None):
    if entry in CONVERTERS:
        return do_convert(entry, store, spec["variant"], fmt, overwrite, workdir)
    return do_write(entry, store, spec, fmt, overwrite, validation)


def model_graph(spec: dict, fmt: int, entry: str = "write_arrays", valid: bool = True, flags: dict | None = None,
                workdir: str | None = None):
    """the model's `G` for `spec`: documents read off a fault-free reference write (validation off)
    into an empty location through the same entry point.  None when that write fails."""
    ref = reference_write(spec, fmt, entry, workdir)
    if ref is None:
        return None
    snap, order, _ = ref
    amk = ".zarray" if fmt == 2 else "zarr.json"
    arrays: dict[str, dict] = {}
    for k in order:
        if k.endswith("/" + amk):
            p = k[: -len(amk) - 1]
            if fmt == 3 and json.loads(snap[k]).get("node_type") != "array":
                continue
            arrays[p] = {"m": h(snap[k]), "c": []}
    for p, a in arrays.items():
        # the chunk grid from the array metadata; a chunk that is not stored equals the fill value
        # (zarr then issues a delete instead of a set)
        md = json.loads(snap[p + "/" + amk])
        shape = md["shape"]
        cs = md["chunks"] if fmt == 2 else md["chunk_grid"]["configuration"]["chunk_shape"]
        grid = [range(-(-s // c)) if c else range(0) for s, c in zip(shape, cs)]
        import itertools
        for idx in itertools.product(*grid):
            if fmt == 2:
                suffix = ".".join(map(str, idx)) if idx else "0"
            else:
                suffix = "/".join(["c", *map(str, idx)])
            key = p + "/" + suffix
            a["c"].append([suffix, h(snap[key]) if key in snap else None])

    def props(grp):
        names = []
        for k in order:
            c = k.split("/")
            if len(c) >= 4 and c[0] == grp and c[1] == "props" and c[2] not in names:
                names.append(c[2])
        gk = f"{grp}/props/" + (".zgroup" if fmt == 2 else "zarr.json")
        if gk not in snap:
            return None
        return [{"name": n, "values": arrays[f"{grp}/props/{n}/values"],
                 "missing": arrays.get(f"{grp}/props/{n}/missing"),
                 "data": arrays.get(f"{grp}/props/{n}/data")} for n in names]

    rd = abstract_blob(root_doc_key(fmt), snap[root_doc_key(fmt)])
    g = {"nodeIds": arrays["nodes/ids"], "edgeIds": arrays["edges/ids"],
         "nodeProps": props("nodes"), "edgeProps": props("edges"), "geff": rd[1], "valid": valid}
    if flags:
        g.update(flags)
    return g


def model_kind(kind: str) -> str:
    return {"mem": "mem", "local": "loc", "path": "path", "str": "path", "tilde-str": "path", "tilde-path": "path",
            "symlink-str": "path", "symlink-path": "path"}[kind]


def model_entry(entry: str) -> str:
    return entry if entry in ("write_arrays", "write_dicts") else "api"


def replay_ops(state: list, ops: list, k: int | None = None):
    """Python replay of the model's op list on an abstract state (ordered list of [key, blob]);
    mirrors `Geff.KV.step` and is cross-checked against the driver's own states."""
    st = [(a, b) for a, b in state]
    for op in ops[: len(ops) if k is None else k]:
        kind, key = op[0], op[1]
        if kind == "set" or (kind == "setnx" and all(a != key for a, _ in st)):
            if any(a == key for a, _ in st):
                st = [(a, op[2] if a == key else b) for a, b in st]
            else:
                st.append((key, op[2]))
        elif kind == "del":
            st = [(a, b) for a, b in st if a != key]
        elif kind == "delprefix":
            st = [(a, b) for a, b in st if not (a.startswith(key + "/"))]
        elif kind == "clear":
            st = []
    return st


# --------------------------------------------------------------------------- tiny converter inputs
def make_ctc(root: str, variant: int) -> str:
    """a tiny synthetic Cell-Tracking-Challenge dataset (label frames + man_track.txt); `variant`
    changes the number of cells / frames so that A, B, C differ in size"""
    import tifffile

    d = os.path.join(root, f"ctc{variant}", "TRA")
    os.makedirs(d, exist_ok=True)
    T = 2 + variant % 2
    frames = [np.zeros((6, 6), dtype="uint16") for _ in range(T)]
    # track 1 lives in every frame; track 2 in every frame; track 3 (variant>=1) is a daughter of 1 in the last frame
    for t in range(T):
        frames[t][1, 1 + (t % 2)] = 1
        frames[t][4, 4] = 2
    rows = [[1, 0, T - 1, 0], [2, 0, T - 1, 0]]
    if variant >= 1:
        frames[T - 1][1, 1 + ((T - 1) % 2)] = 0
        frames[T - 1][0, 0] = 3
        frames[T - 1][2, 3] = 4
        rows = [[1, 0, T - 2, 0], [2, 0, T - 1, 0], [3, T - 1, T - 1, 1], [4, T - 1, T - 1, 1]]
    for t, a in enumerate(frames):
        tifffile.imwrite(os.path.join(d, f"man_track{t:03d}.tif"), a)
    with open(os.path.join(d, "man_track.txt"), "w") as fh:
        fh.write("".join(" ".join(map(str, r)) + "\n" for r in rows))
    return d


def make_trackmate(root: str, variant: int) -> str:
    """a tiny synthetic TrackMate XML: `variant`+2 spots in a chain (one track), plus one extra feature
    when variant is odd so that the property sets differ"""
    n = variant + 2
    extra = variant % 2 == 1
    sf = [("QUALITY", "false", "QUALITY"), ("POSITION_X", "false", "POSITION"), ("POSITION_Y", "false", "POSITION"),
          ("POSITION_Z", "false", "POSITION"), ("POSITION_T", "false", "TIME"), ("FRAME", "true", "NONE"),
          ("RADIUS", "false", "LENGTH")]
    if extra:
        sf.append(("MEAN_INTENSITY", "false", "INTENSITY"))
    out = ['<?xml version="1.0" encoding="UTF-8"?>', '<TrackMate version="7.11.1">', "  <Log>log</Log>",
           '  <Model spatialunits="micrometer" timeunits="second">', "    <FeatureDeclarations>", "      <SpotFeatures>"]
    for name, isint, dim in sf:
        out.append(f'        <Feature feature="{name}" name="{name.title()}" shortname="{name[:4]}" dimension="{dim}" isint="{isint}" />')
    out += ["      </SpotFeatures>", "      <EdgeFeatures>",
            '        <Feature feature="SPOT_SOURCE_ID" name="Source" shortname="Src" dimension="NONE" isint="true" />',
            '        <Feature feature="SPOT_TARGET_ID" name="Target" shortname="Tgt" dimension="NONE" isint="true" />',
            '        <Feature feature="LINK_COST" name="Cost" shortname="Cost" dimension="COST" isint="false" />',
            "      </EdgeFeatures>", "      <TrackFeatures>",
            '        <Feature feature="TRACK_ID" name="Track ID" shortname="ID" dimension="NONE" isint="true" />',
            '        <Feature feature="TRACK_INDEX" name="Track index" shortname="Idx" dimension="NONE" isint="true" />',
            "      </TrackFeatures>", "    </FeatureDeclarations>", f'    <AllSpots nspots="{n}">']
    for i in range(n):
        sid = 10 + i + variant * 100
        a = (f'ID="{sid}" name="ID{sid}" QUALITY="{1.5 + i}" POSITION_X="{float(i)}" POSITION_Y="{2.0 * i}" POSITION_Z="0.0" '
             f'POSITION_T="{float(i)}" FRAME="{i}" RADIUS="1.0" VISIBILITY="1"')
        if extra:
            a += f' MEAN_INTENSITY="{10.5 + i}"'
        out += [f'      <SpotsInFrame frame="{i}">', f"        <Spot {a} />", "      </SpotsInFrame>"]
    out += ["    </AllSpots>", "    <AllTracks>", '      <Track name="Track_0" TRACK_ID="0" TRACK_INDEX="0">']
    for i in range(n - 1):
        s, t = 10 + i + variant * 100, 11 + i + variant * 100
        out.append(f'        <Edge SPOT_SOURCE_ID="{s}" SPOT_TARGET_ID="{t}" LINK_COST="{0.5 + i}" />')
    out += ["      </Track>", "    </AllTracks>", "    <FilteredTracks>", '      <TrackID TRACK_ID="0" />',
            "    </FilteredTracks>", "  </Model>", "  <Settings>",
            '    <ImageData filename="img.tif" folder="/data/x" width="10" height="10" nslices="1" nframes="5" '
            'pixelwidth="1.0" pixelheight="1.0" voxeldepth="1.0" timeinterval="1.0" />',
            "  </Settings>", '  <GUIState state="ConfigureViews" />', "</TrackMate>"]
    p = os.path.join(root, f"tm{variant}.xml")
    with open(p, "w") as fh:
        fh.write("\n".join(out) + "\n")
    return p


CONVERTERS = ("ctc", "trackmate")


def do_convert(entry: str, store, variant: int, fmt: int, overwrite: bool, workdir: str):
    """run a converter on a tiny synthetic input; `store` must be a Path ending in .geff"""
    from geff.convert import from_ctc_to_geff, from_trackmate_xml_to_geff

    if entry == "ctc":
        return from_ctc_to_geff(Path(make_ctc(workdir, variant)), Path(store), overwrite=overwrite, zarr_format=fmt)
    return from_trackmate_xml_to_geff(Path(make_trackmate(workdir, variant)), Path(store), overwrite=overwrite,
                                      zarr_format=fmt)
