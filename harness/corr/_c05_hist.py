"""C05, history stream — histories of writes on ONE target, each write with at most one storage fault.

The single-write streams of `C05.py` start every faulted write from a *clean* pre-state (nothing, foreign
members only, or a complete geff).  The property, however, is stated for *every* write that does not
complete — also one that starts on what an earlier interrupted write (or interrupted clean-up) left
behind.  This stream explores that dimension:

    write(G0) complete;  write(G1, overwrite=True) failing at mutation k1;
    write(G1 again | G2, overwrite=True | False, any entry point) failing at k2 or not at all;  …

on fault-injecting MemoryStores and directory stores (LocalStore object, Path, str), both zarr formats,
with and without foreign members.  A *task* is a fixed prefix of (possibly faulted) steps plus a *sweep*
step that is run once without a fault and once per crash point k.

Oracle (independent of the Lean model), after EVERY step of every history: the target is classified by
the real `validate_structure` + `read_to_memory`; it must be rejected, or read back as exactly the graph
of the step that has just run (reference: a fault-free write of that graph into a fresh store), or as
exactly what it read as before the step **when that was a recognised graph**.  Anything else is a wrong
graph that looks valid.  A step that returns normally must read back as its graph.  Foreign members must
stay byte-identical.

Correspondence with the Lean model (GeffModel/KVTorn.lean: `writeArraysT` — the verdict of the final
`validate_structure` is taken on the store as committed, so left-over property members of a torn store
that the guard did not delete make the write end with ValueError + clean-up): for every torn pre-state
reached, the fault-free trace of the next write from that *real* store content equals the model's trace
from the same content (mutation by mutation, outcome included), every faulted run is a prefix of it;
every real pre-state is one the theorems speak about (the guard takes it for a geff, or it satisfies
`tornOkB`, proved closed under interrupted writes in GeffProofs/KVTorn.lean); the committed store is
`deleteSafeB` whenever the pre-state was reached through program-order prefixes (hypothesis of the
crash-point theorem for the clean-up phase); and whenever the real reader accepts a state the model's
`recognised` is true.
"""
from __future__ import annotations

import json
import os
import shutil

from harness import common
from harness.corr import _kv as K

PROP = "C05"
HIST_KINDS = ("mem", "local", "path", "str")


# ----------------------------------------------------------------- one target with save / restore
class Hist:
    def __init__(self, kind: str, tmp: str | None):
        self.t = K.Target(kind, tmp)
        self.kind = kind

    def save(self):
        t = self.t
        if t.kind == "mem":
            return ("mem", dict(t.mem._store_dict))
        return ("dir", t.snapshot())

    def restore(self, saved):
        t = self.t
        if saved[0] == "mem":
            t.mem._store_dict.clear()
            t.mem._store_dict.update(saved[1])
        else:
            if os.path.lexists(t.dir):
                shutil.rmtree(t.dir)
            if saved[1] is not None:
                os.makedirs(t.dir, exist_ok=True)
                for k, v in saved[1].items():
                    p = os.path.join(t.dir, k)
                    os.makedirs(os.path.dirname(p), exist_ok=True)
                    with open(p, "wb") as fh:
                        fh.write(v)
        t.rec.log, t.rec.n, t.rec.fail_at = [], 0, None

    def attempt(self, step, fmt, fail_at=None):
        from harness.corr.C05 import exc_class

        t = self.t
        t.rec.log, t.rec.n = [], 0
        t.rec.fail_at = fail_at
        try:
            K.do_write(step["entry"], t.handle(), step["g"], fmt, step.get("overwrite", False),
                       step.get("validation", True))
            out = "ok"
        except BaseException as e:  # noqa: BLE001
            out = exc_class(e)
        K.drain()
        t.rec.fail_at = None
        return out, [list(x) for x in t.rec.log]

    def observe(self):
        t = self.t
        K.drain()
        with K.quiet(t):
            snap = t.snapshot()
            read = K.canon_read(t.reader()) if snap is not None else {"reject": "absent"}
        return snap, read

    def model_pre(self):
        t = self.t
        with K.quiet(t):
            snap = t.snapshot()
        return K.model_state(snap, t.keys_in_order() if t.kind == "mem" else None) + (
            [[[[], "chunk", EMPTY_DIR], ["raw", "dir"]]] if dir_only(t.kind, snap) else [])


# An existing directory that holds nothing (zarr re-creates the root directory when it opens a str/Path store, e.g. after
# an overwrite was interrupted right behind the rmtree of delete_geff).  For str/Path targets check_for_geff takes an
# existing path that is not a zarr group for occupied; the model's guard sees that as `!kv.isEmpty` — so the directory
# itself is handed to the model as one root-level entry (it is no member, no foreign key, and `clear` removes it).
EMPTY_DIR = "."


def dir_only(kind, snap) -> bool:
    return K.model_kind(kind) == "path" and snap is not None and len(snap) == 0


def abstract_final(kind, snap, order):
    return K.abstract_state(snap, order) + ([[EMPTY_DIR, ["raw", "dir"]]] if dir_only(kind, snap) else [])


_REF: dict[str, dict | None] = {}


def ref_read(step, fmt):
    """what a fault-free write of the step's graph into a fresh store reads as (None: it cannot be written)"""
    key = json.dumps([step["entry"], step["g"], fmt], sort_keys=True)
    if key not in _REF:
        ref = None
        if not step["g"].get("invalid"):
            tr = K.Target("mem")
            with K.quiet(tr):
                try:
                    K.do_write(step["entry"], tr.mem, step["g"], fmt, False, False)
                    ref = K.canon_read(tr.mem)
                except Exception:  # noqa: BLE001
                    ref = None
            if ref is not None and "reject" in ref:
                ref = None
        _REF[key] = ref
    return _REF[key]


_MG: dict[str, dict | None] = {}


def model_g(step, fmt):
    """the model's input `G` of the step's graph (documents of a reference write); None when the input is
    rejected before / while the arrays are written (no model input then)"""
    from harness.corr.C05 import is_validation_failure

    inv = step["g"].get("invalid")
    if inv and not is_validation_failure(inv):
        return None
    key = json.dumps([step["entry"], step["g"], fmt], sort_keys=True)
    if key not in _MG:
        _MG[key] = K.model_graph(step["g"], fmt, step["entry"])
    return _MG[key]


def classify(read, ref_new, prev_read):
    if "reject" in read:
        return "reject"
    if ref_new is not None and read == ref_new:
        return "new"
    if "reject" not in prev_read and read == prev_read:
        return "old"          # exactly the previous graph, which was a recognised one
    return "WRONG"


def brief(read):
    """a short rendering of what a wrong store reads as"""
    if read is None or "reject" in read:
        return read
    return {"node_ids": read["node_ids"], "edge_ids": read["edge_ids"],
            "node_props": {k: v[0] for k, v in read["node_props"].items()},
            "directed": read["metadata"].get("directed")}


# ----------------------------------------------------------------- worker
def run_task(task):
    try:
        with K.tmpdir() as tmp:
            return _run_task(task, tmp)
    except BaseException as e:  # noqa: BLE001
        import traceback

        return {"task": task, "harness_error": f"{type(e).__name__}: {e}", "tb": traceback.format_exc()[-1500:]}


def _one_step(H, step, fmt, prev_read, pre_foreign, fail_at, want_pre=False):
    """run one step (with a fault at `fail_at`, if given) on the target as it is; classify afterwards"""
    pre = H.model_pre() if want_pre else None
    out, log = H.attempt(step, fmt, fail_at)
    snap, read = H.observe()
    ref = ref_read(step, fmt)
    v = classify(read, ref, prev_read)
    rec = {"out": out, "nops": len(log), "verdict": v, "fail_at": fail_at,
           "fault_hit": fail_at is not None and len(log) > fail_at,
           "reject": read.get("reject"), "read": brief(read) if v == "WRONG" else None,
           "foreign_ok": K.foreign_preserved(pre_foreign, K.foreign_part(snap), H.kind),
           "accepted": "reject" not in read}
    if want_pre:
        rec["pre"] = pre
        rec["log"] = log
    return rec, read, snap


def _run_task(task, tmp):
    fmt, kind = task["fmt"], task["kind"]
    H = Hist(kind, tmp)
    t = H.t
    with K.quiet(t):
        if task.get("sib"):
            K.add_siblings(t, fmt, task["sib"])
    snap0, read0 = H.observe()
    pre_foreign = K.foreign_part(snap0)
    res = {"task": task, "steps": [], "sweep": None}
    prev = read0
    model = task.get("model", True)
    for st in task["steps"]:
        rec, prev_after, _ = _one_step(H, st, fmt, prev, pre_foreign, st.get("fail_at"), want_pre=model)
        rec["g_model"] = model_g(st, fmt) if model else None
        res["steps"].append(rec)
        prev = prev_after
    sw = task.get("sweep")
    if sw is None:
        return res
    saved = H.save()
    pre = H.model_pre()
    out0, ops0 = H.attempt(sw, fmt, None)
    snapF, readF = H.observe()
    ref = ref_read(sw, fmt)
    v0 = classify(readF, ref, prev)
    S = {"pre": pre, "out0": out0, "ops": ops0, "verdict0": v0, "read0": brief(readF) if v0 == "WRONG" else None,
         "foreign_ok0": K.foreign_preserved(pre_foreign, K.foreign_part(snapF), kind),
         "accepted0": "reject" not in readF, "pre_accepted": "reject" not in prev,
         "g_model": model_g(sw, fmt),
         "final": abstract_final(kind, snapF, t.keys_in_order() if kind == "mem" else None), "points": []}
    ks = sw.get("ks")
    ks = list(range(len(ops0))) if ks in (None, "all") else [k for k in ks if k < len(ops0)]
    for k in ks:
        H.restore(saved)
        out, log = H.attempt(sw, fmt, k)
        snap, read = H.observe()
        v = classify(read, ref, prev)
        S["points"].append({"k": k, "out": out, "verdict": v, "read": brief(read) if v == "WRONG" else None,
                            "diverged": log[:k + 1] != ops0[:k + 1], "after": len(log) - (k + 1),
                            "accepted": "reject" not in read,
                            "foreign_ok": K.foreign_preserved(pre_foreign, K.foreign_part(snap), kind)})
    res["sweep"] = S
    return res


# ----------------------------------------------------------------- generators
def g_small(salt, directed=True, props="a"):
    nprops = {"a": [{"name": "a", "kind": "f8", "missing": True}],
              "a-nomiss+z": [{"name": "a", "kind": "f8"}, {"name": "z", "kind": "i4"}],
              "b": [{"name": "b", "kind": "i4"}],
              "none": []}[props]
    return {"id_dtype": "uint16", "ids": [3, 5, 9], "edges": [[3, 5], [5, 9]], "nprops": nprops,
            "eprops": [{"name": "w", "kind": "f8"}] if props == "a-nomiss+z" else [], "directed": directed, "salt": salt}


def g_spatial(salt):
    return {"id_dtype": "uint64", "ids": [2, 4, 7], "edges": [[2, 4], [4, 7]],
            "nprops": [{"name": "x", "kind": "f8"}, {"name": "y", "kind": "f8"}], "eprops": [],
            "directed": True, "axes": ["x", "y"], "salt": salt}


def step(entry, g, overwrite, validation=True, fail_at=None):
    s = {"entry": entry, "g": g, "overwrite": overwrite, "validation": validation}
    if fail_at is not None:
        s["fail_at"] = fail_at
    return s


def probe_ops(cfg, steps):
    """main process: the fault-free mutation sequence of the LAST of `steps` after the earlier ones ran"""
    with K.tmpdir() as tmp:
        H = Hist(cfg["kind"], tmp)
        with K.quiet(H.t):
            if cfg.get("sib"):
                K.add_siblings(H.t, cfg["fmt"], cfg["sib"])
        log = []
        for st in steps:
            _, log = H.attempt(st, cfg["fmt"], None)
        return log


def phase_points(ops, every):
    """the crash points k1 of an overwriting write that are taken as torn pre-states: every mutation of the
    delete phase (up to and including the first mutations of the write phase), the neighbourhood of the commit
    point (the last mutations), and every `every`-th mutation in between"""
    n = len(ops)
    first_set = next((i for i, o in enumerate(ops) if o[0] in ("set", "setnx") and o[1].startswith(("nodes/", "edges/"))), 0)
    ks = set(range(0, min(n, first_set + 2))) | set(range(max(0, n - 4), n))
    ks |= set(range(first_set, n, every))
    return sorted(ks)


def rollback_points(ops):
    """the crash points inside the roll-back of a write whose validation fails: everything from the first
    deletion that follows the array writes"""
    first_set = next((i for i, o in enumerate(ops) if o[0] in ("set", "setnx") and o[1].startswith(("nodes/", "edges/"))), 0)
    start = next((i for i in range(first_set, len(ops)) if ops[i][0] in ("delprefix", "clear") or
                  (ops[i][0] == "del" and ops[i][1].endswith((".zarray", ".zgroup", "zarr.json")))), len(ops))
    return list(range(max(0, start - 1), len(ops)))


def gen_tasks(ck):
    rng = ck.rng
    quick = ck.quick
    tasks = []
    cfgs = [{"fmt": 2, "kind": "mem", "sib": False}, {"fmt": 3, "kind": "mem", "sib": "array"},
            {"fmt": 2, "kind": "local", "sib": "nested"}, {"fmt": 3, "kind": "path", "sib": "group"}]
    n_main = len(cfgs)
    if not quick:
        cfgs += [{"fmt": 3, "kind": "mem", "sib": False}, {"fmt": 2, "kind": "mem", "sib": "array+group"},
                 {"fmt": 3, "kind": "local", "sib": False}, {"fmt": 2, "kind": "path", "sib": False},
                 {"fmt": 2, "kind": "str", "sib": "array"}, {"fmt": 3, "kind": "str", "sib": False}]
    G0, G1, G2 = g_small(5), g_small(1, directed=False), g_small(2, props="a-nomiss+z")
    write0 = step("write_arrays", G0, False)

    # what the (possibly repeated) second write may be: the retry, another graph, no overwrite, other entry points
    def variants(first):
        return [step(first["entry"], first["g"], True),                       # the retried call
                step("write_arrays", G2, True),                               # another graph, other properties
                step("write_arrays", G1, False),                              # no overwrite: refused or fresh
                step("api_nx", g_spatial(3), True),                           # geff.write: its own guard + nested
                step("write_dicts", g_small(4, props="b"), False),
                step("write_arrays", {**G1, "invalid": "len-node"}, True)]    # rejected by validation: roll-back
    half = list(range(0, 400, 2))
    nv = 0

    def add(cfg, prefix, sweeps):
        for v, ks in sweeps:
            tasks.append({**cfg, "stream": "history", "steps": prefix, "sweep": {**v, "ks": ks}})

    for ci, cfg in enumerate(cfgs):
        main = ci < n_main
        # (A) complete G0, then an overwrite interrupted at k1, then every crash point of a further write:
        # thorough = ALL (k1, k2) pairs for the retried call, the other kinds of second write from the
        # stratified k1; quick = stratified k1 (the whole delete phase, around the commit point, every 5th
        # mutation in between) x every k2 of the retried call, plus one other kind of second write (every 2nd k2)
        first = step("write_arrays", G1, True)
        ops1 = probe_ops(cfg, [write0, first])
        strat = phase_points(ops1, 5)
        for k1 in (strat if quick else range(len(ops1))):
            vs = variants(first)
            prefix = [write0, {**first, "fail_at": k1}]
            nv += 1
            if quick:
                add(cfg, prefix, [(vs[0], "all")] + ([(vs[1 + (nv // 2) % (len(vs) - 1)], half)] if nv % 2 == 0 else []))
            else:
                add(cfg, prefix, [(vs[0], "all")] + ([(v, "all") for v in vs[1:]] if main and k1 in strat else
                                                     [(vs[1 + nv % (len(vs) - 1)], half)]))
        # (A') the first overwrite is rejected by validation and interrupted inside its roll-back; (A'') it is a
        # geff.write (own deletion, nested write_arrays)
        others = [step("write_arrays", {**G1, "invalid": "len-node"}, True)] if (not quick or ci == 0) else []
        if main and not quick:
            others.append(step("api_nx", g_spatial(1), True))
        for first in others:
            ops1 = probe_ops(cfg, [write0, first])
            pts = rollback_points(ops1) if first["g"].get("invalid") else phase_points(ops1, 5)
            for k1 in pts:
                vs = variants(first)
                nv += 1
                add(cfg, [write0, {**first, "fail_at": k1}], [(vs[0], "all"), (vs[1 + nv % (len(vs) - 1)], half if quick else "all")])
        # (B) no geff before: a FRESH write interrupted at k1, then every crash point of a further write
        if main:
            first = step("write_arrays", G1, False)
            ops1 = probe_ops(cfg, [first])
            for k1 in (range(1, len(ops1), 6) if quick else range(len(ops1))):
                vs = variants(first)
                nv += 1
                add(cfg, [{**first, "fail_at": k1}], [(vs[nv % len(vs)], "all")] if quick else
                    [(v, "all") for v in (vs[0], vs[2], vs[1 + nv % (len(vs) - 1)])])
    # (C) seeded random histories: 3-5 steps, random graphs / entry points / flags, a fault in most steps,
    # the last step swept over a random sample of its crash points
    nrand = 24 if quick else 400
    for i in range(nrand):
        cfg = {"fmt": rng.choice((2, 3)), "kind": rng.choice(HIST_KINDS),
               "sib": rng.choice(K.SIB_VARIANTS) if rng.random() < 0.5 else False}
        steps = []
        for j in range(rng.randint(2, 4)):
            entry = rng.choice(["write_arrays", "write_arrays", "write_arrays", "write_dicts", "api_nx", "api_rx"])
            g = (K.random_spec(rng, small=True, salt=10 * i + j) if entry == "write_arrays" else
                 K.random_spec(rng, small=True, backend_ok=True, salt=10 * i + j) if rng.random() < 0.5 else
                 K.spatial_spec(rng, salt=10 * i + j))
            if entry == "write_arrays" and rng.random() < 0.15:
                g = {**g, "invalid": rng.choice(["len-node", "meta-absent-edge", "len-edge"])}
            st = step(entry, g, entry != "write_dicts" and rng.random() < 0.75)
            if rng.random() < 0.8:
                st["fail_at"] = rng.randint(0, 70)     # beyond the end: the step simply completes
            steps.append(st)
        last = steps.pop()
        last.pop("fail_at", None)
        tasks.append({**cfg, "stream": "history", "steps": steps,
                      "sweep": {**last, "ks": sorted(rng.sample(range(0, 90), 12 if quick else 30))}})
    # corpus (history cases are stored flattened: every step with its fail_at; run without sweep)
    d = common.VERIF / "harness" / "corpus" / PROP
    for f in sorted(d.glob("*.json")) if d.is_dir() else []:
        c = json.loads(f.read_text())
        if c.get("stream") == "history":
            tasks.insert(0, {**c, "sweep": None})
    return tasks


# ----------------------------------------------------------------- model side
def model_request(task, pre, st, g_model):
    g = dict(g_model)
    from harness.corr.C05 import is_validation_failure

    g["valid"] = not is_validation_failure(st["g"].get("invalid"))
    return {"op": "trace", "fmt": task["fmt"], "kind": K.model_kind(task["kind"]), "docs": K.docs_for(task["fmt"]),
            "pre": pre, "g": g, "entry": K.model_entry(st["entry"]), "overwrite": st.get("overwrite", False),
            "validate": st.get("validation", True), "states": False, "torn": True}


def flat_case(task, upto=None, sweep_k=None, with_sweep=True):
    """the replayable history: every step with its fault point"""
    steps = [dict(s) for s in task["steps"][: (len(task["steps"]) if upto is None else upto + 1)]]
    if with_sweep and upto is None and task.get("sweep") is not None:
        s = {k: v for k, v in task["sweep"].items() if k != "ks"}
        if sweep_k is not None:
            s["fail_at"] = sweep_k
        steps.append(s)
    return {"stream": "history", "fmt": task["fmt"], "kind": task["kind"], "sib": task.get("sib", False), "steps": steps}


def describe(case):
    out = []
    for s in case["steps"]:
        fa = s.get("fail_at")
        out.append(f"{s['entry']}(salt={s['g'].get('salt')}{', invalid=' + s['g']['invalid'] if s['g'].get('invalid') else ''}, "
                   f"overwrite={s.get('overwrite', False)})" + (f" failing at mutation {fa}" if fa is not None else " complete"))
    return "; ".join(out)


def judge(ck, results, drv):
    """oracle + correspondence over the results of the history tasks"""
    reqs, where = [], []
    n_steps = n_points = n_wrong = n_torn = 0
    verdicts: dict[str, int] = {}
    for r in results:
        task = r["task"]
        if "harness_error" in r:
            ck.broken.append({"what": "corr C05:history-harness", "detail": {"case": flat_case(task), "error": r["harness_error"],
                                                                             "tb": r.get("tb")}})
            continue
        sw = r.get("sweep")
        npts = len(sw["points"]) if sw else 0
        ck.case({"stream": "history", "fmt": task["fmt"], "kind": task["kind"], "sib": task.get("sib", False),
                 "steps": task["steps"], "sweep": task.get("sweep")},
                tag=f"history/{len(task['steps'])}+{'sweep' if sw else '0'}/" + "/".join(
                    s["entry"] + ("!" if s.get("fail_at") is not None else "") for s in task["steps"]) +
                    ("/" + task["sweep"]["entry"] + ("+ow" if task["sweep"].get("overwrite") else "") if sw else ""),
                nontrivial=bool(npts or any(s["nops"] for s in r["steps"])))
        # ---- oracle: after every step of the prefix
        for i, s in enumerate(r["steps"]):
            n_steps += 1
            verdicts[s["verdict"]] = verdicts.get(s["verdict"], 0) + 1
            case = flat_case(task, upto=i)
            _judge_state(ck, case, s["verdict"], s["out"], s["read"], s["foreign_ok"], s["fault_hit"])
            if s.get("pre") is not None and s.get("g_model") is not None:
                reqs.append(model_request(task, s["pre"], task["steps"][i], s["g_model"]))
                where.append((r, "step", i))
        if not sw:
            continue
        n_torn += 1
        # ---- oracle: the fault-free run of the sweep step and every crash point of it
        verdicts[sw["verdict0"]] = verdicts.get(sw["verdict0"], 0) + 1
        _judge_state(ck, flat_case(task), sw["verdict0"], sw["out0"], sw["read0"], sw["foreign_ok0"], False)
        for p in sw["points"]:
            n_points += 1
            verdicts[p["verdict"]] = verdicts.get(p["verdict"], 0) + 1
            if p["verdict"] == "WRONG":
                n_wrong += 1
            case = flat_case(task, sweep_k=p["k"])
            _judge_state(ck, case, p["verdict"], p["out"], p["read"], p["foreign_ok"], True)
            if p["diverged"]:
                ck.corr_broken("C05:history-trace-diverges-before-fault", case, None, None)
        if sw.get("g_model") is not None:
            reqs.append(model_request(task, sw["pre"], task["sweep"], sw["g_model"]))
            where.append((r, "sweep", None))
    # ---- correspondence with the model: the trace of a write started on the REAL torn content
    answers = drv.ask(reqs) if reqs else []
    if answers is None:
        ck.broken.append({"what": "driver Drivers/C05.lean (history)", "detail": drv.broken})
        answers = []
    n_traces = n_inv = n_stale = n_safe = n_residue = 0
    for (r, what, i), m in zip(where, answers):
        task = r["task"]
        if m is None or "err" in m:
            ck.corr_broken("C05:history-driver", flat_case(task), None, m)
            continue
        mops = [[o[0], o[1]] for o in m["ops"]]
        if what == "sweep":
            sw = r["sweep"]
            case = flat_case(task)
            if mops != sw["ops"] or m["outcome"] != sw["out0"]:
                first = next((j for j, (a, b) in enumerate(zip(sw["ops"], mops)) if a != b), min(len(mops), len(sw["ops"])))
                ck.corr_broken("C05:history-writeOps", case,
                               {"out": sw["out0"], "n": len(sw["ops"]), "at": first, "op": sw["ops"][first:first + 2]},
                               {"out": m["outcome"], "n": len(mops), "op": mops[first:first + 2]})
                continue
            n_traces += 1
            mfinal = [[k, b] for k, b in m["final"]]
            if sorted(mfinal) != sorted(sw["final"]) or (task["kind"] == "mem" and mfinal != sw["final"]):
                ck.corr_broken("C05:history-final-store", case, [x for x in sw["final"] if x not in mfinal][:4],
                               [x for x in mfinal if x not in sw["final"]][:4])
            # recognised is necessary for acceptance, at the pre-state and at every prefix state
            if sw["pre_accepted"] and not m["rec"][0]:
                ck.corr_broken("C05:history-recognised-not-necessary", case, "accepted pre-state", "model: not recognised")
            for p in sw["points"]:
                if p["accepted"] and p["after"] == 0 and not p["diverged"] and p["k"] < len(m["rec"]) and not m["rec"][p["k"]]:
                    ck.corr_broken("C05:history-recognised-not-necessary", flat_case(task, sweep_k=p["k"]), p["verdict"],
                                   "model: not recognised")
        else:
            s = r["steps"][i]
            case = flat_case(task, upto=i)
            k = s["fail_at"]
            log = s["log"]
            if s["fault_hit"]:
                if log[:k + 1] != mops[:k + 1]:
                    ck.corr_broken("C05:history-writeOps", case, {"n": len(log), "ops": log[max(0, k - 1):k + 1]},
                                   {"n": len(mops), "ops": mops[max(0, k - 1):k + 1]})
                    continue
            elif mops != log or m["outcome"] != s["out"]:
                first = next((j for j, (a, b) in enumerate(zip(log, mops)) if a != b), min(len(mops), len(log)))
                ck.corr_broken("C05:history-writeOps", case, {"out": s["out"], "n": len(log), "at": first, "op": log[first:first + 2]},
                               {"out": m["outcome"], "n": len(mops), "op": mops[first:first + 2]})
                continue
            n_traces += 1
        # every real pre-state is covered by the theorems: the guard takes it for a geff (PreOK.held side) or it
        # satisfies the invariant of torn stores, proved closed under interrupted writes (GeffProofs/KVTorn.lean)
        pre_case = (flat_case(task, with_sweep=False) if what == "sweep" else
                    flat_case(task, upto=i - 1) if i else {"stream": "history", **{k: task[k] for k in ("fmt", "kind")}, "steps": []})
        if "torn_ok" in m:
            n_inv += 1
            if not (m["torn_ok"] or m["check"]):
                ck.corr_broken("C05:history-torn-invariant", pre_case,
                               "real store content reached by a history of interrupted writes",
                               "model: neither check_for_geff nor tornOkB")
            if m.get("stale"):
                n_stale += 1
            # hypothesis of the clean-up part of the crash-point theorem from torn pre-states: the committed store
            # is deleteSafeB.  Checked where the pre-state was reached through program-order prefixes only (a
            # concurrent sibling of a failed mutation that still lands can put `nodes/.zattrs` before `nodes/.zgroup`)
            earlier = r["steps"] if what == "sweep" else r["steps"][:i]
            residue = any(x["fault_hit"] and x["nops"] > x["fail_at"] + 1 for x in earlier)
            if m.get("committed") and K.model_kind(task["kind"]) == "mem":
                if residue:
                    n_residue += 1
                else:
                    n_safe += 1
                    if not m.get("commit_delete_safe", True):
                        ck.corr_broken("C05:history-commit-not-delete-safe", flat_case(task) if what == "sweep" else flat_case(task, upto=i),
                                       "store committed by a write on a torn pre-state", "model: deleteSafeB = false")
    ck.extra.update(history_tasks=len(results), history_prefix_steps=n_steps, history_torn_prestates=n_torn,
                    history_fault_points=n_points, history_verdicts=verdicts, history_traces_validated=n_traces,
                    history_invariant_checked=n_inv, history_writes_rejected_for_leftovers=n_stale,
                    history_commit_delete_safe_checked=n_safe, history_commits_after_sibling_residue=n_residue)
    return n_points


def _judge_state(ck, case, verdict, out, read, foreign_ok, faulted):
    last = case["steps"][-1] if case["steps"] else None
    if (verdict == "WRONG" and out == "ok" and last is not None
            and last["g"].get("invalid") in ("meta-absent-node", "meta-absent-edge")):
        # known finding: the call's metadata names a property the call does not supply; on a clean target validation
        # rejects that; on a store object torn by an interrupted write (which the guard does not delete, overwrite=True
        # or not) a left-over property array of that name, length and dtype satisfies the validator
        ck.fail("C05:history-stale-property-adopted",
                f"after the history [{describe(case)}] the last write — whose metadata names a property it does not supply — "
                f"returns normally and the target reads as its nodes and edges with the property values of the earlier "
                f"INTERRUPTED write: the left-overs of that write were not removed (check_for_geff does not take a torn store "
                f"object for a geff) and satisfy validate_structure",
                case, read, "ValueError and roll-back (as on a clean target), or the left-overs removed by overwrite=True")
    elif verdict == "WRONG":
        ck.fail("C05:history-wrong-graph",
                f"after the history [{describe(case)}] the target is accepted by validate_structure + read_to_memory but reads "
                f"neither as the graph of the last write nor as the (recognised) graph it held before that write",
                case, read, "rejected | graph being written | previous recognised graph")
    elif out == "ok" and verdict != "new" and last is not None and not last["g"].get("invalid"):
        ck.fail("C05:history-complete-write-not-new",
                f"the last write of the history [{describe(case)}] returned normally but the target reads as {verdict}",
                case, verdict, "the graph written")
    if not foreign_ok:
        ck.fail("C05:history-destroys-foreign-member", f"the history [{describe(case)}] changed foreign members of the container",
                case, None, "foreign members byte-identical")


# ----------------------------------------------------------------- replay
def replay_case(case):
    task = {**case, "sweep": None, "model": False}
    r = run_task(task)
    if "harness_error" in r:
        print(r["harness_error"], r.get("tb"))
        return 2
    bad = False
    for st, s in zip(case["steps"], r["steps"]):
        print(json.dumps({"step": f"{st['entry']} salt={st['g'].get('salt')} overwrite={st.get('overwrite', False)}",
                          "fail_at": st.get("fail_at"), "outcome": s["out"], "mutations": s["nops"],
                          "target_reads_as": s["verdict"], "read": s["read"], "foreign_preserved": s["foreign_ok"]}))
        if s["verdict"] == "WRONG" or not s["foreign_ok"] or (
                s["out"] == "ok" and s["verdict"] != "new" and not st["g"].get("invalid")):
            bad = True
    print("REPLAY: property FAILS on this input" if bad else "REPLAY: property holds on this input")
    return 1 if bad else 0


def replay_broken(entries):
    """replay of a `…-broken-…` file: the history cases on which model and implementation disagreed are run
    again, on the implementation and through the driver; prints both sides per step.  0: they agree now."""
    drv = common.LeanDriver(PROP)
    bad = False
    for ent in entries:
        case = (ent.get("detail") or {}).get("case")
        if not case or case.get("stream") != "history":
            print(json.dumps({"not-replayable": ent.get("what")}))
            continue
        task = {**case, "sweep": None, "model": True}
        r = run_task(task)
        if "harness_error" in r:
            print(r["harness_error"], r.get("tb"))
            return 2
        reqs = [(i, model_request(task, s["pre"], task["steps"][i], s["g_model"]))
                for i, s in enumerate(r["steps"]) if s.get("g_model") is not None]
        answers = drv.ask([q for _, q in reqs]) or []
        for (i, _), m in zip(reqs, answers):
            s, st = r["steps"][i], task["steps"][i]
            mops = [[o[0], o[1]] for o in m.get("ops", [])]
            k = s["fail_at"]
            agree = (s["log"][:k + 1] == mops[:k + 1]) if s["fault_hit"] else (mops == s["log"] and m.get("outcome") == s["out"])
            print(json.dumps({"step": f"{st['entry']} salt={st['g'].get('salt')} overwrite={st.get('overwrite', False)}",
                              "fail_at": k, "impl": {"outcome": s["out"], "mutations": s["nops"], "target_reads_as": s["verdict"]},
                              "model": {"outcome": m.get("outcome"), "mutations": len(mops), "leftover_members": m.get("stale"),
                                        "pre_state_torn_ok": m.get("torn_ok"), "guard_sees_geff": m.get("check")},
                              "agree": agree}))
            bad = bad or not agree or s["verdict"] == "WRONG" or not s["foreign_ok"]
    print("REPLAY: model and implementation DISAGREE" if bad else "REPLAY: model and implementation agree; property holds on these inputs")
    return 1 if bad else 0
