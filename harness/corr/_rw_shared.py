"""Shared pieces of the C01 / C02 checks (write path + unmasked read path + on-disk layout).

* JSON form of arrays / in-memory geffs / zarr stores (what travels to the Lean drivers):
    array   {"dtype": name, "shape": [..], "flat": [tokens]}  (+ "width" for numpy unicode, python side only)
            tokens: bool -> true/false, ints -> number (|x| < 2^53) or decimal string, floats -> big-endian
            IEEE bit pattern in hex (4/8/16 digits), strings -> JSON strings
    prop    {"values": array | {"obj": [array, ...]}, "missing": array | null}
    geff    {"node_ids": array, "edge_ids": array, "node_props": [[name, prop], ...] | null, "edge_props": ...}
    store   [{"path": [..], "kind": "group", "attrs": [[key, meta | "other"], ...]} |
             {"path": [..], "kind": "array", "arr": array}, ...]   sorted by path
    meta    {"directed": b, "axes": [names] | null, "node_props": [[key, identifier, dtype, varlength|null], ...],
             "edge_props": [...]}   — the part of attrs["geff"] the store-level models look at
* an independent specification oracle for C01 (`same_graph`) and the abstract graph a geff denotes
  (`graph_of`), both on numpy values, written from the property text / docs/specification.md;
* raw-zarr dump of a real store (kind, dtype, shape, values, attrs), store kinds, generators.
"""
from __future__ import annotations

import json
import os
import struct
from pathlib import Path

import numpy as np

INT_DTYPES = ["int8", "int16", "int32", "int64", "uint8", "uint16", "uint32", "uint64"]
FLOAT_DTYPES = ["float32", "float64"]
PROP_DTYPES = ["bool", *INT_DTYPES, "float16", *FLOAT_DTYPES, "str"]
VLEN_DTYPES = ["bool", *INT_DTYPES, *FLOAT_DTYPES, "str"]   # float16 elements are rejected (ValueError)
TWO53 = 2 ** 53
FWIDTH = {"float16": 2, "float32": 4, "float64": 8}
BAD_NAMES = {"", ".", "..", ".zattrs", ".zgroup", ".zarray", ".zmetadata", "zarr.json"}


def valid_name(n: str) -> bool:
    """valid zarr node name under both formats (the property quantifies over these only)"""
    return n not in BAD_NAMES and "/" not in n and "\\" not in n


def jint(x: int):
    x = int(x)
    return x if abs(x) < TWO53 else str(x)


# ------------------------------------------------------------------ arrays <-> JSON
def enc_arr(a) -> dict:
    a = np.asarray(a)
    dt = a.dtype
    flat = a.ravel(order="C")
    if dt.kind == "U":
        return {"dtype": "str", "width": dt.itemsize // 4, "shape": list(a.shape), "flat": [str(x) for x in flat.tolist()]}
    if dt.kind == "T":
        return {"dtype": "str", "width": None, "shape": list(a.shape), "flat": [str(x) for x in flat.tolist()]}
    if dt.kind == "b":
        return {"dtype": "bool", "shape": list(a.shape), "flat": [bool(x) for x in flat.tolist()]}
    if dt.kind in "iu":
        return {"dtype": dt.name, "shape": list(a.shape), "flat": [jint(x) for x in flat.tolist()]}
    if dt.kind == "f" and dt.name in FWIDTH:
        w = FWIDTH[dt.name]
        raw = flat.astype(dt.newbyteorder(">")).tobytes()
        return {"dtype": dt.name, "shape": list(a.shape), "flat": [raw[i * w:(i + 1) * w].hex() for i in range(flat.size)]}
    return {"dtype": "other", "np": str(dt), "shape": list(a.shape), "flat": []}


def dec_arr(j: dict) -> np.ndarray:
    dt, shape, flat = j["dtype"], tuple(j["shape"]), j["flat"]
    if dt == "str":
        w = j.get("width")
        if w is None:
            w = max([len(s) for s in flat] + [1])
        a = np.array(flat, dtype=f"<U{w}") if flat else np.empty((0,), dtype=f"<U{w}")
    elif dt == "bool":
        a = np.array(flat, dtype=bool)
    elif dt in FWIDTH:
        # reinterpret the big-endian bytes; no arithmetic, so every bit pattern (NaN payloads) survives
        a = (np.frombuffer(bytes.fromhex("".join(flat)), dtype=np.dtype(dt).newbyteorder(">")).byteswap().view(dt).copy()
             if flat else np.empty((0,), dtype=dt))
    else:
        a = np.array([int(x) for x in flat], dtype=dt) if flat else np.empty((0,), dtype=dt)
    return relayout(a.reshape(shape), j.get("layout"))


LAYOUTS = ["F", "swap", "strided", "neg", "be", "ro"]


def relayout(a: np.ndarray, layout) -> np.ndarray:
    """the same logical array (shape, dtype up to byte order, C-order contents) in another MEMORY layout:
    Fortran order, axis-swapped view, strided slice of a larger buffer, negative stride, non-native byte order,
    read-only.  Code that ravels/copies with the wrong order or writes into its input shows up only on these."""
    if layout is None or a.dtype == object:
        return a
    if layout == "F":
        return np.asfortranarray(a) if a.ndim >= 2 else a      # (asfortranarray would promote rank 0 to rank 1)
    if layout == "swap":
        if a.ndim < 2:
            return a
        return np.swapaxes(np.ascontiguousarray(np.swapaxes(a, 0, -1)), 0, -1)
    if layout == "strided":
        if a.ndim < 1:
            return a
        big = np.zeros((2 * a.shape[0] + 1, *a.shape[1:]), dtype=a.dtype)
        big[1::2] = a
        return big[1::2]
    if layout == "neg":
        if a.ndim < 1:
            return a
        return a[::-1].copy()[::-1]
    if layout == "be":
        return a.astype(a.dtype.newbyteorder(">")) if a.dtype.kind in "iufU" else a
    if layout == "ro":
        b = a.copy()
        b.setflags(write=False)
        return b
    raise ValueError(layout)


def obj_array(elems) -> np.ndarray:
    a = np.empty((len(elems),), dtype=object)
    for i, e in enumerate(elems):
        a[i] = e
    return a


def enc_prop(p) -> dict:
    v = p["values"]
    if v.dtype == object:
        vals = {"obj": [enc_arr(e) if isinstance(e, np.ndarray) else {"dtype": "other", "np": type(e).__name__, "shape": [], "flat": []}
                        for e in v]}
    else:
        vals = enc_arr(v)
    m = p.get("missing")
    return {"values": vals, "missing": None if m is None else enc_arr(m)}


def dec_prop(j) -> dict:
    v = j["values"]
    vals = obj_array([dec_arr(e) for e in v["obj"]]) if "obj" in v else dec_arr(v)
    return {"values": vals, "missing": None if j["missing"] is None else dec_arr(j["missing"])}


def dec_props(lst):
    return None if lst is None else {name: dec_prop(p) for name, p in lst}


def enc_inmem(o) -> dict:
    return {"node_ids": enc_arr(o["node_ids"]), "edge_ids": enc_arr(o["edge_ids"]),
            "node_props": sorted([[k, enc_prop(p)] for k, p in o["node_props"].items()], key=lambda kp: kp[0]),
            "edge_props": sorted([[k, enc_prop(p)] for k, p in o["edge_props"].items()], key=lambda kp: kp[0])}


def strip_width(j):
    """drop the python-only unicode width (the Lean model has one `str` dtype)"""
    if isinstance(j, dict):
        return {k: strip_width(v) for k, v in j.items() if k not in ("width", "np", "layout")}
    if isinstance(j, list):
        return [strip_width(x) for x in j]
    return j


# ------------------------------------------------------------------ metadata projection
def project_meta(d):
    """the modelled part of attrs['geff'] (raw JSON as stored), or "other" when it is not a mapping
    with the required fields of the right JSON types"""
    try:
        if not isinstance(d, dict) or not isinstance(d["directed"], bool):
            return "other"

        def pm(m):
            out = []
            for k, v in m.items():
                vl = v.get("varlength", None)
                if not isinstance(v["identifier"], str) or not isinstance(v["dtype"], str) or not (vl is None or isinstance(vl, bool)):
                    raise TypeError
                out.append([k, v["identifier"], v["dtype"], vl])
            return sorted(out)
        axes = d.get("axes")
        return {"directed": d["directed"], "axes": None if axes is None else [a["name"] for a in axes],
                "node_props": pm(d["node_props_metadata"]), "edge_props": pm(d["edge_props_metadata"])}
    except Exception:  # noqa: BLE001
        return "other"


def canon_attrs(attrs) -> list:
    out = []
    for k in sorted(dict(attrs)):
        out.append([k, project_meta(attrs[k]) if k == "geff" else "other"])
    return out


def canon_meta(m):
    if isinstance(m, dict):
        return {**m, "node_props": sorted(m["node_props"]), "edge_props": sorted(m["edge_props"])}
    return m


def canon_store(st):
    """canonical order for a store in JSON form (entries by path, attributes by key, metadata entries by key)"""
    out = []
    for e in st:
        if e["kind"] == "group":
            out.append({"path": e["path"], "kind": "group", "attrs": sorted([[k, canon_meta(v)] for k, v in e["attrs"]], key=lambda kv: kv[0])})
        else:
            out.append(e)
    return sorted(out, key=lambda e: e["path"])


def canon_geff(g):
    return {**g, "node_props": sorted(g["node_props"], key=lambda kp: kp[0]), "edge_props": sorted(g["edge_props"], key=lambda kp: kp[0])}


# ------------------------------------------------------------------ raw dump of a zarr hierarchy
def dump_store(store) -> list:
    """every node of the hierarchy through the zarr API only (no geff code)"""
    import zarr

    root = zarr.open_group(store, mode="r")
    out = [{"path": [], "kind": "group", "attrs": canon_attrs(root.attrs)}]
    for p, node in root.members(max_depth=None):
        path = p.split("/")
        if isinstance(node, zarr.Group):
            out.append({"path": path, "kind": "group", "attrs": canon_attrs(node.attrs)})
        else:
            out.append({"path": path, "kind": "array", "arr": enc_arr(node[...])})
    out.sort(key=lambda e: e["path"])
    return out


def store_format(store) -> int:
    import zarr

    return zarr.open_group(store, mode="r").metadata.zarr_format


class StoreCtx:
    """A store of the requested kind; on-disk kinds live in a TemporaryDirectory."""

    def __init__(self, kind: str):
        import tempfile

        self.kind = kind
        self.td = None
        if kind != "mem":
            self.td = tempfile.TemporaryDirectory(prefix="verif-rw-", ignore_cleanup_errors=True)

    def __enter__(self):
        import zarr

        if self.kind == "mem":
            return zarr.storage.MemoryStore()
        p = os.path.join(self.td.name, "g.zarr")
        if self.kind == "local":
            return zarr.storage.LocalStore(p)
        if self.kind == "path":
            return Path(p)
        return p

    def __exit__(self, *a):
        if self.td is not None:
            self.td.cleanup()


# ------------------------------------------------------------------ the specification side (numpy level)
def arr_equal(a: np.ndarray, b: np.ndarray) -> bool:
    """dtype (up to byte order), shape and every element identical (floats by bit pattern, logical C order)"""
    if a.dtype.newbyteorder("=") != b.dtype.newbyteorder("=") or a.shape != b.shape:
        return False
    if a.dtype.kind in "fc":
        nat = a.dtype.newbyteorder("=")
        return np.array(a, order="C").astype(nat).tobytes() == np.array(b, order="C").astype(nat).tobytes()
    if a.dtype.kind in "UT":
        return a.tolist() == b.tolist()
    return bool(np.array_equal(a, b))


def upcast_expected(v: np.ndarray) -> np.ndarray:
    """float16 is upcast to float32 (numerically exact); computed without numpy's cast: through
    Python floats and struct, NaNs keep their sign and payload position"""
    if v.dtype.newbyteorder("=") != np.float16:
        return v
    bits = np.array(v, order="C").astype(np.float16).ravel().view(np.uint16).tolist()
    out = []
    for h in bits:
        s, e, m = h >> 15, (h >> 10) & 0x1F, h & 0x3FF
        if e == 0x1F:
            w = (s << 31) | (0xFF << 23) | (m << 13)
        else:
            w = struct.unpack(">I", struct.pack(">f", struct.unpack(">e", struct.pack(">H", h))[0]))[0]
        out.append(w)
    return np.array(out, dtype=np.uint32).view(np.float32).reshape(v.shape)


def same_prop(name, want, got, where):
    """C01 on one property.  Returns [] or [(key, text)]."""
    v, m = want["values"], want["missing"]
    gv, gm = got["values"], got["missing"]
    if (m is None) != (gm is None) or (m is not None and not arr_equal(np.asarray(m, dtype=bool), gm)):
        return [("C01:prop-missing-mask", f"{where} property {name!r}: missing mask written {None if m is None else m.tolist()} "
                 f"read {None if gm is None else gm.tolist()}")]
    present = [True] * len(v) if m is None else [not bool(x) for x in m]
    if v.dtype == object:
        if gv.dtype != object or gv.shape != v.shape:
            return [("C01:prop-dtype-shape", f"{where} var-length property {name!r}: read back as dtype {gv.dtype} shape {gv.shape}")]
        for i, ok in enumerate(present):
            if ok and not (isinstance(gv[i], np.ndarray) and arr_equal(v[i], gv[i])):
                return [("C01:prop-values", f"{where} var-length property {name!r}: element {i} written {v[i]!r} read {gv[i]!r}")]
        return []
    v = upcast_expected(v)
    if gv.dtype.newbyteorder("=") != v.dtype.newbyteorder("=") or gv.shape != v.shape:
        return [("C01:prop-dtype-shape", f"{where} property {name!r}: written dtype {v.dtype} shape {v.shape}, read dtype {gv.dtype} shape {gv.shape}")]
    for i, ok in enumerate(present):
        if ok and not arr_equal(np.asarray(v[i]), np.asarray(gv[i])):
            return [("C01:prop-values", f"{where} property {name!r}: row {i} written {v[i]!r} read {gv[i]!r}")]
    return []


def same_graph(want, got):
    """C01's specification: `got` (what read_to_memory returned) is the graph `want` that was written.
    want/got: dicts node_ids, edge_ids, node_props, edge_props (props: name -> {values, missing})."""
    bad = []
    if not arr_equal(want["node_ids"], got["node_ids"]):
        bad.append(("C01:ids-differ", f"node ids written {want['node_ids']!r} read {got['node_ids']!r}"))
    if not arr_equal(want["edge_ids"], got["edge_ids"]):
        bad.append(("C01:ids-differ", f"edge ids written {want['edge_ids']!r} read {got['edge_ids']!r}"))
    for where, key in (("node", "node_props"), ("edge", "edge_props")):
        w, g = want[key] or {}, got[key]
        if set(w) != set(g):
            bad.append(("C01:prop-names", f"{where} property names written {sorted(w)} read {sorted(g)}"))
            continue
        for name in w:
            bad += same_prop(name, w[name], g[name], where)
    return bad


def graph_of(o, directed=None):
    """The abstract graph an in-memory geff denotes (docs/specification.md): ids, edges, and per property
    one cell per element — None when missing, else (dtype kind, shape, values).  JSON-able, canonical."""
    def cell(x):
        e = enc_arr(x)
        return [e["dtype"], e["shape"], e["flat"]]

    def props(d, n):
        out = []
        for name in sorted(d or {}):
            v, m = d[name]["values"], d[name]["missing"]
            v = upcast_expected(v) if v.dtype != object else v
            rows = []
            for i in range(len(v)):
                if m is not None and bool(m[i]):
                    rows.append(None)
                else:
                    rows.append(cell(np.asarray(v[i])))
            kind = "vlen" if v.dtype == object else "dense"
            out.append([name, kind, rows])
        return out
    ids = enc_arr(o["node_ids"])
    return {"id_dtype": ids["dtype"], "nodes": ids["flat"],
            "edges": [enc_arr(r)["flat"] for r in np.asarray(o["edge_ids"])],
            "node_props": props(o["node_props"], len(o["node_ids"])),
            "edge_props": props(o["edge_props"], len(o["edge_ids"])),
            **({} if directed is None else {"directed": directed})}


# ------------------------------------------------------------------ generators
STRINGS = ["", "a", "äö", "日本語", "😀", "a b", "x" * 40, " lead", "trail ", "ß́", "‮", "tab\t", "nl\n", "\"q'"]
F64_SPECIAL = ["0000000000000000", "8000000000000000", "7ff0000000000000", "fff0000000000000", "7ff8000000000000",
               "7ff0000000000001", "fff8000000000123", "0000000000000001", "7fefffffffffffff", "3ff8000000000000",
               "c002000000000000", "3fb999999999999a", "47d2ced32a16a1b1"]
F32_SPECIAL = ["00000000", "80000000", "7f800000", "ff800000", "7fc00000", "7f800001", "ffc00123", "00000001",
               "7f7fffff", "3fc00000", "c0100000", "3dcccccd"]
F16_SPECIAL = ["0000", "8000", "7c00", "fc00", "7e00", "7c01", "fe12", "0001", "03ff", "0400", "7bff", "3c00", "c100", "2e66"]
ADV_NAMES = ["values", "missing", "data", "props", "ids", "nodes", "edges", "geff", "a b", "a.b", "ü", "日本", "😀", " ",
             ".hidden", "c", "0", "0.0", "a\nb", "a\tb", "%41", "?", "#", "a:b", "__x", "é", "é", "A", "a", "'", "\"",
             "\x7f", "\x01", "x" * 200, "t", "x", "y", "z", "seg_id"]


def rand_scalar_tokens(rng, dt, n):
    if dt == "bool":
        return [rng.random() < 0.5 for _ in range(n)]
    if dt == "str":
        return [rng.choice(STRINGS) if rng.random() < 0.8 else "".join(rng.choice("abcXYZ 0äπ😀") for _ in range(rng.randint(0, 12)))
                for _ in range(n)]
    if dt in FWIDTH:
        sp = {"float16": F16_SPECIAL, "float32": F32_SPECIAL, "float64": F64_SPECIAL}[dt]
        w = FWIDTH[dt]
        return [rng.choice(sp) if rng.random() < 0.6 else rng.getrandbits(8 * w).to_bytes(w, "big").hex() for _ in range(n)]
    ii = np.iinfo(dt)
    lim = [int(ii.min), int(ii.max), 0, 1, int(ii.max) - 1, int(ii.min) + 1 if ii.min < 0 else 2, -1 if ii.min < 0 else 3]
    return [jint(rng.choice(lim) if rng.random() < 0.6 else rng.randint(int(ii.min), int(ii.max))) for _ in range(n)]


def prod(sh):
    r = 1
    for x in sh:
        r *= x
    return r


def rand_array(rng, dt, shape):
    j = {"dtype": dt, "shape": list(shape), "flat": rand_scalar_tokens(rng, dt, prod(shape))}
    if dt == "str":
        w = max([len(s) for s in j["flat"]] + [1])
        j["width"] = w + (rng.choice([0, 0, 3]))
    return j


def rand_missing(rng, n, p=0.4):
    mode = rng.random()
    if mode < 0.1:
        flat = [True] * n
    elif mode < 0.2:
        flat = [False] * n
    else:
        flat = [rng.random() < p for _ in range(n)]
    return {"dtype": "bool", "shape": [n], "flat": flat}


def rand_prop(rng, n, allow_vlen=True, dtypes=None):
    dt = rng.choice(dtypes or PROP_DTYPES)
    if allow_vlen and dt != "float16" and rng.random() < 0.3:
        ndim = rng.choice([0, 1, 1, 2, 3])
        width = rng.choice([1, 2, 5])
        elems = []
        for _ in range(n):
            sh = [rng.choice([0, 1, 2, 3]) for _ in range(ndim)]
            e = rand_array(rng, dt, sh)
            if dt == "str":
                e["flat"] = [s[:width] for s in e["flat"]]
                e["width"] = width      # one numpy dtype for all elements
            elems.append(e)
        return {"values": {"obj": elems}, "missing": rand_missing(rng, n) if rng.random() < 0.5 else None}
    rank = rng.choice([1, 1, 1, 2, 2, 3])
    shape = [n] + [rng.choice([0, 1, 2, 3]) for _ in range(rank - 1)]
    return {"values": rand_array(rng, dt, shape), "missing": rand_missing(rng, n) if rng.random() < 0.5 else None}


def rand_name(rng, k):
    r = rng.random()
    if r < 0.35:
        return rng.choice(ADV_NAMES)
    if r < 0.7:
        return rng.choice(["p", "score", "pos", "label", "t", "x"]) + str(k)
    return "".join(rng.choice("abcdefXYZ_- .äπ日😀0123") for _ in range(rng.randint(1, 10))) or "q"


def rand_props(rng, n, kmax=3, **kw):
    props, seen = [], set()
    for k in range(rng.choice(list(range(kmax + 1)))):
        name = rand_name(rng, k)
        if name in seen or not valid_name(name):
            continue
        seen.add(name)
        props.append([name, rand_prop(rng, n, **kw)])
    return props


def rand_ids(rng, n_max=40, e_max=80):
    """node ids in ARBITRARY order: values around the dtype limits, or — a third of the time — a permutation of
    0..N-1 (shuffled / descending / interleaved / one transposition), the case in which a reader is tempted to take
    positions for ids; edges mostly without repetitions (also not reversed) so that graph libraries can hold them."""
    idt = rng.choice(INT_DTYPES)
    ii = np.iinfo(idt)
    span = int(ii.max) - int(ii.min) + 1
    n = rng.choice([0, 0, 1, 1, 2, 3, 5, 8, rng.randint(0, n_max)])
    n = min(n, span, int(ii.max) + 1 if rng.random() < 0.5 else span)
    if n >= 2 and n - 1 <= int(ii.max) and rng.random() < 0.35:
        nodes = list(range(n))
        mode = rng.choice(["shuffle", "descending", "interleaved", "swap"])
        if mode == "shuffle":
            rng.shuffle(nodes)
        elif mode == "descending":
            nodes.reverse()
        elif mode == "interleaved":
            nodes = nodes[::2] + nodes[1::2]
        else:
            i = rng.randrange(n - 1)
            nodes[i], nodes[i + 1] = nodes[i + 1], nodes[i]
        if nodes == sorted(nodes):
            nodes.reverse()
    else:
        pool = {int(ii.min), int(ii.max), 0, 1, int(ii.max) - 1}
        while len(pool) < n:
            pool.add(rng.randint(int(ii.min), int(ii.max)))
        nodes = rng.sample(sorted(pool), n)
    e = 0 if n == 0 else rng.choice([0, 1, 1, 2, 4, rng.randint(0, e_max)])
    if rng.random() < 0.85:
        seen, edges = set(), []
        for _ in range(e):
            u, v = rng.choice(nodes), rng.choice(nodes)
            if u != v and (u, v) not in seen and (v, u) not in seen:
                seen.add((u, v))
                edges.append([u, v])
    else:
        edges = [[rng.choice(nodes), rng.choice(nodes)] for _ in range(e)]
    e = len(edges)
    return ({"dtype": idt, "shape": [n], "flat": [jint(x) for x in nodes]},
            {"dtype": idt, "shape": [e, 2], "flat": [jint(x) for r in edges for x in r]})


def set_layouts(rng, g, p=0.4):
    """give a share of the arrays of a JSON geff another memory layout (ids share theirs: same dtype object)"""
    def pick():
        return rng.choice(LAYOUTS) if rng.random() < p else None
    lay = pick()
    if lay is not None:
        g["node_ids"]["layout"] = lay
        g["edge_ids"]["layout"] = lay
    for key in ("node_props", "edge_props"):
        for _, pr in g[key] or []:
            v = pr["values"]
            for arr in (v["obj"] if "obj" in v else [v]):
                lay = pick()
                if lay is not None and not ("obj" in v and lay == "be"):   # elements of one object array share a dtype
                    arr["layout"] = lay
            if "obj" in v and rng.random() < p / 2:
                for arr in v["obj"]:
                    arr["layout"] = "be"
            if pr["missing"] is not None:
                lay = pick()
                if lay is not None:
                    pr["missing"]["layout"] = lay
    return g


def share_names(rng, g, p=0.3):
    """node and edge properties may SHARE names (they live in different groups): rename edge properties to node
    property names — same or different dtype, fixed or variable length on either side"""
    if g["node_props"] and g["edge_props"] and rng.random() < p:
        free = [nm for nm, _ in g["node_props"]]
        rng.shuffle(free)
        taken = {nm for nm, _ in g["edge_props"]}
        for pr in g["edge_props"]:
            if free and rng.random() < 0.8 and free[-1] not in taken:
                taken.discard(pr[0])
                pr[0] = free.pop()
                taken.add(pr[0])
    return g


def rand_geff(rng, n_max=40, e_max=80, kmax=3, **kw):
    nid, eid = rand_ids(rng, n_max, e_max)
    g = {"node_ids": nid, "edge_ids": eid,
         "node_props": rand_props(rng, nid["shape"][0], kmax, **kw),
         "edge_props": rand_props(rng, eid["shape"][0], kmax, **kw)}
    if rng.random() < 0.12 and nid["shape"][0] and eid["shape"][0]:
        # both sides variable length under one name (different element dtypes)
        g["node_props"] = [kp for kp in g["node_props"] if kp[0] != "shared"] + [["shared", rand_prop(rng, nid["shape"][0], dtypes=["int8", "float64", "uint16"])]]
        g["edge_props"] = [kp for kp in g["edge_props"] if kp[0] != "shared"] + [["shared", rand_prop(rng, eid["shape"][0], dtypes=["float32", "int64", "bool"])]]
        for key, k in (("node_props", nid["shape"][0]), ("edge_props", eid["shape"][0])):
            pr = g[key][-1][1]
            if "obj" not in pr["values"] and rng.random() < 0.8:
                dt = pr["values"]["dtype"]
                pr["values"] = {"obj": [rand_array(rng, dt, [rng.choice([0, 1, 2, 3])]) for _ in range(k)]}
    return set_layouts(rng, share_names(rng, g))


def build_geff(g):
    """numpy form of a JSON geff"""
    return {"node_ids": dec_arr(g["node_ids"]), "edge_ids": dec_arr(g["edge_ids"]),
            "node_props": dec_props(g["node_props"]), "edge_props": dec_props(g["edge_props"])}


def corpus(prop):
    d = Path(__file__).resolve().parent.parent / "corpus" / prop
    for f in sorted(d.glob("*.json")):
        c = json.loads(f.read_text())
        c.setdefault("origin", f"corpus/{f.name}")
        yield c
