"""C12, stream `ellipsoid_exact`: the symmetric / positive-definite stage of validate_ellipsoid against the exact
rational model (lean/GeffModel/Ellipsoid.lean, theorems GeffProps.C12Ellipsoid).

A case is a covariance stack given by its exact entries (float hex strings / Python ints) and a dtype.  Every
finite entry is an exact dyadic rational; the model receives these rationals ([num, den] strings) and returns

  exact   outcome of validateEllipsoidExact (exact symmetry + Sylvester)      -- proved = the specification
  tol     outcome of validateEllipsoidTol   (np.allclose's criterion |a-b| <= atol + rtol*|b| read exactly)
  flags   per matrix: sym, close, racc / rrej (robustly accepted / rejected by the allclose reading, slack 2^-k),
          vis (asymmetry not excused by the relative term alone), pd (Sylvester), pin / pout (all leading minors
          >= eps*M^k / some minor <= -eps*M^k, M = max |entry|)

The same flags are recomputed here with fractions.Fraction (a second, independent implementation: Gaussian
pivots instead of minors for definiteness) so that the verdicts do not depend on the Lean side and replay works
without the driver.  Classification of a stack by its matrices NOT flagged missing:

  rounding-sensitive:sym   some matrix is neither racc nor rrej      -> only exception-freedom is checked
  asymmetric               some matrix rrej                          -> the "symmetric" ValueError is due
  tolerance-accepted       all racc, some not exactly symmetric      -> must not fail the symmetry test; if it passes
                                                                        altogether and a matrix is visibly asymmetric
                                                                        this is the finding C12:ellipsoid-atol-accepts-asymmetric
  rounding-sensitive:pd    all exactly symmetric, some neither pin nor pout -> only exception-freedom
                           (an exactly DIAGONAL matrix counts as robust whatever its minors: it is its own spectrum,
                           LAPACK returns the diagonal, so a zero on the diagonal must be rejected)
  not-positive-definite    all exactly symmetric, pd robust, some pout      -> the "positive-definite" ValueError is due
  valid                    all exactly symmetric and pin                    -> must pass
"""
from __future__ import annotations

import itertools
import math
from fractions import Fraction

import numpy as np

RTOL = Fraction(1e-5)     # the binary64 values numpy uses
ATOL = Fraction(1e-8)
SYM_MSG = "Ellipsoid covariance matrices must be symmetric"
PD_MSG = "Ellipsoid covariance matrices must be positive-definite"
INT_DT = ["int8", "int16", "int32", "int64", "uint8", "uint16", "uint32", "uint64"]


def margins(dtype):
    """(slack_log2, eps_log2): binary32 stacks are tested by numpy in single precision"""
    return (12, 8) if dtype == "float32" else (30, 20)


# ----------------------------------------------------------------------------------- case <-> arrays / rationals
def arr(c):
    d, dt = c["d"], np.dtype(c["dtype"])
    if dt.kind == "f":
        a = np.array([[[float.fromhex(x) for x in row] for row in m] for m in c["mats"]], dtype=np.float64)
        a = a.reshape(-1, d, d).astype(dt)
    else:
        a = np.array(c["mats"], dtype=dt).reshape(-1, d, d)
    return a


def fracs(c):
    a = arr(c)
    if a.dtype.kind == "f":
        return [[[Fraction(float(x)) for x in row] for row in m] for m in a.astype(np.float64)]
    return [[[Fraction(int(x)) for x in row] for row in m] for m in a]


def req(c):
    sl, ep = margins(c["dtype"])
    fr = fracs(c)
    return {"op": "ellipsoid_exact", "axes": ["time"] + ["space"] * c["d"], "shape": [len(fr), c["d"], c["d"]],
            "mats": [[[[str(x.numerator), str(x.denominator)] for x in row] for row in m] for m in fr],
            "missing": c["missing"], "slack_log2": sl, "eps_log2": ep}


# ----------------------------------------------------------------------------------- independent flags (Fractions)
def _det(m):
    n = len(m)
    if n == 0:
        return Fraction(1)
    if n == 1:
        return m[0][0]
    return sum((-1) ** j * m[0][j] * _det([r[:j] + r[j + 1:] for r in m[1:]]) for j in range(n))


def _pivots_positive(m):
    """symmetric m: positive definite iff Gaussian elimination without pivoting meets only positive pivots"""
    n = len(m)
    a = [list(r) for r in m]
    for k in range(n):
        if a[k][k] <= 0:
            return False
        for i in range(k + 1, n):
            f = a[i][k] / a[k][k]
            for j in range(k, n):
                a[i][j] -= f * a[k][j]
    return True


def flags_py(m, slack_log2, eps_log2):
    n = len(m)
    slack, eps = Fraction(1, 2 ** slack_log2), Fraction(1, 2 ** eps_log2)
    pairs = [(m[i][j], m[j][i]) for i in range(n) for j in range(n)]

    def thr(b):
        return ATOL + RTOL * abs(b)
    big = max((abs(x) for r in m for x in r), default=Fraction(0))
    minors = [_det([r[:k] for r in m[:k]]) for k in range(1, n + 1)]
    sym = all(a == b for a, b in pairs)
    return {
        "sym": sym,
        "close": all(abs(a - b) <= thr(b) for a, b in pairs),
        "racc": all(abs(a - b) <= thr(b) * (1 - slack) for a, b in pairs),
        "rrej": not all(abs(a - b) <= thr(b) * (1 + slack) for a, b in pairs),
        "vis": not all(abs(a - b) <= RTOL * abs(b) for a, b in pairs),
        "pd": all(x > 0 for x in minors),
        "pin": big > 0 and all(x >= eps * big ** (k + 1) for k, x in enumerate(minors)),
        "pout": big > 0 and any(x <= -(eps * big ** (k + 1)) for k, x in enumerate(minors)),
        "pivots_pd": _pivots_positive(m) if sym else None,
        # an exactly diagonal matrix is its own spectrum: LAPACK returns the diagonal, no rounding is involved
        "diag": all(m[i][j] == 0 for i in range(n) for j in range(n) if i != j),
    }


def classify(c):
    """(class, expected outcome or None, per-matrix flags) from the exact entries"""
    sl, ep = margins(c["dtype"])
    fl = [flags_py(m, sl, ep) for m in fracs(c)]
    live = [f for k, f in enumerate(fl) if not (c["missing"] is not None and c["missing"][k])]
    if any(not f["racc"] and not f["rrej"] for f in live):
        return "rounding-sensitive:sym", None, fl
    if any(f["rrej"] for f in live):
        return "asymmetric", {"o": "ValueError", "msg": SYM_MSG}, fl
    if any(not f["sym"] for f in live):
        return "tolerance-accepted", None, fl
    if any(not f["pin"] and not f["pout"] and not f["diag"] for f in live):
        return "rounding-sensitive:pd", None, fl
    if any(not f["pivots_pd"] for f in live):
        return ("not-positive-definite" if any(f["pout"] for f in live) else "not-positive-definite:diagonal-with-zero",
                {"o": "ValueError", "msg": PD_MSG}, fl)
    return "valid", {"o": "ok"}, fl


# ----------------------------------------------------------------------------------- implementation
def impl(c, _outcome, _meta):
    import geff_spec
    from geff.validate.data import ValidationConfig, validate_data
    from geff.validate.shapes import validate_ellipsoid

    d = c["d"]
    a = arr(c)
    m = None if c["missing"] is None else np.asarray(c["missing"], dtype=bool)
    g = {"metadata": _meta(axes=["time"] + ["space"] * d, ellipsoid="cov", props=[("cov", str(a.dtype))]),
         "node_ids": np.arange(a.shape[0]), "edge_ids": np.zeros((0, 2), dtype=np.int64),
         "node_props": {"cov": {"values": a, "missing": m}}, "edge_props": {}}
    before = a.tobytes()
    out = {"via_data": _outcome(lambda: validate_data(g, ValidationConfig(ellipsoid=True)))}
    axes = [geff_spec.Axis(name=f"a{i}", type=t) for i, t in enumerate(["time"] + ["space"] * d)]
    out["direct"] = _outcome(lambda: validate_ellipsoid(a, axes, m))
    out["modified"] = a.tobytes() != before
    return out


# ----------------------------------------------------------------------------------- judge
def judge(ck, c, im, mo):
    cls, want, fl = classify(c)
    has_mask = c["missing"] is not None and any(c["missing"])
    ck.case(c, f"ellipsoid_exact:d={c['d']}:{c['dtype']}:{cls}" + (":masked" if has_mask else ""), nontrivial=bool(c["mats"]))
    hist = ck.extra.setdefault("ellipsoid_exact_classes", {})
    hist[cls] = hist.get(cls, 0) + 1
    why = ck.extra.setdefault("ellipsoid_exact_generators", {})
    gen = c.get("why", "?").split(":")[0]
    why[gen] = why.get(gen, 0) + 1
    got = im["via_data"]
    if im["direct"] != got:
        ck.fail("C12:ellipsoid-direct-differs", f"validate_ellipsoid gave {im['direct']}, validate_data {got}", c, im, None)
    if im.get("modified"):
        ck.fail("C12:validate_data-modifies-input", "validate_ellipsoid changed the covariance array", c, im, "input unchanged")
    live = [f for k, f in enumerate(fl) if not (c["missing"] is not None and c["missing"][k])]
    if got["o"] not in ("ok", "ValueError"):
        ck.fail("C12:ellipsoid-exception", f"validate_ellipsoid raised {got['o']} on a finite stack ({cls})", c, got, want)
    elif want is not None:
        # specification verdict (exact symmetry + positive pivots, Fractions) on a robust stack
        spec_ok = all(f["sym"] and f["pivots_pd"] for f in live)
        assert spec_ok == (want["o"] == "ok"), (c, fl)
        if got["o"] != want["o"]:
            if got["o"] == "ok":
                ck.fail("C12:ellipsoid-accepts-invalid", f"stack with a robustly {cls} matrix accepted", c, got, want)
            elif has_mask and all(f["sym"] and f["pivots_pd"] for f in live):
                ck.fail("C12:ellipsoid-ignores-missing-mask", f"junk matrix at an entry flagged missing is rejected: {got.get('msg')}", c, got, want)
            else:
                ck.fail("C12:ellipsoid-rejects-valid", f"robustly symmetric positive-definite stack rejected: {got}", c, got, want)
        elif got.get("msg") != want.get("msg"):
            ck.fail("C12:ellipsoid-wrong-error", f"{cls} stack: error {got.get('msg')!r}, due {want.get('msg')!r}", c, got, want)
    elif cls == "tolerance-accepted":
        if got == {"o": "ValueError", "msg": SYM_MSG}:
            ck.corr_broken("C12:allcloseSym (np.allclose criterion read exactly)", c, got, "every pair robustly within atol + rtol*|b|")
        elif got["o"] == "ok" and any(f["vis"] and not f["sym"] for f in live):
            ck.fail("C12:ellipsoid-atol-accepts-asymmetric",
                    "a matrix whose asymmetry exceeds rtol*|entry| (excused only by the absolute tolerance 1e-8 of np.allclose) "
                    "passes ellipsoid validation", c, got, {"o": "ValueError", "msg": SYM_MSG})
    if mo is not None:
        if "err" in mo:
            ck.corr_broken("C12:driver/ellipsoid_exact", c, im, mo)
            return
        keys = ("sym", "close", "racc", "rrej", "vis", "pd", "pin", "pout")
        mfl = [{k: f[k] for k in keys} for f in mo["flags"]]
        if not mo["wf"] or mfl != [{k: f[k] for k in keys} for f in fl]:
            ck.corr_broken("C12:ellipsoid flags (Lean) vs Fractions", c, [{k: f[k] for k in keys} for f in fl], mo)
            return
        if any(f["sym"] and f["pd"] != f["pivots_pd"] for f in fl):
            ck.corr_broken("C12:sylvester vs Gaussian pivots", c, fl, mo)
        if want is not None and (mo["exact"] != want or mo["tol"] != want):
            ck.corr_broken("C12:validateEllipsoidExact/Tol vs classification", c, want, mo)
        if want is not None and got["o"] in ("ok", "ValueError") and (mo["exact"] != got or mo["tol"] != got):
            ck.corr_broken("C12:validateEllipsoidExact", c, got, {"exact": mo["exact"], "tol": mo["tol"]})
        if cls == "tolerance-accepted" and mo["tol"] == {"o": "ValueError", "msg": SYM_MSG}:
            ck.corr_broken("C12:validateEllipsoidTol on a tolerance-accepted stack", c, got, mo["tol"])


# ----------------------------------------------------------------------------------- generators
def _hex(m):
    return [[float(x).hex() for x in row] for row in m]


def _mirror(m):
    """copy the upper triangle onto the lower one: exactly symmetric in floating point"""
    n = len(m)
    return [[m[min(i, j)][max(i, j)] for j in range(n)] for i in range(n)]


def _spd_dyadic(rng, d, eps):
    b = [[Fraction(rng.randint(-8, 8), 8) for _ in range(d)] for _ in range(d)]
    return [[float(sum(b[k][i] * b[k][j] for k in range(d)) + (eps if i == j else 0)) for j in range(d)] for i in range(d)]


def _spd_float(rng, d):
    b = np.array([[rng.gauss(0, 1) for _ in range(d)] for _ in range(d)])
    return _mirror((b.T @ b + np.eye(d)).tolist())


def _spectrum(rng, d, lam):
    """Q diag(lam) Q^T for a seeded random rotation, mirrored"""
    if d == 1:
        return [[float(lam[0])]]
    q, _ = np.linalg.qr(np.array([[rng.gauss(0, 1) for _ in range(d)] for _ in range(d)]))
    return _mirror((q @ np.diag(lam) @ q.T).tolist())


def _scale(m, s):
    return [[math.ldexp(x, s) for x in row] for row in m]


LAM_MIN = [2.0 ** -6, 2.0 ** -10, 2.0 ** -14, 2.0 ** -17, 2.0 ** -19, 2.0 ** -22, 2.0 ** -30, 2.0 ** -45, 0.0,
           -2.0 ** -45, -2.0 ** -30, -2.0 ** -22, -2.0 ** -17, -2.0 ** -14, -2.0 ** -10, -2.0 ** -6, -0.5, -3.0]
ASYM_FACTORS = [1e-3, 0.5, 0.999, 1 - 1e-7, 1 - 1e-12, 1.0, 1 + 1e-12, 1 + 1e-7, 1.001, 2.0, 100.0, 1e6]
SCALES = [0, 0, 0, 0, 10, -10, 40, -25, -30, -40, -60, 100, -100, 300, -300]


def _stack(rng, d, m, why, dtype="float64", junk_ok=True):
    """the matrix under test alone or among good matrices; optionally a mask with finite junk elsewhere, or over
    the matrix itself"""
    pos = rng.choice(["single", "first", "middle", "last"])
    if pos == "single":
        mats, at = [m], 0
    else:
        mats = [_spd_dyadic(rng, d, 1) for _ in range(3)]
        at = {"first": 0, "middle": 1, "last": 2}[pos]
        mats[at] = m
    missing = None
    r = rng.random()
    if r < 0.3 and junk_ok and len(mats) > 1:
        missing = [False] * len(mats)
        other = (at + 1) % len(mats)
        j = [[-3.0 if i == k else 0.0 for k in range(d)] for i in range(d)]
        if d > 1:
            j[0][1] = 7.0
        mats[other] = j
        missing[other] = True
        why += ":junk-under-mask"
    elif r < 0.4:
        missing = [False] * len(mats)
        missing[at] = True
        why += ":self-masked"
    elif r < 0.5:
        missing = [False] * len(mats)
    return {"kind": "ellipsoid_exact", "d": d, "dtype": dtype, "mats": [_hex(x) for x in mats], "missing": missing, "why": why}


def cases(rng, quick):
    n = 4 if quick else 40
    out = []
    for rep in range(n):
        for d in (1, 2, 3):
            # (1) clearly inside: B^T B + eps I (dyadic and float entries), all magnitudes
            for s in SCALES:
                out.append(_stack(rng, d, _scale(_spd_dyadic(rng, d, rng.choice([1, Fraction(1, 4), Fraction(1, 64)])), s), f"spd-dyadic:scale=2^{s}"))
                out.append(_stack(rng, d, _scale(_spd_float(rng, d), s), f"spd-float:scale=2^{s}"))
            # (2) prescribed spectrum: smallest eigenvalue from clearly positive through the margin to clearly negative
            for lm in LAM_MIN:
                for s in (0, -20, 60):
                    lam = [rng.uniform(0.5, 2.0) for _ in range(d)]
                    lam[rng.randrange(d)] = lm
                    out.append(_stack(rng, d, _scale(_spectrum(rng, d, lam), s), f"spectrum:lam_min={lm}"))
            # exactly singular / semidefinite (rank-deficient B^T B, zero matrix)
            b = [[Fraction(rng.randint(-4, 4)) for _ in range(d)]]
            out.append(_stack(rng, d, [[float(b[0][i] * b[0][j]) for j in range(d)] for i in range(d)], "rank-one"))
            out.append(_stack(rng, d, [[0.0] * d for _ in range(d)], "zero-matrix"))
            z = rng.randrange(d)
            out.append(_stack(rng, d, [[(0.0 if i == z else i + 1.0) if i == j else 0.0 for j in range(d)] for i in range(d)], "diagonal-with-zero"))
            # every sign pattern on the diagonal
            for signs in itertools.product([1.0, -1.0], repeat=d):
                out.append(_stack(rng, d, [[signs[i] * (i + 1.5) if i == j else 0.0 for j in range(d)] for i in range(d)], "diagonal-signs"))
            if d > 1:
                # (3) asymmetric by an exact amount f * (atol + rtol*|b|), in every off-diagonal position
                for i in range(d):
                    for j in range(d):
                        if i == j:
                            continue
                        for f in ASYM_FACTORS:
                            for s in (0, 12, -12, -40):
                                m = _scale(_spd_float(rng, d), s)
                                t = 1e-8 + 1e-5 * abs(m[j][i])
                                m[i][j] = m[j][i] + rng.choice([1, -1]) * f * t
                                out.append(_stack(rng, d, m, f"asym:factor={f}:scale=2^{s}"))
                        m = _spd_float(rng, d)
                        m[i][j] = float(np.nextafter(m[j][i], 9.0))
                        out.append(_stack(rng, d, m, "asym:one-ulp"))
                        for amount in (0.1, -0.5, 3.0):
                            m = _spd_dyadic(rng, d, 1)
                            m[i][j] += amount
                            out.append(_stack(rng, d, m, "asym:gross"))
                # tiny magnitudes: a gross relative asymmetry below the absolute tolerance
                for s in (-28, -30, -40, -100):
                    m = _scale([[1.0 if i == j else 0.0 for j in range(d)] for i in range(d)], s)
                    m[0][1] = math.ldexp(rng.choice([0.5, 3.0, 8.0]), s)
                    out.append(_stack(rng, d, m, "asym:tiny-magnitude", junk_ok=False))
            # float32 stacks (numpy tests them in single precision; coarser margins)
            for _ in range(6):
                out.append(_stack(rng, d, _spd_dyadic(rng, d, 1), "float32:spd", dtype="float32"))
                lam = [rng.uniform(0.5, 2.0) for _ in range(d)]
                lam[rng.randrange(d)] = rng.choice([-1.0, -0.25, 0.125, 2.0 ** -5])
                out.append(_stack(rng, d, _spectrum(rng, d, lam), "float32:spectrum", dtype="float32"))
            # (7) integer dtype stacks
            for dt in INT_DT:
                for kind in ("spd", "indefinite", "asym"):
                    b = [[rng.randint(-2, 2) for _ in range(d)] for _ in range(d)]
                    m = [[sum(b[k][i] * b[k][j] for k in range(d)) + (1 if i == j else 0) for j in range(d)] for i in range(d)]
                    if kind == "indefinite":
                        m = [[(1 if i == j else 2) for j in range(d)] for i in range(d)] if d > 1 else ([[0]] if dt.startswith("u") else [[-1]])
                    if kind == "asym":
                        if d == 1:
                            continue
                        m = [[abs(x) for x in row] for row in m]
                        m[0][d - 1] += 1
                    if dt.startswith("u") and any(x < 0 for row in m for x in row):
                        m = [[abs(x) for x in row] for row in m]
                    nn = rng.randint(1, 3)
                    mats = [[[2 if i == j else 0 for j in range(d)] for i in range(d)] for _ in range(nn)]
                    mats[rng.randrange(nn)] = m
                    out.append({"kind": "ellipsoid_exact", "d": d, "dtype": dt, "mats": mats,
                                "missing": rng.choice([None, [False] * nn]), "why": f"int:{kind}"})
        # empty stack, all masked
        for d in (1, 2, 3):
            out.append({"kind": "ellipsoid_exact", "d": d, "dtype": "float64", "mats": [], "missing": rng.choice([None, []]), "why": "empty"})
            out.append({"kind": "ellipsoid_exact", "d": d, "dtype": "float64", "mats": [_hex([[-1.0] * d] * d)], "missing": [True], "why": "all-masked"})
    return out
